//go:build verif_c19

package harness

import (
	"bytes"
	"crypto/sha256"
	"fmt"
	"math/big"
	"sort"
	"testing"

	"github.com/nspcc-dev/neo-go/pkg/config"
	"github.com/nspcc-dev/neo-go/pkg/core/native/nativenames"
	"github.com/nspcc-dev/neo-go/pkg/core/native/noderoles"
	"github.com/nspcc-dev/neo-go/pkg/core/state"
	"github.com/nspcc-dev/neo-go/pkg/core/transaction"
	"github.com/nspcc-dev/neo-go/pkg/crypto/hash"
	"github.com/nspcc-dev/neo-go/pkg/crypto/keys"
	"github.com/nspcc-dev/neo-go/pkg/neotest"
	"github.com/nspcc-dev/neo-go/pkg/neotest/chain"
	"github.com/nspcc-dev/neo-go/pkg/util"
	"github.com/nspcc-dev/neo-go/pkg/vm/stackitem"
	"github.com/nspcc-dev/neo-go/pkg/wallet"
	"github.com/stretchr/testify/require"
)

// ---------------------------------------------------------------------------
// C19: GAS handled by the governance contracts (neofs, alphabet, proxy,
// processing) on real native GAS/NEO.  Model: coq/Model/{Gas,NeoFSGas,
// Alphabet,ProxyProc,GasWorld}.v.
//
// Conventions (premises of the model):
//   - every transaction is sent (fees paid) by a separate payer account that
//     never appears as a party, so the observed GAS balances move only by what
//     the contracts do; NEO is held by the validator account (not observed);
//   - all signers sign with Global scope;
//   - keys are derived from fixed seeds: a run is reproducible bit by bit.

func gasKey(tag string, i int) *wallet.Account {
	h := sha256.Sum256([]byte(fmt.Sprintf("verif-c19-%s-%d", tag, i)))
	pk, err := keys.NewPrivateKeyFromBytes(h[:])
	if err != nil {
		panic(err)
	}
	return wallet.NewAccountFromPrivateKey(pk)
}

func multisigOf(m int, ks []*wallet.Account) neotest.Signer {
	sorted := append([]*wallet.Account{}, ks...)
	sort.Slice(sorted, func(i, j int) bool { return sorted[i].PublicKey().Cmp(sorted[j].PublicKey()) < 0 })
	pubs := make(keys.PublicKeys, len(sorted))
	for i := range sorted {
		pubs[i] = sorted[i].PublicKey()
	}
	accs := make([]*wallet.Account, len(sorted))
	for i := range sorted {
		accs[i] = wallet.NewAccountFromPrivateKey(sorted[i].PrivateKey())
		if err := accs[i].ConvertMultisig(m, pubs.Copy()); err != nil {
			panic(err)
		}
	}
	return neotest.NewMultiSigner(accs...)
}

// newChainN creates a chain whose committee has nc members (one validator).
func newChainN(t testing.TB, nc int) (*Env, []*wallet.Account) {
	ks := make([]*wallet.Account, nc)
	for i := range ks {
		ks[i] = gasKey("committee", i)
	}
	standby := make([]string, nc)
	for i := range ks {
		standby[i] = ks[i].PublicKey().StringCompressed()
	}
	bc, _ := chain.NewSingleWithOptions(t, &chain.Options{BlockchainConfigHook: func(c *config.Blockchain) {
		c.StandbyCommittee = standby
		c.ValidatorsCount = 1
	}})
	validator := multisigOf(1, ks[:1])
	committee := multisigOf(nc/2+1, ks)
	e := neotest.NewExecutor(t, bc, validator, committee)
	return &Env{T: t, E: e, BC: bc}, ks
}

func contractFor(c *neotest.Contract, sender util.Uint160) *neotest.Contract {
	c2 := *c
	c2.Hash = state.CreateContractHash(sender, c.NEF.Checksum, c.Manifest.Name)
	return &c2
}

var gasMarker = []byte{0x57, 0x0b}

type gasEnvCfg struct {
	NC        int   `json:"committee"`       // committee size of the chain
	NotaryOff bool  `json:"notary_disabled"` // neofs deployed in notary-disabled mode
	NAlpha    int   `json:"alphabet"`        // keys in neofs' stored alphabet list
	WFee      *int64 `json:"withdraw_fee"`   // nil = not configured
	CFee      *int64 `json:"candidate_fee"`
	IR        int   `json:"inner_ring"`      // designated NeoFSAlphabet keys (0 = none designated)
	AlphaIdx  []int64 `json:"alpha_index"`   // index argument of each deployed Alphabet contract
	ProxyKind int   `json:"proxy_kind"`      // 0: real proxy, 1: plain account, 2: the neofs contract
}

type gasEnv struct {
	*Env
	cfg        gasEnvCfg
	gasH, neoH util.Uint160
	committee  []*wallet.Account // chain committee keys (index = generation order)
	alphaMulti neotest.Signer    // 2n/3+1 multisig of the committee (common.AlphabetAddress)
	payer      neotest.Signer
	users      []*wallet.Account // U0..U3: ordinary users / candidates
	alpha      []*wallet.Account // keys of the neofs alphabet list (notary-disabled mode)
	irKeys     []*wallet.Account // designated inner ring
	neofs, processing, proxy, token, accept util.Uint160
	alphabets  []util.Uint160
	proxyAddr  util.Uint160 // what the Alphabet contracts were given as proxy
	plain      [][]byte     // plain 20-byte addresses without keys
	parties    [][]byte     // observed GAS accounts
	partyNames []string
	signers    map[string]neotest.Signer // by name
}

func le(i int64) []byte {
	b := big.NewInt(i)
	if b.Sign() == 0 {
		return []byte{}
	}
	return bigToLE(b)
}

func bigToLE(b *big.Int) []byte {
	it := stackitem.NewBigInteger(b)
	bs, _ := it.TryBytes()
	return bs
}

func newGasEnv(t testing.TB, cfg gasEnvCfg) *gasEnv {
	v, ks := newChainN(t, cfg.NC)
	e := v.E
	g := &gasEnv{Env: v, cfg: cfg, committee: ks, signers: map[string]neotest.Signer{}}
	g.gasH = e.NativeHash(t, nativenames.Gas)
	g.neoH = e.NativeHash(t, nativenames.Neo)
	g.alphaMulti = multisigOf(cfg.NC*2/3+1, ks)
	g.payer = neotest.NewSingleSigner(gasKey("payer", 0))
	for i := 0; i < 4; i++ {
		g.users = append(g.users, gasKey("user", i))
	}
	for i := 0; i < cfg.NAlpha; i++ {
		g.alpha = append(g.alpha, gasKey("alpha", i))
	}
	for i := 0; i < cfg.IR; i++ {
		g.irKeys = append(g.irKeys, gasKey("ir", i))
	}
	sort.Slice(g.irKeys, func(i, j int) bool { return g.irKeys[i].PublicKey().Cmp(g.irKeys[j].PublicKey()) < 0 })

	vh := e.Validator.ScriptHash()
	xfer := func(to util.Uint160, amount int64, data any) *transaction.Transaction {
		tx := e.NewUnsignedTx(t, g.gasH, "transfer", vh, to, amount, data)
		return e.SignTx(t, tx, 1_0000_0000, e.Validator)
	}
	addBlock := func(txs ...*transaction.Transaction) {
		e.AddNewBlock(t, txs...)
		for _, tx := range txs {
			e.CheckHalt(t, tx.Hash())
		}
	}
	deployers := []neotest.Signer{}
	{
		txs := []*transaction.Transaction{xfer(g.payer.ScriptHash(), 500000_0000_0000, nil),
			xfer(g.alphaMulti.ScriptHash(), 1, nil), xfer(e.Committee.ScriptHash(), 1, nil)}
		for i := range cfg.AlphaIdx {
			d := neotest.NewSingleSigner(gasKey("deployer", i))
			deployers = append(deployers, d)
			txs = append(txs, xfer(d.ScriptHash(), 100_0000_0000, nil))
		}
		addBlock(txs...)
	}

	cNeofs := contractFor(v.Compile("neofs"), vh)
	cProc := contractFor(v.Compile("processing"), vh)
	cProxy := contractFor(v.Compile("proxy"), vh)
	cTok := contractFor(v.CompileHelper("dummytoken"), vh)
	cAcc := contractFor(v.CompileHelper("caller"), vh)

	pubs := make([]any, len(g.alpha))
	for i, a := range g.alpha {
		pubs[i] = a.PublicKey().Bytes()
	}
	if len(pubs) == 0 {
		pubs = []any{ks[0].PublicKey().Bytes()}
	}
	var ncfg []any
	if cfg.WFee != nil {
		ncfg = append(ncfg, []byte("WithdrawFee"), *cfg.WFee)
	}
	if cfg.CFee != nil {
		ncfg = append(ncfg, []byte("InnerRingCandidateFee"), *cfg.CFee)
	}
	if ncfg == nil {
		ncfg = []any{}
	}
	e.DeployContract(t, cNeofs, []any{cfg.NotaryOff, cProc.Hash, pubs, ncfg})
	e.DeployContract(t, cProc, []any{cNeofs.Hash})
	e.DeployContract(t, cProxy, nil)
	e.DeployContract(t, cTok, nil)
	e.DeployContract(t, cAcc, nil)
	g.neofs, g.processing, g.proxy, g.token, g.accept = cNeofs.Hash, cProc.Hash, cProxy.Hash, cTok.Hash, cAcc.Hash

	g.plain = [][]byte{append(bytes.Repeat([]byte{0xA1}, 19), 1), append(bytes.Repeat([]byte{0xA2}, 19), 2)}
	switch cfg.ProxyKind {
	case 0:
		g.proxyAddr = g.proxy
	case 1:
		g.proxyAddr, _ = util.Uint160DecodeBytesBE(g.plain[1])
	case 2:
		g.proxyAddr = g.neofs
	}
	cAlpha := v.Compile("alphabet")
	for i, idx := range cfg.AlphaIdx {
		ca := contractFor(cAlpha, deployers[i].ScriptHash())
		e.DeployContractBy(t, deployers[i], ca, []any{false, util.Uint160{1}, g.proxyAddr, fmt.Sprintf("A%d", i), idx, int64(len(cfg.AlphaIdx))})
		g.alphabets = append(g.alphabets, ca.Hash)
	}
	if cfg.IR > 0 {
		ka := make([]any, len(g.irKeys))
		for i, k := range g.irKeys {
			ka[i] = k.PublicKey().Bytes()
		}
		tx := e.NewUnsignedTx(t, e.NativeHash(t, nativenames.Designation), "designateAsRole", int64(noderoles.NeoFSAlphabet), ka)
		e.SignTx(t, tx, 1_0000_0000, e.Validator, e.Committee)
		addBlock(tx)
	}

	add := func(name string, h []byte) {
		g.parties = append(g.parties, h)
		g.partyNames = append(g.partyNames, name)
	}
	add("neofs", g.neofs.BytesBE())
	add("processing", g.processing.BytesBE())
	add("proxy", g.proxy.BytesBE())
	add("accept", g.accept.BytesBE())
	add("token", g.token.BytesBE())
	for i, a := range g.alphabets {
		add(fmt.Sprintf("alphabet%d", i), a.BytesBE())
	}
	for i, u := range g.users {
		add(fmt.Sprintf("U%d", i), u.ScriptHash().BytesBE())
		g.signers[fmt.Sprintf("U%d", i)] = neotest.NewSingleSigner(u)
	}
	for i, a := range g.alpha {
		add(fmt.Sprintf("A%d", i), a.ScriptHash().BytesBE())
		g.signers[fmt.Sprintf("A%d", i)] = neotest.NewSingleSigner(a)
	}
	for i, a := range g.irKeys {
		add(fmt.Sprintf("IR%d", i), a.ScriptHash().BytesBE())
		g.signers[fmt.Sprintf("IR%d", i)] = neotest.NewSingleSigner(a)
	}
	for i, k := range ks {
		g.signers[fmt.Sprintf("C%d", i)] = neotest.NewSingleSigner(wallet.NewAccountFromPrivateKey(k.PrivateKey()))
		add(fmt.Sprintf("C%d", i), k.ScriptHash().BytesBE())
	}
	for i, p := range g.plain {
		add(fmt.Sprintf("P%d", i), p)
	}
	g.signers["alpha"] = g.alphaMulti
	g.signers["validator"] = e.Validator
	return g
}

func (g *gasEnv) gasOf(a []byte) *big.Int {
	h, err := util.Uint160DecodeBytesBE(a)
	require.NoError(g.T, err)
	return g.E.Chain.GetUtilityTokenBalance(h)
}

func scriptHashOf(tx *transaction.Transaction) []byte {
	return hash.Hash160(tx.Script).BytesBE()
}

func TestC19Probe(t *testing.T) {
	wf, cf := int64(7), int64(11)
	g := newGasEnv(t, gasEnvCfg{NC: 4, NotaryOff: false, NAlpha: 0, WFee: &wf, CFee: &cf, IR: 3, AlphaIdx: []int64{0, 2, 9, -1}})
	e := g.E
	show := func(what string, r Result) {
		raw := e.GetTxExecResult(t, r.TxHash)
		var evs []string
		for _, ev := range raw.Events {
			evs = append(evs, fmt.Sprintf("%s:%s%v", ev.ScriptHash.StringLE()[:4], ev.Name, ev.Item))
		}
		t.Logf("%s: halt=%v fault=%q stack=%v events=%v", what, r.Halt, r.Fault, r.Stack, evs)
	}
	u0 := neotest.NewSingleSigner(g.users[0])
	fund := func(to util.Uint160, amount int64, data any) Result {
		return g.Invoke([]neotest.Signer{g.payer, e.Validator}, g.gasH, "transfer", e.Validator.ScriptHash(), to, amount, data)
	}
	show("fund u0", fund(u0.ScriptHash(), 20000_0000_0000, nil))
	dep := func(amount int64, data any) Result {
		return g.Invoke([]neotest.Signer{g.payer, u0}, g.gasH, "transfer", u0.ScriptHash(), g.neofs, amount, data)
	}
	show("deposit 5 nil", dep(5, nil))
	show("deposit 0 nil", dep(0, nil))
	show("deposit 9000e8", dep(9000_0000_0000, nil))
	show("deposit 9000e8+1", dep(9000_0000_0000+1, nil))
	show("deposit 5 empty", dep(5, []byte{}))
	show("deposit 5 rcv20", dep(5, g.plain[0]))
	show("deposit 5 len5", dep(5, []byte{1, 2, 3, 4, 5}))
	show("deposit 5 marker", dep(5, gasMarker))
	show("deposit 0 marker", dep(0, gasMarker))
	show("deposit 5 int", dep(5, int64(0x0b57)))
	show("deposit 5 arr", dep(5, []any{int64(1)}))
	show("deposit 5 bool", dep(5, true))
	show("direct call", g.Invoke([]neotest.Signer{g.payer, u0}, g.neofs, "onNEP17Payment", u0.ScriptHash(), 5, nil))
	show("direct call marker", g.Invoke([]neotest.Signer{g.payer, u0}, g.neofs, "onNEP17Payment", u0.ScriptHash(), 5, gasMarker))
	show("token mint", g.Invoke([]neotest.Signer{g.payer}, g.token, "mint", u0.ScriptHash(), 1000))
	show("token transfer", g.Invoke([]neotest.Signer{g.payer, u0}, g.token, "transfer", u0.ScriptHash(), g.neofs, 5, nil))
	show("token transfer marker", g.Invoke([]neotest.Signer{g.payer, u0}, g.token, "transfer", u0.ScriptHash(), g.neofs, 5, gasMarker))
	show("token transfer proxy", g.Invoke([]neotest.Signer{g.payer, u0}, g.token, "transfer", u0.ScriptHash(), g.proxy, 5, nil))
	show("gas to proxy", g.Invoke([]neotest.Signer{g.payer, u0}, g.gasH, "transfer", u0.ScriptHash(), g.proxy, 5, nil))
	show("gas to token(no method)", g.Invoke([]neotest.Signer{g.payer, u0}, g.gasH, "transfer", u0.ScriptHash(), g.token, 5, nil))
	show("neo to proxy", g.Invoke([]neotest.Signer{g.payer, e.Validator}, g.neoH, "transfer", e.Validator.ScriptHash(), g.proxy, 5, nil))
	show("neo to alphabet0", g.Invoke([]neotest.Signer{g.payer, e.Validator}, g.neoH, "transfer", e.Validator.ScriptHash(), g.alphabets[0], 1000, nil))
	show("neo to alphabet0 again", g.Invoke([]neotest.Signer{g.payer, e.Validator}, g.neoH, "transfer", e.Validator.ScriptHash(), g.alphabets[0], 1000, nil))
	show("withdraw 3", g.Invoke([]neotest.Signer{g.payer, u0}, g.neofs, "withdraw", u0.ScriptHash(), 3))
	show("withdraw 9001", g.Invoke([]neotest.Signer{g.payer, u0}, g.neofs, "withdraw", u0.ScriptHash(), 9001))
	show("cheque no alpha", g.Invoke([]neotest.Signer{g.payer, u0}, g.neofs, "cheque", []byte{1}, u0.ScriptHash(), 3, []byte{9}))
	show("cheque alpha", g.Invoke([]neotest.Signer{g.payer, g.alphaMulti}, g.neofs, "cheque", []byte{1}, u0.ScriptHash(), 3, []byte{9}))
	show("cheque alpha to neofs", g.Invoke([]neotest.Signer{g.payer, g.alphaMulti}, g.neofs, "cheque", []byte{1}, g.neofs, 3, []byte{9}))
	show("cheque alpha neg", g.Invoke([]neotest.Signer{g.payer, g.alphaMulti}, g.neofs, "cheque", []byte{1}, u0.ScriptHash(), -3, []byte{9}))
	show("cheque alpha nil lock", g.Invoke([]neotest.Signer{g.payer, g.alphaMulti}, g.neofs, "cheque", []byte{1}, u0.ScriptHash(), 0, nil))
	show("cheque committee majority", g.Invoke([]neotest.Signer{g.payer, e.Committee}, g.neofs, "cheque", []byte{1}, u0.ScriptHash(), 3, []byte{9}))
	show("candAdd", g.Invoke([]neotest.Signer{g.payer, u0}, g.neofs, "innerRingCandidateAdd", g.users[0].PublicKey().Bytes()))
	show("candAdd again", g.Invoke([]neotest.Signer{g.payer, u0}, g.neofs, "innerRingCandidateAdd", g.users[0].PublicKey().Bytes()))
	for i := range g.alphabets {
		for _, s := range []string{"C0", "C1", "C2", "C3"} {
			show(fmt.Sprintf("emit alphabet%d by %s", i, s), g.Invoke([]neotest.Signer{g.payer, g.signers[s]}, g.alphabets[i], "emit"))
		}
	}
	it, err := g.Read(g.neoH, "getCommittee")
	require.NoError(t, err)
	t.Logf("committee: %v", it)
	for i, k := range g.committee {
		t.Logf("C%d = %x", i, k.PublicKey().Bytes())
	}
	for i, p := range g.parties {
		t.Logf("%s %x gas=%v", g.partyNames[i], p, g.gasOf(p))
	}
}
