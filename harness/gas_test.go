package harness

import (
	"bytes"
	"crypto/elliptic"
	"crypto/sha256"
	"fmt"
	"math/big"
	"math/rand"
	"path/filepath"
	"sort"
	"strings"
	"testing"

	"github.com/nspcc-dev/neo-go/pkg/config"
	"github.com/nspcc-dev/neo-go/pkg/core/block"
	"github.com/nspcc-dev/neo-go/pkg/core/native/nativenames"
	"github.com/nspcc-dev/neo-go/pkg/core/native/noderoles"
	"github.com/nspcc-dev/neo-go/pkg/core/state"
	"github.com/nspcc-dev/neo-go/pkg/core/transaction"
	"github.com/nspcc-dev/neo-go/pkg/crypto/hash"
	"github.com/nspcc-dev/neo-go/pkg/crypto/keys"
	"github.com/nspcc-dev/neo-go/pkg/neotest"
	"github.com/nspcc-dev/neo-go/pkg/neotest/chain"
	"github.com/nspcc-dev/neo-go/pkg/smartcontract"
	"github.com/nspcc-dev/neo-go/pkg/util"
	"github.com/nspcc-dev/neo-go/pkg/vm/stackitem"
	"github.com/nspcc-dev/neo-go/pkg/wallet"
	"github.com/stretchr/testify/require"
)

// ---------------------------------------------------------------------------
// C19: GAS handled by the governance contracts (neofs, alphabet, proxy,
// processing) on real native GAS/NEO.  Model: coq/Model/{Gas,NeoFSGas,
// Alphabet,ProxyProc,GasWorld}.v.
//
// Conventions (premises of the model):
//   - every transaction is sent (fees paid) by a separate payer account that
//     never appears as a party, so the observed GAS balances move only by what
//     the contracts do; NEO is held by the validator account (not observed);
//   - all signers sign with Global scope;
//   - keys are derived from fixed seeds: a run is reproducible bit by bit.

func gasKey(tag string, i int) *wallet.Account {
	h := sha256.Sum256([]byte(fmt.Sprintf("verif-c19-%s-%d", tag, i)))
	pk, err := keys.NewPrivateKeyFromBytes(h[:])
	if err != nil {
		panic(err)
	}
	return wallet.NewAccountFromPrivateKey(pk)
}

func multisigOf(m int, ks []*wallet.Account) neotest.Signer {
	sorted := append([]*wallet.Account{}, ks...)
	sort.Slice(sorted, func(i, j int) bool { return sorted[i].PublicKey().Cmp(sorted[j].PublicKey()) < 0 })
	pubs := make(keys.PublicKeys, len(sorted))
	for i := range sorted {
		pubs[i] = sorted[i].PublicKey()
	}
	accs := make([]*wallet.Account, len(sorted))
	for i := range sorted {
		accs[i] = wallet.NewAccountFromPrivateKey(sorted[i].PrivateKey())
		if err := accs[i].ConvertMultisig(m, pubs.Copy()); err != nil {
			panic(err)
		}
	}
	return neotest.NewMultiSigner(accs...)
}

// newChainN creates a chain whose committee has nc members (one validator).
func newChainN(t testing.TB, nc int) (*Env, []*wallet.Account) {
	ks := make([]*wallet.Account, nc)
	for i := range ks {
		ks[i] = gasKey("committee", i)
	}
	standby := make([]string, nc)
	for i := range ks {
		standby[i] = ks[i].PublicKey().StringCompressed()
	}
	bc, _ := chain.NewSingleWithOptions(t, &chain.Options{BlockchainConfigHook: func(c *config.Blockchain) {
		c.StandbyCommittee = standby
		c.ValidatorsCount = 1
	}})
	validator := multisigOf(1, ks[:1])
	committee := multisigOf(nc/2+1, ks)
	e := neotest.NewExecutor(t, bc, validator, committee)
	return &Env{T: t, E: e, BC: bc}, ks
}

func contractFor(c *neotest.Contract, sender util.Uint160) *neotest.Contract {
	c2 := *c
	c2.Hash = state.CreateContractHash(sender, c.NEF.Checksum, c.Manifest.Name)
	return &c2
}

var gasMarker = []byte{0x57, 0x0b}

type gasEnvCfg struct {
	NC        int     `json:"committee"`       // committee size of the chain
	NotaryOff bool    `json:"notary_disabled"` // neofs deployed in notary-disabled mode
	NAlpha    int     `json:"alphabet"`        // keys in neofs' stored alphabet list
	WFee      *int64  `json:"withdraw_fee"`    // nil = not configured
	CFee      *int64  `json:"candidate_fee"`
	IR        int     `json:"inner_ring"`     // designated NeoFSAlphabet keys (0 = none designated)
	AlphaIdx  []int64 `json:"alpha_index"`    // index argument of each deployed Alphabet contract
	ProxyKind int     `json:"proxy_kind"`     // 0: real proxy, 1: plain account, 2: the neofs contract
	FundAlpha int64   `json:"fund_alphabet"`  // GAS given to Alphabet contract i at setup: (i+1)*FundAlpha
	Payee     bool    `json:"payee_contract"` // deploy testdata/votepayee: a contract payee that calls back into NeoFS while it is paid
}

type gasEnv struct {
	*Env
	cfg                                     gasEnvCfg
	gasH, neoH                              util.Uint160
	committee                               []*wallet.Account // chain committee keys (index = generation order)
	alphaMulti                              neotest.Signer    // 2n/3+1 multisig of the committee (common.AlphabetAddress)
	payer                                   neotest.Signer
	users                                   []*wallet.Account // U0..U3: ordinary users / candidates
	alpha                                   []*wallet.Account // keys of the neofs alphabet list (notary-disabled mode)
	irKeys                                  []*wallet.Account // inner ring designated at setup
	irPool                                  []*wallet.Account // keys the inner ring is drawn from (IR0..IR9)
	alphaPool                               []*wallet.Account // keys the stored alphabet list is drawn from (A0..A6)
	neofs, processing, proxy, token, accept util.Uint160
	alphabets                               []util.Uint160
	proxyAddr                               util.Uint160 // what the Alphabet contracts were given as proxy
	plain                                   [][]byte     // plain 20-byte addresses without keys
	parties                                 [][]byte     // observed GAS accounts
	partyNames                              []string
	signers                                 map[string]neotest.Signer // by name
	fsAlphaMulti                            neotest.Signer
	junkKey                                 []byte
	payee                                   util.Uint160 // testdata/votepayee (cfg.Payee)
}

const gasUserFunds = 30000_0000_0000 // 30000 GAS

func le(i int64) []byte {
	b := big.NewInt(i)
	if b.Sign() == 0 {
		return []byte{}
	}
	return bigToLE(b)
}

func bigToLE(b *big.Int) []byte {
	it := stackitem.NewBigInteger(b)
	bs, _ := it.TryBytes()
	return bs
}

func newGasEnv(t testing.TB, cfg gasEnvCfg) *gasEnv {
	v, ks := newChainN(t, cfg.NC)
	e := v.E
	g := &gasEnv{Env: v, cfg: cfg, committee: ks, signers: map[string]neotest.Signer{}}
	g.gasH = e.NativeHash(t, nativenames.Gas)
	g.neoH = e.NativeHash(t, nativenames.Neo)
	g.alphaMulti = multisigOf(cfg.NC*2/3+1, ks)
	g.payer = neotest.NewSingleSigner(gasKey("payer", 0))
	for i := 0; i < 4; i++ {
		g.users = append(g.users, gasKey("user", i))
	}
	for i := 0; i < 7; i++ {
		g.alphaPool = append(g.alphaPool, gasKey("alpha", i))
	}
	g.alpha = g.alphaPool[:cfg.NAlpha]
	for i := 0; i < 10; i++ {
		g.irPool = append(g.irPool, gasKey("ir", i))
	}
	g.irKeys = append(g.irKeys, g.irPool[:cfg.IR]...)
	sort.Slice(g.irKeys, func(i, j int) bool { return g.irKeys[i].PublicKey().Cmp(g.irKeys[j].PublicKey()) < 0 })

	vh := e.Validator.ScriptHash()
	xfer := func(to util.Uint160, amount int64, data any) *transaction.Transaction {
		tx := e.NewUnsignedTx(t, g.gasH, "transfer", vh, to, amount, data)
		return e.SignTx(t, tx, 1_0000_0000, e.Validator)
	}
	addBlock := func(txs ...*transaction.Transaction) {
		e.AddNewBlock(t, txs...)
		for _, tx := range txs {
			e.CheckHalt(t, tx.Hash())
		}
	}
	deployers := []neotest.Signer{}
	{
		txs := []*transaction.Transaction{xfer(g.payer.ScriptHash(), 500000_0000_0000, nil),
			xfer(g.alphaMulti.ScriptHash(), 1, nil), xfer(e.Committee.ScriptHash(), 1, nil)}
		for i := range cfg.AlphaIdx {
			d := neotest.NewSingleSigner(gasKey("deployer", i))
			deployers = append(deployers, d)
			txs = append(txs, xfer(d.ScriptHash(), 100_0000_0000, nil))
		}
		addBlock(txs...)
	}

	cNeofs := contractFor(v.Compile("neofs"), vh)
	cProc := contractFor(v.Compile("processing"), vh)
	cProxy := contractFor(v.Compile("proxy"), vh)
	cTok := contractFor(v.CompileHelper("dummytoken"), vh)
	cAcc := contractFor(v.CompileHelper("caller"), vh)

	pubs := make([]any, len(g.alpha))
	for i, a := range g.alpha {
		pubs[i] = a.PublicKey().Bytes()
	}
	if len(pubs) == 0 {
		pubs = []any{ks[0].PublicKey().Bytes()}
	}
	var ncfg []any
	if cfg.WFee != nil {
		ncfg = append(ncfg, []byte("WithdrawFee"), *cfg.WFee)
	}
	if cfg.CFee != nil {
		ncfg = append(ncfg, []byte("InnerRingCandidateFee"), *cfg.CFee)
	}
	if ncfg == nil {
		ncfg = []any{}
	}
	e.DeployContract(t, cNeofs, []any{cfg.NotaryOff, cProc.Hash, pubs, ncfg})
	e.DeployContract(t, cProc, []any{cNeofs.Hash})
	e.DeployContract(t, cProxy, nil)
	e.DeployContract(t, cTok, nil)
	e.DeployContract(t, cAcc, nil)
	g.neofs, g.processing, g.proxy, g.token, g.accept = cNeofs.Hash, cProc.Hash, cProxy.Hash, cTok.Hash, cAcc.Hash
	if cfg.Payee {
		cPay := contractFor(v.CompileHelper("votepayee"), vh)
		e.DeployContract(t, cPay, nil)
		g.payee = cPay.Hash
	}

	g.plain = [][]byte{append(bytes.Repeat([]byte{0xA1}, 19), 1), append(bytes.Repeat([]byte{0xA2}, 19), 2)}
	switch cfg.ProxyKind {
	case 0:
		g.proxyAddr = g.proxy
	case 1:
		g.proxyAddr, _ = util.Uint160DecodeBytesBE(g.plain[1])
	case 2:
		g.proxyAddr = g.neofs
	}
	cAlpha := v.Compile("alphabet")
	for i, idx := range cfg.AlphaIdx {
		ca := contractFor(cAlpha, deployers[i].ScriptHash())
		e.DeployContractBy(t, deployers[i], ca, []any{false, util.Uint160{1}, g.proxyAddr, fmt.Sprintf("A%d", i), idx, int64(len(cfg.AlphaIdx))})
		g.alphabets = append(g.alphabets, ca.Hash)
	}
	if cfg.FundAlpha > 0 {
		var txs []*transaction.Transaction
		for i, a := range g.alphabets {
			txs = append(txs, xfer(a, cfg.FundAlpha*int64(i+1), nil))
		}
		addBlock(txs...)
	}
	if cfg.IR > 0 {
		ka := make([]any, len(g.irKeys))
		for i, k := range g.irKeys {
			ka[i] = k.PublicKey().Bytes()
		}
		tx := e.NewUnsignedTx(t, e.NativeHash(t, nativenames.Designation), "designateAsRole", int64(noderoles.NeoFSAlphabet), ka)
		if e.Validator.ScriptHash() == e.Committee.ScriptHash() {
			e.SignTx(t, tx, 1_0000_0000, e.Validator)
		} else {
			e.SignTx(t, tx, 1_0000_0000, e.Validator, e.Committee)
		}
		addBlock(tx)
	}

	add := func(name string, h []byte) {
		g.parties = append(g.parties, h)
		g.partyNames = append(g.partyNames, name)
	}
	add("neofs", g.neofs.BytesBE())
	add("processing", g.processing.BytesBE())
	add("proxy", g.proxy.BytesBE())
	add("accept", g.accept.BytesBE())
	add("token", g.token.BytesBE())
	if cfg.Payee {
		add("payee", g.payee.BytesBE())
	}
	for i, a := range g.alphabets {
		add(fmt.Sprintf("alphabet%d", i), a.BytesBE())
	}
	for i, u := range g.users {
		add(fmt.Sprintf("U%d", i), u.ScriptHash().BytesBE())
		g.signers[fmt.Sprintf("U%d", i)] = neotest.NewSingleSigner(u)
	}
	for i, a := range g.alphaPool {
		add(fmt.Sprintf("A%d", i), a.ScriptHash().BytesBE())
		g.signers[fmt.Sprintf("A%d", i)] = neotest.NewSingleSigner(a)
	}
	for i, a := range g.irPool {
		add(fmt.Sprintf("IR%d", i), a.ScriptHash().BytesBE())
		g.signers[fmt.Sprintf("IR%d", i)] = neotest.NewSingleSigner(a)
	}
	for i, k := range ks {
		// committee members are paid block rewards: signers, but not observed parties
		g.signers[fmt.Sprintf("C%d", i)] = neotest.NewSingleSigner(wallet.NewAccountFromPrivateKey(k.PrivateKey()))
	}
	for i, p := range g.plain {
		add(fmt.Sprintf("P%d", i), p)
	}
	g.signers["alpha"] = g.alphaMulti
	g.signers["committee"] = e.Committee
	// "half": floor(n/2)-of-n (at least 1) multi-signature of the committee, below both thresholds for n >= 2
	g.signers["half"] = multisigOf(max(1, cfg.NC/2), ks)
	g.signers["validator"] = e.Validator
	if len(g.alpha) > 0 {
		g.fsAlphaMulti = multisigOf(len(g.alpha)*2/3+1, g.alpha)
	} else {
		g.fsAlphaMulti = e.Validator // 1-of-1 over committee key 0
	}
	g.signers["fsalpha"] = g.fsAlphaMulti
	// funding: U0..U2 hold GAS and dummy tokens, U3 holds nothing
	{
		var txs []*transaction.Transaction
		for i := 0; i < 3; i++ {
			txs = append(txs, xfer(g.users[i].ScriptHash(), gasUserFunds, nil))
			tx := e.NewUnsignedTx(t, g.token, "mint", g.users[i].ScriptHash(), 1000000)
			txs = append(txs, e.SignTx(t, tx, 1_0000_0000, e.Validator))
		}
		addBlock(txs...)
	}
	g.junkKey = append([]byte{0x05}, bytes.Repeat([]byte{0x11}, 32)...)
	return g
}

func (g *gasEnv) gasOf(a []byte) *big.Int {
	h, err := util.Uint160DecodeBytesBE(a)
	require.NoError(g.T, err)
	return g.E.Chain.GetUtilityTokenBalance(h)
}

func scriptHashOf(tx *transaction.Transaction) []byte {
	return hash.Hash160(tx.Script).BytesBE()
}

// ---------------------------------------------------------------------------
// Operations

type gasData struct {
	Kind string `json:"kind"` // null bytes int bool array
	B    []byte `json:"b,omitempty"`
	I    int64  `json:"i,omitempty"`
	T    bool   `json:"t,omitempty"`
}

func (d gasData) arg() any {
	switch d.Kind {
	case "bytes":
		return append([]byte{}, d.B...)
	case "int":
		return d.I
	case "bool":
		return d.T
	case "array":
		return []any{int64(1)}
	}
	return nil
}

func (d gasData) coq(p *Pool) string {
	switch d.Kind {
	case "bytes":
		return "(DBytes " + p.Ref(d.B) + ")"
	case "int":
		return fmt.Sprintf("(DInt %s)", zs(big.NewInt(d.I)))
	case "bool":
		return "(DBool " + BoolLit(d.T) + ")"
	case "array":
		return "DCompound"
	}
	return "DNull"
}

func (d gasData) String() string {
	switch d.Kind {
	case "bytes":
		return "bytes:" + Hex(d.B)
	case "int":
		return fmt.Sprintf("int:%d", d.I)
	case "bool":
		return fmt.Sprintf("bool:%v", d.T)
	}
	if d.Kind == "" {
		return "null"
	}
	return d.Kind
}

type gasOp struct {
	Kind    string   `json:"kind"` // gasTransfer tokenTransfer tokenPay directPay neoTransfer withdraw cheque candAdd candRemove bind unbind setConfig alphabetUpdate emit verify
	From    []byte   `json:"from,omitempty"`
	To      []byte   `json:"to,omitempty"` // receiver / target contract / user
	Amount  *big.Int `json:"amount,omitempty"`
	Data    gasData  `json:"data"`
	ID      []byte   `json:"id,omitempty"`
	Lock    []byte   `json:"lock,omitempty"`
	LockNil bool     `json:"lock_nil,omitempty"`
	Key     []byte   `json:"key,omitempty"`
	Val     []byte   `json:"val,omitempty"`
	Keys    [][]byte `json:"keys,omitempty"`
	Signers []string `json:"signers"` // names, besides the payer
	// tokenPay/directPay: the `from` argument is Null (From is empty then)
	FromNull bool `json:"from_null,omitempty"`
	// Pre: a RoleManagement.designateAsRole(NeoFSAlphabet, Pre) transaction placed
	// in the SAME block just before this one (it is in force from the next block).
	// Kind "designate" is the same transaction in a block of its own (Keys).
	Pre [][]byte `json:"pre_designate,omitempty"`
	// arm: the program the payee contract runs when it is paid next: calls back
	// into the payer, then optionally panics
	Calls []gasCall `json:"calls,omitempty"`
	Fault bool      `json:"fault,omitempty"`
}

// gasCall: a call of NeoFS made by the payee contract from its onNEP17Payment:
// cheque(ID, To, Amount, Lock) or withdraw(To, Amount).
type gasCall struct {
	Kind   string `json:"kind"`
	ID     []byte `json:"id,omitempty"`
	To     []byte `json:"to,omitempty"`
	Amount int64  `json:"amount"`
	Lock   []byte `json:"lock,omitempty"`
}

func (c gasCall) String() string {
	if c.Kind == "withdraw" {
		return fmt.Sprintf("withdraw(%s,%d)", Hex(c.To), c.Amount)
	}
	return fmt.Sprintf("cheque(id=%s,to=%s,amount=%d)", Hex(c.ID), Hex(c.To), c.Amount)
}

func (o gasOp) String() string {
	s := o.Kind + "("
	if o.FromNull {
		s += "from=null,"
	} else if o.From != nil {
		s += "from=" + Hex(o.From) + ","
	}
	if o.To != nil {
		s += "to=" + Hex(o.To) + ","
	}
	if o.Amount != nil {
		s += "amount=" + o.Amount.String() + ","
	}
	switch o.Kind {
	case "gasTransfer", "tokenTransfer", "tokenPay", "directPay", "neoTransfer":
		s += "data=" + o.Data.String() + ","
	case "cheque":
		s += "id=" + Hex(o.ID) + ",lock=" + Hex(o.Lock) + ","
	case "candAdd", "candRemove":
		s += "key=" + Hex(o.Key)[:8] + ".,"
	case "setConfig":
		s += "id=" + Hex(o.ID) + ",key=" + string(o.Key) + ",val=" + Hex(o.Val) + ","
	case "alphabetUpdate", "bind", "unbind":
		s += fmt.Sprintf("id=%s,nkeys=%d,", Hex(o.ID), len(o.Keys))
	case "designate":
		s += "innerRing=" + keyNames(o.Keys) + ","
	case "arm":
		var cs []string
		for _, c := range o.Calls {
			cs = append(cs, c.String())
		}
		s += fmt.Sprintf("payee on next payment calls [%s] fault=%v,", strings.Join(cs, "; "), o.Fault)
	}
	if o.Pre != nil {
		s += "sameBlockAfterDesignate=" + keyNames(o.Pre) + ","
	}
	return s + fmt.Sprintf("signers=%v)", o.Signers)
}

func keyNames(ks [][]byte) string {
	var xs []string
	for _, k := range ks {
		xs = append(xs, Hex(k)[:8])
	}
	return "[" + strings.Join(xs, " ") + "]"
}

type gasEv struct {
	kind    int // as Model.Gas.ev_val
	a, b, c []byte
	amount  *big.Int
	keys    [][]byte
}

type gasObs struct {
	halt    bool
	fault   string
	ret     string
	evs     []gasEv
	bal     []*big.Int
	cands   [][]byte
	wfee    []byte
	wfeeNil bool
	cfee    []byte
	cfeeNil bool
	alpha   [][]byte
	// inputs of the model read from the chain
	wit       [][]byte
	fsAlpha   []byte
	height    int64
	txhash    []byte
	minted    *big.Int
	entryHash []byte
	ir        [][]byte // Inner Ring in force for the block of the transaction
	payments  int64    // payee contract: completed onNEP17Payment callbacks (cfg.Payee)
}

func (g *gasEnv) readKeys(h util.Uint160, method string, args ...any) [][]byte {
	it, err := g.Read(h, method, args...)
	require.NoError(g.T, err)
	var out [][]byte
	arr, _ := it.Value().([]stackitem.Item)
	for _, x := range arr {
		if f, ok := x.Value().([]stackitem.Item); ok {
			if len(f) > 0 {
				out = append(out, ItemBytes(f[0]))
			}
			continue
		}
		out = append(out, ItemBytes(x))
	}
	return out
}

func (g *gasEnv) committeeKeys() [][]byte { return g.readKeys(g.neoH, "getCommittee") }

func (g *gasEnv) irList() [][]byte {
	return g.readKeys(g.E.NativeHash(g.T, nativenames.Designation), "getDesignatedByRole",
		int64(noderoles.NeoFSAlphabet), int64(g.BC.BlockHeight()+1))
}

func (g *gasEnv) prepare(op gasOp) *transaction.Transaction {
	sg := []neotest.Signer{g.payer}
	for _, n := range op.Signers {
		s, ok := g.signers[n]
		if n == "fsalphaCur" {
			if s = g.fsAlphaCurSigner(); s == nil {
				s = g.signers["fsalpha"]
			}
			ok = true
		}
		require.True(g.T, ok, n)
		sg = append(sg, s)
	}
	h := func(b []byte) util.Uint160 {
		u, err := util.Uint160DecodeBytesBE(b)
		require.NoError(g.T, err)
		return u
	}
	var lock any = op.Lock
	if op.LockNil {
		lock = nil
	}
	keys := make([]any, len(op.Keys))
	for i, k := range op.Keys {
		keys[i] = k
	}
	var payFrom any = op.From
	if op.FromNull {
		payFrom = nil
	}
	switch op.Kind {
	case "gasTransfer":
		return g.PrepareTx(sg, g.gasH, "transfer", op.From, op.To, op.Amount, op.Data.arg())
	case "neoTransfer":
		return g.PrepareTx(sg, g.neoH, "transfer", op.From, op.To, op.Amount, op.Data.arg())
	case "tokenTransfer":
		return g.PrepareTx(sg, g.token, "transfer", op.From, op.To, op.Amount, op.Data.arg())
	case "tokenPay":
		return g.PrepareTx(sg, g.token, "pay", op.To, payFrom, op.Amount, op.Data.arg())
	case "directPay":
		return g.PrepareTx(sg, h(op.To), "onNEP17Payment", payFrom, op.Amount, op.Data.arg())
	case "withdraw":
		return g.PrepareTx(sg, g.neofs, "withdraw", op.From, op.Amount)
	case "cheque":
		return g.PrepareTx(sg, g.neofs, "cheque", op.ID, op.To, op.Amount, lock)
	case "candAdd":
		return g.PrepareTx(sg, g.neofs, "innerRingCandidateAdd", op.Key)
	case "candRemove":
		return g.PrepareTx(sg, g.neofs, "innerRingCandidateRemove", op.Key)
	case "bind":
		return g.PrepareTx(sg, g.neofs, "bind", op.From, keys)
	case "unbind":
		return g.PrepareTx(sg, g.neofs, "unbind", op.From, keys)
	case "setConfig":
		return g.PrepareTx(sg, g.neofs, "setConfig", op.ID, op.Key, op.Val)
	case "alphabetUpdate":
		return g.PrepareTx(sg, g.neofs, "alphabetUpdate", op.ID, keys)
	case "designate":
		return g.designateTx(op.Keys)
	case "arm":
		calls := make([]any, len(op.Calls))
		for i, c := range op.Calls {
			if c.Kind == "withdraw" {
				calls[i] = []any{"withdraw", []any{c.To, c.Amount}}
			} else {
				calls[i] = []any{"cheque", []any{c.ID, c.To, c.Amount, c.Lock}}
			}
		}
		return g.PrepareTx(sg, g.payee, "arm", calls, op.Fault)
	case "disarm":
		return g.PrepareTx(sg, g.payee, "disarm")
	case "emit":
		return g.PrepareTx(sg, h(op.To), "emit")
	case "verify":
		return g.PrepareTx(sg, h(op.To), "verify")
	}
	panic(op.Kind)
}

// designateTx: the committee designates the Inner Ring (role NeoFSAlphabet);
// fees are paid by the payer.
func (g *gasEnv) designateTx(ks [][]byte) *transaction.Transaction {
	ka := make([]any, len(ks))
	for i, k := range ks {
		ka[i] = k
	}
	return g.PrepareTx([]neotest.Signer{g.payer, g.E.Committee}, g.E.NativeHash(g.T, nativenames.Designation),
		"designateAsRole", int64(noderoles.NeoFSAlphabet), ka)
}

// fsAlphaCurSigner: the 2n/3+1 multi-signature account of the Alphabet list
// NeoFS stores NOW (nil if a stored key is not one of ours).
func (g *gasEnv) fsAlphaCurSigner() neotest.Signer {
	stored := g.readKeys(g.neofs, "alphabetList")
	var accs []*wallet.Account
	for _, k := range stored {
		var found *wallet.Account
		for _, l := range [][]*wallet.Account{g.alphaPool, g.users, g.committee} {
			for _, a := range l {
				if bytes.Equal(a.PublicKey().Bytes(), k) {
					found = a
				}
			}
		}
		if found == nil {
			return nil
		}
		dup := false
		for _, a := range accs {
			if a == found {
				dup = true
			}
		}
		if dup {
			return nil
		}
		accs = append(accs, found)
	}
	if len(accs) == 0 {
		return nil
	}
	return multisigOf(len(accs)*2/3+1, accs)
}

func (g *gasEnv) observeState(o *gasObs) {
	for _, p := range g.parties {
		o.bal = append(o.bal, g.gasOf(p))
	}
	o.cands = g.readKeys(g.neofs, "innerRingCandidates")
	it, err := g.Read(g.neofs, "config", []byte("WithdrawFee"))
	require.NoError(g.T, err)
	_, o.wfeeNil = it.(stackitem.Null)
	o.wfee = ItemBytes(it)
	it, err = g.Read(g.neofs, "config", []byte("InnerRingCandidateFee"))
	require.NoError(g.T, err)
	_, o.cfeeNil = it.(stackitem.Null)
	o.cfee = ItemBytes(it)
	o.alpha = g.readKeys(g.neofs, "alphabetList")
	if g.cfg.Payee {
		o.payments = g.ReadInt(g.payee, "payments").Int64()
	}
}

func (g *gasEnv) exec(op gasOp) gasObs {
	var o gasObs
	// NeoFS' own multi-signature address; the call faults when a stored key is not a point
	if it, err := g.Read(g.neofs, "alphabetAddress"); err == nil {
		o.fsAlpha = ItemBytes(it)
	}
	// the Inner Ring in force for the block this transaction goes into: a
	// designation made in block h is effective from block h+1
	o.ir = g.irList()
	tx := g.prepare(op)
	o.entryHash = scriptHashOf(tx)
	for _, s := range tx.Signers {
		o.wit = append(o.wit, s.Account.BytesBE())
	}
	var b *block.Block
	if op.Pre != nil {
		pre := g.designateTx(op.Pre)
		b = g.E.AddNewBlock(g.T, pre, tx)
		g.E.CheckHalt(g.T, pre.Hash())
	} else {
		b = g.E.AddNewBlock(g.T, tx)
	}
	r := g.ResultOf(tx, b)
	o.halt, o.fault, o.txhash, o.height = r.Halt, r.Fault, tx.Hash().BytesBE(), int64(b.Index)-1
	switch {
	case !r.Halt:
		o.ret = VFault
	case op.Kind == "gasTransfer" || op.Kind == "neoTransfer" || op.Kind == "verify":
		require.Len(g.T, r.Stack, 1)
		bv, err := r.Stack[0].TryBool()
		require.NoError(g.T, err)
		o.ret = VBool(bv)
	default:
		o.ret = VNull
	}
	// GAS generated by NEO for the target of the op: read back, also from a faulted log
	o.minted = new(big.Int)
	raw := g.E.GetTxExecResult(g.T, tx.Hash())
	vh := g.E.Validator.ScriptHash().BytesBE()
	for _, ev := range raw.Events {
		if ev.ScriptHash != g.gasH || ev.Name != "Transfer" {
			continue
		}
		items := ev.Item.Value().([]stackitem.Item)
		if _, isNull := items[0].(stackitem.Null); isNull && bytes.Equal(ItemBytes(items[1]), op.To) {
			o.minted.Add(o.minted, ItemInt(items[2]))
		}
	}
	for _, ev := range r.Events {
		items := ev.Item.Value().([]stackitem.Item)
		switch {
		case ev.ScriptHash == g.gasH && ev.Name == "Transfer":
			if _, isNull := items[0].(stackitem.Null); isNull && bytes.Equal(ItemBytes(items[1]), vh) {
				continue // GAS generated for the NEO holder who sent NEO (not a party)
			}
			o.evs = append(o.evs, gasEv{kind: 0, a: ItemBytes(items[0]), b: ItemBytes(items[1]), amount: ItemInt(items[2])})
		case ev.ScriptHash != g.neofs:
		case ev.Name == "Deposit":
			o.evs = append(o.evs, gasEv{kind: 1, a: ItemBytes(items[0]), amount: ItemInt(items[1]), b: ItemBytes(items[2]), c: ItemBytes(items[3])})
		case ev.Name == "Withdraw":
			o.evs = append(o.evs, gasEv{kind: 2, a: ItemBytes(items[0]), amount: ItemInt(items[1]), c: ItemBytes(items[2])})
		case ev.Name == "Cheque":
			o.evs = append(o.evs, gasEv{kind: 3, a: ItemBytes(items[0]), b: ItemBytes(items[1]), amount: ItemInt(items[2]), c: ItemBytes(items[3])})
		case ev.Name == "Bind" || ev.Name == "Unbind" || ev.Name == "AlphabetUpdate":
			n := gasEv{kind: map[string]int{"Bind": 4, "Unbind": 5, "AlphabetUpdate": 6}[ev.Name], a: ItemBytes(items[0])}
			for _, k := range items[1].Value().([]stackitem.Item) {
				n.keys = append(n.keys, ItemBytes(k))
			}
			o.evs = append(o.evs, n)
		case ev.Name == "SetConfig":
			o.evs = append(o.evs, gasEv{kind: 7, a: ItemBytes(items[0]), b: ItemBytes(items[1]), c: ItemBytes(items[2])})
		default:
			o.evs = append(o.evs, gasEv{kind: 99})
		}
	}
	g.observeState(&o)
	return o
}

// ---------------------------------------------------------------------------
// Coq output

func zs(z *big.Int) string {
	if z.Sign() < 0 {
		return "(" + z.String() + ")"
	}
	return z.String()
}

func refList(p *Pool, bs [][]byte) string {
	xs := make([]string, len(bs))
	for i, b := range bs {
		xs[i] = p.Ref(b)
	}
	return ListLit(xs)
}

func vbytesList(p *Pool, bs [][]byte) string {
	xs := make([]string, len(bs))
	for i, b := range bs {
		xs[i] = VBytesRef(p.Ref(b))
	}
	return VList(xs)
}

func (g *gasEnv) coqEnv(p *Pool) string {
	var sa []string
	addKey := func(a *wallet.Account) {
		sa = append(sa, fmt.Sprintf("(%s, %s)", p.Ref(a.PublicKey().Bytes()), p.Ref(a.ScriptHash().BytesBE())))
	}
	for _, a := range g.users {
		addKey(a)
	}
	for _, a := range g.alphaPool {
		addKey(a)
	}
	for _, a := range g.irPool {
		addKey(a)
	}
	for _, a := range g.committee {
		addKey(a)
	}
	kinds := []string{
		fmt.Sprintf("(%s, KProcessing)", p.Ref(g.processing.BytesBE())),
		fmt.Sprintf("(%s, KProxy)", p.Ref(g.proxy.BytesBE())),
		fmt.Sprintf("(%s, KAccept)", p.Ref(g.accept.BytesBE())),
		fmt.Sprintf("(%s, KNoMethod)", p.Ref(g.token.BytesBE())),
	}
	for i, a := range g.alphabets {
		kinds = append(kinds, fmt.Sprintf("(%s, KAlphabet %s %s)", p.Ref(a.BytesBE()), zs(big.NewInt(g.cfg.AlphaIdx[i])), p.Ref(g.proxyAddr.BytesBE())))
	}
	return fmt.Sprintf("(mkEnv %s %s %s %s %s)", p.Ref(g.gasH.BytesBE()), p.Ref(g.neoH.BytesBE()), p.Ref(g.neofs.BytesBE()), ListLit(sa), ListLit(kinds))
}

func (g *gasEnv) coqInit(p *Pool, o gasObs) string {
	var bl []string
	for i, a := range g.parties {
		if o.bal[i].Sign() != 0 {
			bl = append(bl, fmt.Sprintf("(%s, %s)", p.Ref(a), zs(o.bal[i])))
		}
	}
	var cf []string
	if !o.wfeeNil {
		cf = append(cf, fmt.Sprintf("(withdraw_fee_key, %s)", p.Ref(o.wfee)))
	}
	if !o.cfeeNil {
		cf = append(cf, fmt.Sprintf("(candidate_fee_key, %s)", p.Ref(o.cfee)))
	}
	return fmt.Sprintf("(winit %s %s %s %s %s)", ListLit(bl), BoolLit(g.cfg.NotaryOff), p.Ref(g.processing.BytesBE()), refList(p, o.alpha), ListLit(cf))
}

func (g *gasEnv) coqOp(p *Pool, op gasOp, o gasObs, irName string) string {
	ctx := fmt.Sprintf("cx %s %s %s %d %s", refList(p, o.wit), p.Ref(o.fsAlpha), irName, o.height, p.Ref(o.txhash))
	var s string
	switch op.Kind {
	case "gasTransfer":
		s = fmt.Sprintf("OGasTransfer %s %s %s %s", p.Ref(op.From), p.Ref(op.To), zs(op.Amount), op.Data.coq(p))
	case "tokenTransfer", "tokenPay":
		s = fmt.Sprintf("OTokenPay %s %s %s %s %s", p.Ref(g.token.BytesBE()), p.Ref(op.To), p.Ref(op.From), zs(op.Amount), op.Data.coq(p))
	case "directPay":
		s = fmt.Sprintf("OTokenPay %s %s %s %s %s", p.Ref(o.entryHash), p.Ref(op.To), p.Ref(op.From), zs(op.Amount), op.Data.coq(p))
	case "neoTransfer":
		s = fmt.Sprintf("ONeoTransfer %s %s %s %s %s", p.Ref(op.From), p.Ref(op.To), zs(op.Amount), op.Data.coq(p), zs(o.minted))
	case "withdraw":
		s = fmt.Sprintf("OWithdraw %s %s", p.Ref(op.From), zs(op.Amount))
	case "cheque":
		s = fmt.Sprintf("OCheque %s %s %s %s", p.Ref(op.ID), p.Ref(op.To), zs(op.Amount), p.Ref(op.Lock))
	case "candAdd":
		s = "OCandAdd " + p.Ref(op.Key)
	case "candRemove":
		s = "OCandRemove " + p.Ref(op.Key)
	case "bind":
		s = fmt.Sprintf("OBind %s %s", p.Ref(op.From), refList(p, op.Keys))
	case "unbind":
		s = fmt.Sprintf("OUnbind %s %s", p.Ref(op.From), refList(p, op.Keys))
	case "setConfig":
		s = fmt.Sprintf("OSetConfig %s %s %s", p.Ref(op.ID), p.Ref(op.Key), p.Ref(op.Val))
	case "alphabetUpdate":
		s = fmt.Sprintf("OAlphabetUpdate %s %s", p.Ref(op.ID), refList(p, op.Keys))
	case "emit":
		s = fmt.Sprintf("OEmit %s %s", p.Ref(op.To), zs(o.minted))
	case "verify":
		s = "OVerify " + p.Ref(op.To)
	default:
		panic(op.Kind)
	}
	return fmt.Sprintf("(%s, %s)", ctx, s)
}

func vi(z *big.Int) string { return "VInt " + zs(z) }

func (g *gasEnv) coqObs(p *Pool, prev, o gasObs) string {
	var evs []string
	for _, n := range o.evs {
		k := "VInt " + fmt.Sprint(n.kind)
		switch n.kind {
		case 0:
			evs = append(evs, VList([]string{k, VBytesRef(p.Ref(n.a)), VBytesRef(p.Ref(n.b)), vi(n.amount)}))
		case 1:
			evs = append(evs, VList([]string{k, VBytesRef(p.Ref(n.a)), vi(n.amount), VBytesRef(p.Ref(n.b)), VBytesRef(p.Ref(n.c))}))
		case 2:
			evs = append(evs, VList([]string{k, VBytesRef(p.Ref(n.a)), vi(n.amount), VBytesRef(p.Ref(n.c))}))
		case 3:
			evs = append(evs, VList([]string{k, VBytesRef(p.Ref(n.a)), VBytesRef(p.Ref(n.b)), vi(n.amount), VBytesRef(p.Ref(n.c))}))
		case 4, 5, 6:
			evs = append(evs, VList([]string{k, VBytesRef(p.Ref(n.a)), vbytesList(p, n.keys)}))
		case 7:
			evs = append(evs, VList([]string{k, VBytesRef(p.Ref(n.a)), VBytesRef(p.Ref(n.b)), VBytesRef(p.Ref(n.c))}))
		default:
			evs = append(evs, "VFault")
		}
	}
	var ch []string
	for i := range o.bal {
		if o.bal[i].Cmp(prev.bal[i]) != 0 {
			ch = append(ch, VList([]string{fmt.Sprintf("VInt %d", i), vi(o.bal[i])}))
		}
	}
	cfgv := func(isNil bool, b []byte) string {
		if isNil {
			return VNull
		}
		return VBytesRef(p.Ref(b))
	}
	return VList([]string{o.ret, VList(evs), VList(ch), vbytesList(p, o.cands), cfgv(o.wfeeNil, o.wfee), cfgv(o.cfeeNil, o.cfee), vbytesList(p, o.alpha)})
}

// ---------------------------------------------------------------------------
// Generator

var gasMax = big.NewInt(9000_0000_0000)

func bn(i int64) *big.Int { return big.NewInt(i) }

type gasGen struct {
	r         *rand.Rand
	g         *gasEnv
	prev      gasObs
	emitSoon  int // emits to issue right after a re-designation of the Inner Ring
	checkSoon int // verify/withdraw to issue right after a change of the stored Alphabet list
}

// irChoice picks a new Inner Ring relative to the current one: grow, shrink,
// disjoint replacement or an arbitrary subset of the pool (never empty).
func (gg *gasGen) irChoice() [][]byte {
	r := gg.r
	g := gg.g
	cur := g.irList()
	in := func(k []byte, l [][]byte) bool {
		for _, x := range l {
			if bytes.Equal(x, k) {
				return true
			}
		}
		return false
	}
	var others [][]byte
	for _, a := range g.irPool {
		if k := a.PublicKey().Bytes(); !in(k, cur) {
			others = append(others, k)
		}
	}
	r.Shuffle(len(others), func(i, j int) { others[i], others[j] = others[j], others[i] })
	var out [][]byte
	switch r.Intn(4) {
	case 0: // grow
		out = append(out, cur...)
		out = append(out, others[:1+r.Intn(min(3, len(others)))]...)
	case 1: // shrink
		if len(cur) > 1 {
			out = append(out, cur[:1+r.Intn(len(cur)-1)]...)
			break
		}
		fallthrough
	case 2: // disjoint replacement
		out = append(out, others[:1+r.Intn(min(7, len(others)))]...)
	default:
		for _, a := range g.irPool {
			if r.Intn(2) == 0 && len(out) < 7 {
				out = append(out, a.PublicKey().Bytes())
			}
		}
		if len(out) == 0 {
			out = append(out, g.irPool[r.Intn(len(g.irPool))].PublicKey().Bytes())
		}
	}
	return out
}

// emitOp: emit of Alphabet contract ai by the right committee member.
func (gg *gasGen) emitOp(ai int) gasOp {
	g := gg.g
	sg := []string{"C0"}
	idx := g.cfg.AlphaIdx[ai]
	cm := g.committeeKeys()
	if idx >= 0 && idx < int64(len(cm)) {
		for i, k := range g.committee {
			if bytes.Equal(k.PublicKey().Bytes(), cm[idx]) {
				sg = []string{fmt.Sprintf("C%d", i)}
			}
		}
	}
	return gasOp{Kind: "emit", To: g.alphabets[ai].BytesBE(), Signers: sg}
}

func (gg *gasGen) pick(xs ...[]byte) []byte { return xs[gg.r.Intn(len(xs))] }

func (gg *gasGen) userIdx() int { return gg.r.Intn(4) }

func (gg *gasGen) uname(i int) string { return fmt.Sprintf("U%d", i) }

func (gg *gasGen) uhash(i int) []byte { return gg.g.users[i].ScriptHash().BytesBE() }

func (gg *gasGen) balOf(a []byte) *big.Int {
	for i, p := range gg.g.parties {
		if bytes.Equal(p, a) {
			return gg.prev.bal[i]
		}
	}
	return new(big.Int)
}

func (gg *gasGen) depositAmount(bal *big.Int) *big.Int {
	r := gg.r
	switch r.Intn(16) {
	case 0:
		return bn(0)
	case 1:
		return bn(-1)
	case 2:
		return bn(1)
	case 3:
		return bn(2)
	case 4:
		return new(big.Int).Sub(gasMax, bn(1))
	case 5, 6:
		return new(big.Int).Set(gasMax)
	case 7:
		return new(big.Int).Add(gasMax, bn(1))
	case 8:
		return new(big.Int).Set(bal)
	case 9:
		return new(big.Int).Add(bal, bn(1))
	case 10:
		return new(big.Int).Mul(gasMax, bn(3))
	default:
		return bn(1 + r.Int63n(5000_0000_0000))
	}
}

func (gg *gasGen) depositData() gasData {
	r := gg.r
	g := gg.g
	switch r.Intn(24) {
	case 20, 21, 22:
		vs := markerVariants(gasDataMarkers[r.Intn(len(gasDataMarkers))])
		return gasData{Kind: "bytes", B: vs[r.Intn(len(vs))]}
	case 23:
		// integers whose byte form is the marker followed by one more byte
		return gasData{Kind: "int", I: 0x0b57 + int64(1+r.Intn(0x7f))<<16}
	case 0, 1, 2, 3:
		return gasData{Kind: "null"}
	case 4, 5:
		return gasData{Kind: "bytes", B: []byte{}}
	case 6, 7, 8:
		return gasData{Kind: "bytes", B: gg.pick(g.plain[0], g.plain[1], gg.uhash(1), gg.uhash(3), g.neofs.BytesBE())}
	case 9:
		return gasData{Kind: "bytes", B: []byte{1, 2, 3, 4, 5}}
	case 10:
		return gasData{Kind: "bytes", B: g.plain[0][:19]}
	case 11:
		return gasData{Kind: "bytes", B: append(append([]byte{}, g.plain[0]...), 7)}
	case 12, 13:
		return gasData{Kind: "bytes", B: gasMarker}
	case 14:
		return gasData{Kind: "int", I: 0x0b57} // the marker as an integer
	case 15:
		return gasData{Kind: "int", I: int64(r.Intn(3))} // 0 -> empty bytes
	case 16:
		return gasData{Kind: "bool", T: r.Intn(2) == 0}
	case 17:
		return gasData{Kind: "array"}
	case 18:
		return gasData{Kind: "bytes", B: g.users[0].PublicKey().Bytes()}
	default:
		return gasData{Kind: "bytes", B: []byte{0x57}}
	}
}

func (gg *gasGen) anyTarget() []byte {
	g := gg.g
	xs := [][]byte{g.neofs.BytesBE(), g.processing.BytesBE(), g.proxy.BytesBE(), g.accept.BytesBE(), g.token.BytesBE(), g.plain[0], gg.uhash(3)}
	for _, a := range g.alphabets {
		xs = append(xs, a.BytesBE())
	}
	return xs[gg.r.Intn(len(xs))]
}

func (gg *gasGen) contractTarget() []byte {
	g := gg.g
	xs := [][]byte{g.neofs.BytesBE(), g.neofs.BytesBE(), g.processing.BytesBE(), g.proxy.BytesBE(), g.accept.BytesBE()}
	for _, a := range g.alphabets {
		xs = append(xs, a.BytesBE())
	}
	return xs[gg.r.Intn(len(xs))]
}

func (gg *gasGen) alphaSigners() []string {
	r := gg.r
	g := gg.g
	if !g.cfg.NotaryOff {
		switch r.Intn(10) {
		case 0:
			return []string{gg.uname(r.Intn(3))}
		case 1:
			return []string{fmt.Sprintf("C%d", r.Intn(g.cfg.NC))}
		case 2, 3:
			return []string{"committee"} // n/2+1: not the Alphabet unless the thresholds coincide
		case 4:
			return []string{"half"}
		default:
			return []string{"alpha"}
		}
	}
	if r.Intn(8) == 0 {
		return []string{gg.uname(r.Intn(3))}
	}
	// a member of the list stored NOW (it changes with alphabetUpdate)
	if cur := gg.prev.alpha; len(cur) > 0 {
		k := cur[r.Intn(len(cur))]
		for i, a := range g.alphaPool {
			if bytes.Equal(a.PublicKey().Bytes(), k) {
				return []string{fmt.Sprintf("A%d", i)}
			}
		}
	}
	return []string{fmt.Sprintf("A%d", r.Intn(len(g.alpha)))}
}

func feeBytes(r *rand.Rand) []byte {
	switch r.Intn(7) {
	case 0:
		return []byte{}
	case 1:
		return []byte{1}
	case 2:
		return le(1_0000_0000)
	case 3:
		return []byte{0xff} // -1
	case 4:
		return bytes.Repeat([]byte{1}, 33) // not an integer
	default:
		return le(int64(1 + r.Intn(1000)))
	}
}

func (gg *gasGen) next(step int) gasOp {
	r := gg.r
	g := gg.g
	if gg.emitSoon > 0 && len(g.alphabets) > 0 {
		// right after a designation: the very next block, then later ones
		gg.emitSoon--
		ai := r.Intn(len(g.alphabets))
		if gg.balOf(g.alphabets[ai].BytesBE()).Cmp(bn(1000)) < 0 && r.Intn(3) != 0 {
			gg.emitSoon++
			return gasOp{Kind: "gasTransfer", From: gg.uhash(0), To: g.alphabets[ai].BytesBE(), Amount: bn(1 + r.Int63n(1_000_000_000)), Data: gasData{Kind: "null"}, Signers: []string{"U0"}}
		}
		return gg.emitOp(ai)
	}
	if gg.checkSoon > 0 {
		gg.checkSoon--
		if g.cfg.NotaryOff && r.Intn(2) == 0 {
			u := r.Intn(3)
			return gasOp{Kind: "withdraw", From: gg.uhash(u), Amount: bn(int64(r.Intn(9000))), Signers: []string{gg.uname(u)}}
		}
		return gasOp{Kind: "verify", To: g.processing.BytesBE(), Signers: []string{[]string{"fsalphaCur", "fsalpha"}[r.Intn(2)]}}
	}
	w := r.Intn(104)
	switch {
	case w >= 100 && len(g.alphabets) > 0: // re-designate the Inner Ring
		ks := gg.irChoice()
		if r.Intn(3) == 0 {
			// designation and emit in the SAME block: the old list still counts
			op := gg.emitOp(r.Intn(len(g.alphabets)))
			op.Pre = ks
			gg.emitSoon = 1 + r.Intn(2)
			return op
		}
		gg.emitSoon = 1 + r.Intn(3)
		return gasOp{Kind: "designate", Keys: ks, Signers: []string{"committee"}}
	case w < 30: // deposit
		u := r.Intn(3)
		op := gasOp{Kind: "gasTransfer", From: gg.uhash(u), To: g.neofs.BytesBE(), Amount: gg.depositAmount(gg.balOf(gg.uhash(u))), Data: gg.depositData(), Signers: []string{gg.uname(u)}}
		if r.Intn(12) == 0 {
			op.Signers = []string{gg.uname((u + 1) % 3)} // not the owner
		}
		return op
	case w < 38: // GAS to the other contracts and accounts
		u := r.Intn(3)
		am := bn(int64(r.Intn(4)) * int64(1+r.Intn(100000)))
		return gasOp{Kind: "gasTransfer", From: gg.uhash(u), To: gg.anyTarget(), Amount: am, Data: gg.depositData(), Signers: []string{gg.uname(u)}}
	case w < 46: // something that is not GAS pays
		u := r.Intn(3)
		d := gasData{Kind: "null"}
		if r.Intn(3) == 0 {
			d = gg.depositData()
		}
		kind := []string{"tokenTransfer", "tokenPay", "directPay"}[r.Intn(3)]
		am := bn(int64(1 + r.Intn(1000)))
		if kind != "tokenTransfer" && r.Intn(3) == 0 {
			am = gg.depositAmount(bn(1000))
		}
		to := gg.contractTarget()
		if kind == "tokenPay" && r.Intn(6) == 0 {
			to = g.plain[0]
		}
		op := gasOp{Kind: kind, From: gg.uhash(u), To: to, Amount: am, Data: d, Signers: []string{gg.uname(u)}}
		if kind != "tokenTransfer" && r.Intn(2) == 0 {
			// the reported sender is an argument of the caller: anything
			fs := g.payFroms(to)
			op.From = fs[r.Intn(len(fs))]
			op.FromNull = op.From == nil
		}
		return op
	case w < 52: // NEO
		d := gasData{Kind: "null"}
		if r.Intn(4) == 0 {
			d = gasData{Kind: "bytes", B: gasMarker}
		}
		to := gg.contractTarget()
		if len(g.alphabets) > 0 && r.Intn(2) == 0 {
			to = g.alphabets[r.Intn(len(g.alphabets))].BytesBE()
		}
		return gasOp{Kind: "neoTransfer", From: g.E.Validator.ScriptHash().BytesBE(), To: to, Amount: bn(int64(r.Intn(3)) * int64(1+r.Intn(2000000))), Data: d, Signers: []string{"validator"}}
	case w < 64: // withdraw
		u := gg.userIdx()
		var am *big.Int
		switch r.Intn(8) {
		case 0:
			am = bn(0)
		case 1:
			am = bn(-1)
		case 2:
			am = bn(9000)
		case 3:
			am = bn(9001)
		default:
			am = bn(int64(r.Intn(9000)))
		}
		op := gasOp{Kind: "withdraw", From: gg.uhash(u), Amount: am, Signers: []string{gg.uname(u)}}
		if r.Intn(10) == 0 {
			op.Signers = []string{gg.uname((u + 1) % 4)}
		}
		if r.Intn(25) == 0 {
			op.From = g.users[u].PublicKey().Bytes()
		}
		if r.Intn(12) == 0 {
			// somebody else's account named by a stranger: the contracts themselves
			op.From = gg.contractTarget()
		}
		return op
	case w < 76: // cheque
		nb := gg.balOf(g.neofs.BytesBE())
		var am *big.Int
		switch r.Intn(8) {
		case 0:
			am = bn(0)
		case 1:
			am = bn(-1)
		case 2:
			am = new(big.Int).Set(nb)
		case 3:
			am = new(big.Int).Add(nb, bn(1))
		default:
			if nb.Sign() > 0 {
				am = new(big.Int).Rand(r, nb)
			} else {
				am = bn(int64(r.Intn(5)))
			}
		}
		to := gg.pick(gg.uhash(0), gg.uhash(1), gg.uhash(3), g.plain[0], g.plain[1], g.neofs.BytesBE(), g.proxy.BytesBE(), g.accept.BytesBE(), g.token.BytesBE(), g.processing.BytesBE())
		op := gasOp{Kind: "cheque", ID: []byte{byte(r.Intn(3) + 1)}, To: to, Amount: am, Lock: []byte{byte(step), 9}, Signers: gg.alphaSigners()}
		if r.Intn(8) == 0 {
			op.Lock, op.LockNil = nil, true
		}
		return op
	case w < 84: // candidates
		u := gg.userIdx()
		key := g.users[u].PublicKey().Bytes()
		if r.Intn(12) == 0 {
			key = g.junkKey
		}
		if r.Intn(3) != 0 {
			op := gasOp{Kind: "candAdd", Key: key, Signers: []string{gg.uname(u)}}
			if r.Intn(10) == 0 {
				op.Signers = []string{gg.uname((u + 1) % 4)}
			}
			return op
		}
		sg := []string{gg.uname(u)}
		switch r.Intn(4) {
		case 0:
			sg = []string{"fsalpha"}
		case 1:
			sg = gg.alphaSigners()
		}
		return gasOp{Kind: "candRemove", Key: key, Signers: sg}
	case w < 87:
		u := gg.userIdx()
		ks := [][]byte{g.users[0].PublicKey().Bytes()}
		if r.Intn(4) == 0 {
			ks = append(ks, g.users[1].PublicKey().Bytes()[:32])
		}
		kind := "bind"
		if r.Intn(2) == 0 {
			kind = "unbind"
		}
		return gasOp{Kind: kind, From: gg.uhash(u), Keys: ks, Signers: []string{gg.uname(u)}}
	case w < 91:
		key := []byte("WithdrawFee")
		if r.Intn(2) == 0 {
			key = []byte("InnerRingCandidateFee")
		}
		return gasOp{Kind: "setConfig", ID: []byte{0x10, byte(r.Intn(2))}, Key: key, Val: feeBytes(r), Signers: gg.alphaSigners()}
	case w < 93:
		n := 1 + r.Intn(3)
		var ks [][]byte
		for i := 0; i < n; i++ {
			if len(g.alpha) > 0 {
				ks = append(ks, g.alphaPool[r.Intn(len(g.alphaPool))].PublicKey().Bytes())
			} else {
				ks = append(ks, g.users[i].PublicKey().Bytes())
			}
		}
		if r.Intn(6) == 0 {
			ks = append(ks, g.junkKey)
		}
		gg.checkSoon = 1 + r.Intn(2)
		return gasOp{Kind: "alphabetUpdate", ID: []byte{0x20, byte(r.Intn(2))}, Keys: ks, Signers: gg.alphaSigners()}
	case w < 98 && len(g.alphabets) > 0: // emit
		ai := r.Intn(len(g.alphabets))
		sg := []string{fmt.Sprintf("C%d", r.Intn(g.cfg.NC))}
		if r.Intn(4) != 0 {
			// the right committee member, if there is one
			idx := g.cfg.AlphaIdx[ai]
			cm := g.committeeKeys()
			if idx >= 0 && idx < int64(len(cm)) {
				for i, k := range g.committee {
					if bytes.Equal(k.PublicKey().Bytes(), cm[idx]) {
						sg = []string{fmt.Sprintf("C%d", i)}
					}
				}
			}
		}
		if r.Intn(10) == 0 {
			sg = []string{gg.uname(0)}
		}
		return gasOp{Kind: "emit", To: g.alphabets[ai].BytesBE(), Signers: sg}
	default:
		to := gg.pick(g.proxy.BytesBE(), g.processing.BytesBE())
		if len(g.alphabets) > 0 && r.Intn(3) == 0 {
			to = g.alphabets[0].BytesBE()
		}
		sg := [][]string{{"alpha"}, {"committee"}, {"fsalpha"}, {"U0"}}[r.Intn(4)]
		return gasOp{Kind: "verify", To: to, Signers: sg}
	}
}

// nextRe: seeded histories around the contract payee (cfg.Payee): deposits,
// arming with a random program, cheque votes of two competing ids.
func (gg *gasGen) nextRe(step int) gasOp {
	r := gg.r
	g := gg.g
	N, H := g.neofs.BytesBE(), g.payee.BytesBE()
	null := gasData{Kind: "null"}
	if step == 0 {
		return gasOp{Kind: "gasTransfer", From: gg.uhash(0), To: N, Amount: bn(1 + r.Int63n(2000)), Data: null, Signers: []string{"U0"}}
	}
	member := func() int { return r.Intn(len(g.alpha)) }
	idOf := func(i int) []byte { return []byte{0x51 + byte(i)} }
	chequeArgs := func(i int) gasCall {
		to := H
		if i == 1 && r.Intn(3) == 0 {
			to = gg.uhash(3)
		}
		return gasCall{Kind: "cheque", ID: idOf(i), To: to, Amount: []int64{10, 25}[i], Lock: []byte{byte(i)}}
	}
	switch w := r.Intn(100); {
	case w < 8:
		return gasOp{Kind: "gasTransfer", From: gg.uhash(0), To: N, Amount: bn(1 + r.Int63n(500)), Data: null, Signers: []string{"U0"}}
	case w < 14:
		return gasOp{Kind: "gasTransfer", From: gg.uhash(0), To: g.alpha[member()].ScriptHash().BytesBE(), Amount: bn(1 + r.Int63n(50)), Data: null, Signers: []string{"U0"}}
	case w < 36:
		var cs []gasCall
		for k := r.Intn(3); k > 0; k-- {
			switch r.Intn(5) {
			case 0:
				cs = append(cs, gasCall{Kind: "withdraw", To: g.alpha[member()].ScriptHash().BytesBE(), Amount: int64(r.Intn(9002))})
			default:
				cs = append(cs, chequeArgs(r.Intn(2)))
			}
		}
		return gasOp{Kind: "arm", Calls: cs, Fault: r.Intn(5) == 0}
	case w < 40:
		return gasOp{Kind: "disarm"}
	default:
		c := chequeArgs(r.Intn(2))
		sg := fmt.Sprintf("A%d", member())
		if r.Intn(20) == 0 {
			sg = "U0"
		}
		return gasOp{Kind: "cheque", ID: c.ID, To: c.To, Amount: bn(c.Amount), Lock: c.Lock, Signers: []string{sg}}
	}
}

func gasRandomCfg(r *rand.Rand, thorough bool) gasEnvCfg {
	fee := func() *int64 {
		var v int64
		switch r.Intn(8) {
		case 0:
			return nil
		case 1:
			v = 0
		case 2:
			v = 1
		case 3:
			v = 1_0000_0000
		case 4:
			v = -1
		default:
			v = int64(1 + r.Intn(100000))
		}
		return &v
	}
	c := gasEnvCfg{NC: 1, WFee: fee(), CFee: fee()}
	switch r.Intn(4) {
	case 0:
		c.NC = 4
	case 1:
		// committees where n/2+1 < 2n/3+1
		c.NC = []int{3, 6}[r.Intn(2)]
		if thorough {
			c.NC = []int{2, 3, 5, 6, 7}[r.Intn(5)]
		}
	}
	c.NotaryOff = r.Intn(5) < 2
	if c.NotaryOff {
		c.NAlpha = 1 + r.Intn(4)
		if r.Intn(6) == 0 {
			c.NAlpha = 7
		}
	} else if r.Intn(3) == 0 {
		c.NAlpha = 1 + r.Intn(3)
	}
	c.IR = r.Intn(8)
	na := 1 + r.Intn(2)
	for i := 0; i < na; i++ {
		idx := int64(r.Intn(c.NC))
		switch r.Intn(10) {
		case 0:
			idx = int64(c.NC)
		case 1:
			idx = -1
		}
		c.AlphaIdx = append(c.AlphaIdx, idx)
	}
	switch r.Intn(6) {
	case 0:
		c.ProxyKind = 1
	case 1:
		c.ProxyKind = 2
	}
	if r.Intn(3) != 0 {
		c.FundAlpha = 1 + r.Int63n(1_000_000_000_000)
		if r.Intn(3) == 0 {
			c.FundAlpha = 1 + r.Int63n(40)
		}
	}
	return c
}

// gasDataMarkers: every constant the contracts of this family compare the
// `data` of a payment against (neofs: ignoreDepositNotification).
var gasDataMarkers = [][]byte{gasMarker}

// markerVariants returns, for a marker m, the byte strings around it that a
// comparison other than exact equality would confuse with it:
// (a) m itself, (b) m followed by extra bytes, for every interesting total
// length (m+1, m+2, 19, 20 = a legal receiver address, 21, 33, 35, 64),
// (c) every proper prefix of m (the empty one included), (d) m with one byte
// altered (each position, alone and padded to a 20-byte address), plus m
// preceded by a byte and m as the tail of a 20-byte address.
func markerVariants(m []byte) [][]byte {
	var out [][]byte
	pad := func(b []byte, n int) []byte {
		x := append([]byte{}, b...)
		for i := len(x); i < n; i++ {
			x = append(x, byte(0xa0+i))
		}
		return x
	}
	out = append(out, append([]byte{}, m...))
	for _, n := range []int{len(m) + 1, len(m) + 2, 19, 20, 21, 33, 35, 64} {
		out = append(out, pad(m, n))
	}
	out = append(out, append(append([]byte{}, m...), 0)) // marker + a zero byte
	for i := 0; i < len(m); i++ {
		out = append(out, append([]byte{}, m[:i]...))
	}
	for i := range m {
		for _, d := range []byte{1, 0x80} {
			x := append([]byte{}, m...)
			x[i] ^= d
			out = append(out, x, pad(x, 20))
		}
	}
	out = append(out, append([]byte{0}, m...))
	tail := pad(nil, 20-len(m))
	out = append(out, append(tail, m...))
	return out
}

// payFroms: what a caller of onNEP17Payment(from, ..) of receiver r may claim
// as the sender: an ordinary account, Null (nil), r's own hash, the GAS and
// NEO hashes, another system contract, the Alphabet (committee) account.
func (g *gasEnv) payFroms(r []byte) [][]byte {
	return [][]byte{
		g.users[0].ScriptHash().BytesBE(),
		nil,
		r,
		g.gasH.BytesBE(),
		g.neoH.BytesBE(),
		g.E.NativeHash(g.T, nativenames.Management).BytesBE(),
		g.alphaMulti.ScriptHash().BytesBE(),
	}
}

// ---------------------------------------------------------------------------
// Corpus: hand-written boundary histories, always run first.

type gasCorpusEntry struct {
	name string
	cfg  gasEnvCfg
	ops  func(g *gasEnv) []gasOp
}

func i64p(v int64) *int64 { return &v }

func gasCorpus(thorough bool) []gasCorpusEntry {
	null := gasData{Kind: "null"}
	by := func(b []byte) gasData { return gasData{Kind: "bytes", B: b} }
	u := func(g *gasEnv, i int) []byte { return g.users[i].ScriptHash().BytesBE() }
	var out []gasCorpusEntry
	// deposits at the boundaries, all data shapes
	out = append(out, gasCorpusEntry{"deposit-boundaries", gasEnvCfg{NC: 1, WFee: i64p(7), CFee: i64p(11), IR: 1, AlphaIdx: []int64{0}},
		func(g *gasEnv) []gasOp {
			N := g.neofs.BytesBE()
			dep := func(a *big.Int, d gasData) gasOp {
				return gasOp{Kind: "gasTransfer", From: u(g, 0), To: N, Amount: a, Data: d, Signers: []string{"U0"}}
			}
			mx := gasMax
			return []gasOp{
				dep(bn(0), null), dep(bn(1), null), dep(bn(-1), null),
				dep(new(big.Int).Sub(mx, bn(1)), null), dep(mx, null), dep(new(big.Int).Add(mx, bn(1)), null),
				dep(bn(5), by([]byte{})), dep(bn(5), by(g.plain[0])), dep(bn(5), by(g.plain[0][:19])),
				dep(bn(5), by(append(append([]byte{}, g.plain[0]...), 1))), dep(bn(5), by([]byte{1})),
				dep(bn(5), by(gasMarker)), dep(bn(0), by(gasMarker)), dep(new(big.Int).Add(mx, bn(1)), by(gasMarker)),
				dep(bn(5), gasData{Kind: "int", I: 0x0b57}), dep(bn(5), gasData{Kind: "int", I: 0}), dep(bn(5), gasData{Kind: "int", I: 5}),
				dep(bn(5), gasData{Kind: "bool", T: true}), dep(bn(5), gasData{Kind: "array"}),
				{Kind: "gasTransfer", From: u(g, 0), To: N, Amount: bn(5), Data: null, Signers: []string{"U1"}},
				{Kind: "gasTransfer", From: u(g, 3), To: N, Amount: bn(5), Data: null, Signers: []string{"U3"}},
				{Kind: "tokenTransfer", From: u(g, 0), To: N, Amount: bn(5), Data: null, Signers: []string{"U0"}},
				{Kind: "tokenTransfer", From: u(g, 0), To: N, Amount: bn(5), Data: by(gasMarker), Signers: []string{"U0"}},
				{Kind: "tokenPay", From: u(g, 0), To: N, Amount: bn(5), Data: null, Signers: []string{"U0"}},
				{Kind: "directPay", From: u(g, 0), To: N, Amount: bn(5), Data: null, Signers: []string{"U0"}},
				{Kind: "directPay", From: u(g, 0), To: N, Amount: bn(5), Data: by(gasMarker), Signers: []string{"U0"}},
				{Kind: "neoTransfer", From: g.E.Validator.ScriptHash().BytesBE(), To: N, Amount: bn(10), Data: null, Signers: []string{"validator"}},
				{Kind: "neoTransfer", From: g.E.Validator.ScriptHash().BytesBE(), To: N, Amount: bn(100000), Data: by(gasMarker), Signers: []string{"validator"}},
				// NeoFS now holds NEO: the next NEO transfer to it makes native NEO mint GAS to it (Deposit from Null)
				{Kind: "neoTransfer", From: g.E.Validator.ScriptHash().BytesBE(), To: N, Amount: bn(0), Data: by(gasMarker), Signers: []string{"validator"}},
			}
		}})
	// accept-only of proxy, processing, alphabet
	out = append(out, gasCorpusEntry{"accept-only", gasEnvCfg{NC: 1, WFee: i64p(7), CFee: i64p(11), IR: 1, AlphaIdx: []int64{0}},
		func(g *gasEnv) []gasOp {
			var ops []gasOp
			v := g.E.Validator.ScriptHash().BytesBE()
			for _, t := range [][]byte{g.proxy.BytesBE(), g.processing.BytesBE(), g.alphabets[0].BytesBE(), g.accept.BytesBE(), g.token.BytesBE(), g.plain[0]} {
				ops = append(ops,
					gasOp{Kind: "gasTransfer", From: u(g, 0), To: t, Amount: bn(3), Data: null, Signers: []string{"U0"}},
					gasOp{Kind: "gasTransfer", From: u(g, 0), To: t, Amount: bn(0), Data: by(gasMarker), Signers: []string{"U0"}},
					gasOp{Kind: "tokenPay", From: u(g, 0), To: t, Amount: bn(3), Data: null, Signers: []string{"U0"}},
					gasOp{Kind: "tokenPay", From: u(g, 0), To: t, Amount: bn(3), Data: by(gasMarker), Signers: []string{"U0"}},
					gasOp{Kind: "neoTransfer", From: v, To: t, Amount: bn(3), Data: null, Signers: []string{"validator"}})
				if len(t) == 20 && !bytes.Equal(t, g.plain[0]) {
					ops = append(ops, gasOp{Kind: "tokenTransfer", From: u(g, 0), To: t, Amount: bn(3), Data: null, Signers: []string{"U0"}},
						gasOp{Kind: "directPay", From: u(g, 0), To: t, Amount: bn(3), Data: null, Signers: []string{"U0"}})
				}
			}
			for _, t := range [][]byte{g.proxy.BytesBE(), g.processing.BytesBE(), g.alphabets[0].BytesBE()} {
				for _, s := range []string{"alpha", "committee", "fsalpha", "U0"} {
					ops = append(ops, gasOp{Kind: "verify", To: t, Signers: []string{s}})
				}
			}
			return ops
		}})
	// data around every marker constant: only the exact marker is a fee payment
	// (no Deposit); 20 bytes are a receiver whatever they start with; any other
	// length is refused; callers other than GAS pass with the exact marker only
	out = append(out, gasCorpusEntry{"marker-variants", gasEnvCfg{NC: 1, WFee: i64p(7), CFee: i64p(11), IR: 1, AlphaIdx: []int64{0}},
		func(g *gasEnv) []gasOp {
			N := g.neofs.BytesBE()
			var ops []gasOp
			for _, m := range gasDataMarkers {
				for _, v := range markerVariants(m) {
					d := by(v)
					ops = append(ops,
						gasOp{Kind: "gasTransfer", From: u(g, 0), To: N, Amount: bn(5), Data: d, Signers: []string{"U0"}},
						gasOp{Kind: "tokenPay", From: u(g, 0), To: N, Amount: bn(5), Data: d, Signers: []string{"U0"}},
						gasOp{Kind: "directPay", From: u(g, 0), To: N, Amount: bn(5), Data: d, Signers: []string{"U0"}})
				}
			}
			for _, i := range []int64{0x0b57, 0x010b57, 0x7f0b57, 0x0b, 0x57, 0x0b56} {
				ops = append(ops, gasOp{Kind: "gasTransfer", From: u(g, 0), To: N, Amount: bn(5), Data: gasData{Kind: "int", I: i}, Signers: []string{"U0"}})
			}
			// the contract's own fee payment still goes through, unreported
			ops = append(ops, gasOp{Kind: "candAdd", Key: g.users[1].PublicKey().Bytes(), Signers: []string{"U1"}})
			return ops
		}})
	// the Inner Ring is re-designated (grow, shrink, disjoint) and emit runs in
	// the same block, the very next block and later: shares go to the CURRENT
	// nodes (a designation made in block h counts from block h+1)
	redesignate := func(g *gasEnv) []gasOp {
		A := g.alphabets[0].BytesBE()
		k := func(is ...int) [][]byte {
			var out [][]byte
			for _, i := range is {
				out = append(out, g.irPool[i].PublicKey().Bytes())
			}
			return out
		}
		fund := func(a int64) gasOp {
			return gasOp{Kind: "gasTransfer", From: u(g, 0), To: A, Amount: bn(a), Data: null, Signers: []string{"U0"}}
		}
		em := gasOp{Kind: "emit", To: A, Signers: []string{"C0"}}
		emPre := func(ks [][]byte) gasOp { x := em; x.Pre = ks; return x }
		des := func(ks [][]byte) gasOp { return gasOp{Kind: "designate", Keys: ks, Signers: []string{"committee"}} }
		return []gasOp{
			fund(16_0000_0003), em,
			des(k(1, 2, 3)), em, // disjoint + grow 1 -> 3, very next block
			fund(16_0000_0003), em, // later
			fund(16_0000_0003), emPre(k(1)), // shrink in the same block: still 3 nodes
			fund(16_0000_0003), em, // next block: 1 node
			des(k(0, 1, 4, 5, 6, 7, 8)), fund(16_0000_0003), em, // grow to 7, two blocks later
			fund(16_0000_0003), emPre(k(2, 9)), em, // disjoint in the same block, then next block
			des(k(3)), des(k(4, 5)), fund(999), em, // two designations in a row
			fund(16_0000_0003), des(k(6, 7, 8)), em, fund(16_0000_0003), em,
		}
	}
	out = append(out, gasCorpusEntry{"emit-redesignate", gasEnvCfg{NC: 1, WFee: i64p(7), CFee: i64p(11), IR: 1, AlphaIdx: []int64{0}}, redesignate})
	out = append(out, gasCorpusEntry{"emit-redesignate-from-empty", gasEnvCfg{NC: 1, WFee: i64p(7), CFee: i64p(11), IR: 0, AlphaIdx: []int64{0}}, redesignate})
	// the Alphabet list stored in NeoFS changes (grow, shrink, disjoint): the
	// very next withdraw pays the CURRENT members, processing.verify wants the
	// CURRENT 2n/3+1 account
	alphaChange := func(g *gasEnv) []gasOp {
		k := func(is ...int) [][]byte {
			var out [][]byte
			for _, i := range is {
				out = append(out, g.alphaPool[i].PublicKey().Bytes())
			}
			return out
		}
		first := "alpha"
		if g.cfg.NotaryOff {
			first = "A0"
		}
		wd := gasOp{Kind: "withdraw", From: u(g, 0), Amount: bn(5), Signers: []string{"U0"}}
		ver := func(sg string) gasOp { return gasOp{Kind: "verify", To: g.processing.BytesBE(), Signers: []string{sg}} }
		upd := func(id byte, ks [][]byte, sg string) gasOp {
			return gasOp{Kind: "alphabetUpdate", ID: []byte{0x30, id}, Keys: ks, Signers: []string{sg}}
		}
		ops := []gasOp{wd, ver("fsalpha"), ver("fsalphaCur"),
			upd(1, k(1, 2, 3), first), wd, ver("fsalpha"), ver("fsalphaCur")} // disjoint + grow
		if g.cfg.NotaryOff {
			// 3 members, threshold 3
			ops = append(ops, upd(2, k(4), "A1"), wd, upd(2, k(4), "A2"), upd(2, k(4), "A3"), wd, ver("fsalpha"), ver("fsalphaCur"),
				upd(3, k(4, 5, 6, 0, 1), "A4"), wd, ver("fsalphaCur"), // grow
				upd(4, k(5), "A0"), upd(4, k(5), "A1"), upd(4, k(5), "A6"), upd(4, k(5), "A5"), wd, ver("fsalphaCur"))
		} else {
			ops = append(ops, upd(2, k(4), "alpha"), wd, ver("fsalpha"), ver("fsalphaCur"),
				upd(3, k(4, 5, 6, 0, 1), "alpha"), wd, ver("fsalphaCur"))
		}
		for _, t := range [][]byte{g.proxy.BytesBE(), g.alphabets[0].BytesBE()} {
			for _, sg := range []string{"alpha", "committee", "fsalphaCur", "U0"} {
				ops = append(ops, gasOp{Kind: "verify", To: t, Signers: []string{sg}})
			}
		}
		return ops
	}
	out = append(out, gasCorpusEntry{"alphabet-change-nonotary", gasEnvCfg{NC: 1, NotaryOff: true, NAlpha: 1, WFee: i64p(13), CFee: i64p(1), IR: 1, AlphaIdx: []int64{0}}, alphaChange})
	out = append(out, gasCorpusEntry{"alphabet-change-notary", gasEnvCfg{NC: 4, NAlpha: 2, WFee: i64p(13), CFee: i64p(1), IR: 1, AlphaIdx: []int64{0}}, alphaChange})
	// Notary mode on committees where n/2+1 < 2n/3+1: every Alphabet-gated path
	// with the Alphabet account, the committee majority, a smaller
	// multi-signature, a single member and a stranger
	gated := func(g *gasEnv) []gasOp {
		N := g.neofs.BytesBE()
		ops := []gasOp{{Kind: "gasTransfer", From: u(g, 0), To: N, Amount: bn(1000_0000), Data: null, Signers: []string{"U0"}}}
		sets := []string{"committee", "half", "C0", fmt.Sprintf("C%d", g.cfg.NC-1), "U0", "fsalpha", "alpha"}
		for i, sg := range sets {
			ops = append(ops,
				gasOp{Kind: "cheque", ID: []byte{0x40, byte(i)}, To: u(g, 3), Amount: bn(7), Lock: []byte{1}, Signers: []string{sg}},
				gasOp{Kind: "setConfig", ID: []byte{0x41, byte(i)}, Key: []byte("WithdrawFee"), Val: le(int64(20 + i)), Signers: []string{sg}},
				gasOp{Kind: "withdraw", From: u(g, 0), Amount: bn(1), Signers: []string{"U0"}}, // the fee in force
				gasOp{Kind: "setConfig", ID: []byte{0x42, byte(i)}, Key: []byte("InnerRingCandidateFee"), Val: le(int64(30 + i)), Signers: []string{sg}},
				gasOp{Kind: "alphabetUpdate", ID: []byte{0x43, byte(i)}, Keys: [][]byte{g.alphaPool[i%7].PublicKey().Bytes()}, Signers: []string{sg}},
				gasOp{Kind: "candRemove", Key: g.users[1].PublicKey().Bytes(), Signers: []string{sg}},
				gasOp{Kind: "verify", To: g.proxy.BytesBE(), Signers: []string{sg}},
				gasOp{Kind: "verify", To: g.alphabets[0].BytesBE(), Signers: []string{sg}},
				gasOp{Kind: "verify", To: g.processing.BytesBE(), Signers: []string{sg}},
				gasOp{Kind: "emit", To: g.alphabets[0].BytesBE(), Signers: []string{sg}})
		}
		return ops
	}
	gatedSizes := []int{3, 6}
	if thorough {
		gatedSizes = []int{2, 3, 5, 6, 7}
	}
	for _, n := range gatedSizes {
		out = append(out, gasCorpusEntry{fmt.Sprintf("alphabet-gated-committee%d", n),
			gasEnvCfg{NC: n, WFee: i64p(7), CFee: i64p(11), IR: 2, AlphaIdx: []int64{0}, FundAlpha: 1000}, gated})
	}
	// an account argument that is a contract's own hash, named by a stranger:
	// native GAS asks no witness when `from` is the calling contract, so the
	// methods themselves must; nothing may move
	ownHash := func(g *gasEnv) []gasOp {
		N := g.neofs.BytesBE()
		accts := [][]byte{N, g.processing.BytesBE(), g.proxy.BytesBE(), g.alphabets[0].BytesBE(), g.accept.BytesBE(), g.token.BytesBE()}
		ops := []gasOp{{Kind: "gasTransfer", From: u(g, 0), To: N, Amount: bn(1000_0000), Data: null, Signers: []string{"U0"}}}
		for _, a := range accts[1:5] {
			ops = append(ops, gasOp{Kind: "gasTransfer", From: u(g, 0), To: a, Amount: bn(1000_0000), Data: null, Signers: []string{"U0"}})
		}
		for _, a := range accts {
			for _, sg := range []string{"U0", "U3"} {
				ops = append(ops,
					gasOp{Kind: "withdraw", From: a, Amount: bn(5), Signers: []string{sg}},
					gasOp{Kind: "withdraw", From: a, Amount: bn(0), Signers: []string{sg}},
					gasOp{Kind: "gasTransfer", From: a, To: u(g, 3), Amount: bn(5), Data: null, Signers: []string{sg}},
					gasOp{Kind: "gasTransfer", From: a, To: N, Amount: bn(5), Data: null, Signers: []string{sg}},
					gasOp{Kind: "bind", From: a, Keys: [][]byte{g.users[0].PublicKey().Bytes()}, Signers: []string{sg}},
					gasOp{Kind: "unbind", From: a, Keys: [][]byte{g.users[0].PublicKey().Bytes()}, Signers: []string{sg}})
			}
		}
		return ops
	}
	out = append(out, gasCorpusEntry{"own-hash-accounts-notary", gasEnvCfg{NC: 1, WFee: i64p(7), CFee: i64p(11), IR: 1, AlphaIdx: []int64{0}}, ownHash})
	out = append(out, gasCorpusEntry{"own-hash-accounts-nonotary", gasEnvCfg{NC: 1, NotaryOff: true, NAlpha: 2, WFee: i64p(7), CFee: i64p(11), IR: 1, AlphaIdx: []int64{0}}, ownHash})
	// a CONTRACT as cheque payee (testdata/votepayee) that, while it is paid,
	// calls back into NeoFS: nothing / the same cheque again / another id /
	// withdraw by the signing member / a panic.  Notary disabled, 1..4 keys.
	// Judged by the Go monitor's reference tally (the model has no re-entrant
	// receivers): one payment and one Cheque per approval, identity after every tx.
	reentry := func(g *gasEnv) []gasOp {
		N, H := g.neofs.BytesBE(), g.payee.BytesBE()
		th := len(g.alpha)*2/3 + 1
		last := fmt.Sprintf("A%d", th-1)
		lastAcc := g.alpha[th-1].ScriptHash().BytesBE()
		ops := []gasOp{{Kind: "gasTransfer", From: u(g, 0), To: N, Amount: bn(1_000_000), Data: null, Signers: []string{"U0"}},
			{Kind: "gasTransfer", From: u(g, 0), To: lastAcc, Amount: bn(10_000), Data: null, Signers: []string{"U0"}},
			{Kind: "gasTransfer", From: u(g, 0), To: H, Amount: bn(5), Data: null, Signers: []string{"U0"}}}
		type prog struct {
			calls func(id, other []byte) []gasCall
			fault bool
		}
		same := func(id []byte) gasCall { return gasCall{Kind: "cheque", ID: id, To: H, Amount: 10, Lock: []byte{7}} }
		progs := []prog{
			{func(id, o []byte) []gasCall { return nil }, false},
			{func(id, o []byte) []gasCall { return []gasCall{same(id)} }, false},
			{func(id, o []byte) []gasCall { return []gasCall{same(id), same(id)} }, false},
			{func(id, o []byte) []gasCall {
				return []gasCall{{Kind: "cheque", ID: o, To: H, Amount: 10, Lock: []byte{7}}}
			}, false},
			{func(id, o []byte) []gasCall {
				return []gasCall{{Kind: "cheque", ID: o, To: u(g, 3), Amount: 33, Lock: []byte{8}}}
			}, false},
			{func(id, o []byte) []gasCall { return nil }, true},
			{func(id, o []byte) []gasCall { return []gasCall{same(id)} }, true},
			{func(id, o []byte) []gasCall { return []gasCall{{Kind: "withdraw", To: lastAcc, Amount: 3}} }, false},
			{func(id, o []byte) []gasCall {
				return []gasCall{same(id), {Kind: "withdraw", To: lastAcc, Amount: 9001}}
			}, false},
			{func(id, o []byte) []gasCall {
				return []gasCall{{Kind: "cheque", ID: id, To: H, Amount: 2_000_000, Lock: []byte{7}}}
			}, false},
		}
		for i, p := range progs {
			id, other := []byte{0x50, byte(i)}, []byte{0x60, byte(i)}
			chq := func(sg string) gasOp {
				return gasOp{Kind: "cheque", ID: id, To: H, Amount: bn(10), Lock: []byte{7}, Signers: []string{sg}}
			}
			arm := gasOp{Kind: "arm", Calls: p.calls(id, other), Fault: p.fault}
			if i%2 == 1 {
				ops = append(ops, arm) // armed before the first vote: votes do not pay, the program waits
			}
			for k := 0; k < th-1; k++ {
				ops = append(ops, chq(fmt.Sprintf("A%d", k)))
			}
			if i%2 == 0 {
				ops = append(ops, arm)
			}
			ops = append(ops, chq(last), chq(last), chq("U0"), gasOp{Kind: "disarm"})
		}
		return ops
	}
	for _, na := range []int{1, 2, 4} {
		out = append(out, gasCorpusEntry{fmt.Sprintf("payee-contract-%d", na),
			gasEnvCfg{NC: 1, NotaryOff: true, NAlpha: na, WFee: i64p(2), CFee: i64p(1), IR: 1, AlphaIdx: []int64{0}, Payee: true}, reentry})
	}
	// accept-only is a function of the CALLER alone (NeoFS: plus the marker):
	// every receiver x every caller kind x every claimed sender x data shapes
	out = append(out, gasCorpusEntry{"accept-only-from", gasEnvCfg{NC: 1, WFee: i64p(7), CFee: i64p(11), IR: 1, AlphaIdx: []int64{0}},
		func(g *gasEnv) []gasOp {
			var ops []gasOp
			v := g.E.Validator.ScriptHash().BytesBE()
			datas := []gasData{null, by(gasMarker), by(g.plain[0]), by([]byte{1, 2, 3})}
			for _, t := range [][]byte{g.neofs.BytesBE(), g.alphabets[0].BytesBE(), g.proxy.BytesBE(), g.processing.BytesBE()} {
				for _, d := range datas {
					for _, f := range g.payFroms(t) {
						for _, kind := range []string{"tokenPay", "directPay"} {
							ops = append(ops, gasOp{Kind: kind, From: f, FromNull: f == nil, To: t, Amount: bn(3), Data: d, Signers: []string{"U0"}})
						}
					}
					// the native callers report the real sender
					ops = append(ops,
						gasOp{Kind: "gasTransfer", From: u(g, 0), To: t, Amount: bn(3), Data: d, Signers: []string{"U0"}},
						gasOp{Kind: "neoTransfer", From: v, To: t, Amount: bn(3), Data: d, Signers: []string{"validator"}})
				}
			}
			// NEO and GAS with the receiver itself as sender: Emit's self transfer and its mint
			ops = append(ops,
				gasOp{Kind: "gasTransfer", From: u(g, 0), To: g.alphabets[0].BytesBE(), Amount: bn(1000), Data: null, Signers: []string{"U0"}},
				gasOp{Kind: "emit", To: g.alphabets[0].BytesBE(), Signers: []string{"C0"}})
			return ops
		}})
	// withdraw / cheque / candidate in both modes, several alphabet sizes
	lifecycle := func(g *gasEnv) []gasOp {
		N := g.neofs.BytesBE()
		al := []string{"alpha"}
		var al2 []string
		if g.cfg.NotaryOff {
			al = []string{"A0"}
			al2 = []string{fmt.Sprintf("A%d", len(g.alpha)-1)}
		}
		ops := []gasOp{
			{Kind: "gasTransfer", From: u(g, 0), To: N, Amount: bn(1000_0000_0000), Data: null, Signers: []string{"U0"}},
			{Kind: "withdraw", From: u(g, 0), Amount: bn(0), Signers: []string{"U0"}},
			{Kind: "withdraw", From: u(g, 0), Amount: bn(9000), Signers: []string{"U0"}},
			{Kind: "withdraw", From: u(g, 0), Amount: bn(9001), Signers: []string{"U0"}},
			{Kind: "withdraw", From: u(g, 0), Amount: bn(-1), Signers: []string{"U0"}},
			{Kind: "withdraw", From: u(g, 0), Amount: bn(5), Signers: []string{"U1"}},
			{Kind: "withdraw", From: u(g, 3), Amount: bn(5), Signers: []string{"U3"}}, // no GAS for the fee
			{Kind: "withdraw", From: g.users[0].PublicKey().Bytes(), Amount: bn(5), Signers: []string{"U0"}},
			{Kind: "candAdd", Key: g.users[1].PublicKey().Bytes(), Signers: []string{"U1"}},
			{Kind: "candAdd", Key: g.users[1].PublicKey().Bytes(), Signers: []string{"U1"}},
			{Kind: "candAdd", Key: g.users[3].PublicKey().Bytes(), Signers: []string{"U3"}}, // cannot pay
			{Kind: "candAdd", Key: g.users[2].PublicKey().Bytes(), Signers: []string{"U1"}},
			{Kind: "candAdd", Key: g.junkKey, Signers: []string{"U1"}},
			{Kind: "candAdd", Key: u(g, 2), Signers: []string{"U2"}}, // a script hash instead of a key
			{Kind: "cheque", ID: []byte{1}, To: u(g, 3), Amount: bn(100), Lock: []byte{7}, Signers: []string{"U0"}},
			{Kind: "cheque", ID: []byte{1}, To: u(g, 3), Amount: bn(100), Lock: []byte{7}, Signers: al},
		}
		// remaining votes in notary-disabled mode
		if g.cfg.NotaryOff {
			th := len(g.alpha)*2/3 + 1
			for i := 1; i < th; i++ {
				ops = append(ops, gasOp{Kind: "cheque", ID: []byte{1}, To: u(g, 3), Amount: bn(100), Lock: []byte{7}, Signers: []string{fmt.Sprintf("A%d", i)}})
			}
			ops = append(ops, gasOp{Kind: "cheque", ID: []byte{1}, To: u(g, 3), Amount: bn(100), Lock: []byte{7}, Signers: al2})
		}
		ops = append(ops,
			gasOp{Kind: "cheque", ID: []byte{2}, To: N, Amount: bn(50), Lock: []byte{8}, Signers: al},
			gasOp{Kind: "cheque", ID: []byte{3}, To: u(g, 3), Amount: bn(-1), Lock: []byte{8}, Signers: al},
			gasOp{Kind: "cheque", ID: []byte{4}, To: u(g, 3), Amount: bn(0), LockNil: true, Signers: al},
			gasOp{Kind: "cheque", ID: []byte{5}, To: u(g, 3), Amount: bn(2000_0000_0000), Lock: []byte{8}, Signers: al},
			gasOp{Kind: "cheque", ID: []byte{6}, To: g.token.BytesBE(), Amount: bn(1), Lock: []byte{8}, Signers: al},
			gasOp{Kind: "cheque", ID: []byte{7}, To: g.proxy.BytesBE(), Amount: bn(1), Lock: []byte{8}, Signers: al},
			gasOp{Kind: "candRemove", Key: g.users[1].PublicKey().Bytes(), Signers: []string{"U2"}},
			gasOp{Kind: "candRemove", Key: g.users[1].PublicKey().Bytes(), Signers: []string{"U1"}},
			gasOp{Kind: "setConfig", ID: []byte{9}, Key: []byte("WithdrawFee"), Val: le(1_0000_0000), Signers: al},
			gasOp{Kind: "withdraw", From: u(g, 0), Amount: bn(1), Signers: []string{"U0"}},
			gasOp{Kind: "bind", From: u(g, 0), Keys: [][]byte{g.users[0].PublicKey().Bytes()}, Signers: []string{"U0"}},
			gasOp{Kind: "unbind", From: u(g, 0), Keys: [][]byte{g.users[0].PublicKey().Bytes()[:32]}, Signers: []string{"U0"}},
		)
		return ops
	}
	out = append(out, gasCorpusEntry{"lifecycle-notary", gasEnvCfg{NC: 1, WFee: i64p(7), CFee: i64p(11), IR: 1, AlphaIdx: []int64{0}}, lifecycle})
	out = append(out, gasCorpusEntry{"lifecycle-notary-committee4", gasEnvCfg{NC: 4, NAlpha: 2, WFee: i64p(1_0000_0000), CFee: i64p(0), IR: 2, AlphaIdx: []int64{3}}, lifecycle})
	alphaSizes := []int{1, 4}
	if thorough {
		alphaSizes = []int{1, 2, 3, 4, 5, 6, 7}
	}
	for _, na := range alphaSizes {
		out = append(out, gasCorpusEntry{fmt.Sprintf("lifecycle-nonotary-%d", na), gasEnvCfg{NC: 1, NotaryOff: true, NAlpha: na, WFee: i64p(13), CFee: i64p(100), IR: 1, AlphaIdx: []int64{0}}, lifecycle})
	}
	// observation: without Notary the ballot of a cheque is keyed by id alone,
	// the invocation completing the votes decides payee and amount
	out = append(out, gasCorpusEntry{"cheque-id-shared", gasEnvCfg{NC: 1, NotaryOff: true, NAlpha: 4, WFee: i64p(1), CFee: i64p(1), IR: 1, AlphaIdx: []int64{0}},
		func(g *gasEnv) []gasOp {
			N := g.neofs.BytesBE()
			return []gasOp{
				{Kind: "gasTransfer", From: u(g, 0), To: N, Amount: bn(1000), Data: null, Signers: []string{"U0"}},
				{Kind: "cheque", ID: []byte{1}, To: u(g, 3), Amount: bn(10), Lock: []byte{7}, Signers: []string{"A0"}},
				{Kind: "cheque", ID: []byte{1}, To: u(g, 3), Amount: bn(10), Lock: []byte{7}, Signers: []string{"A1"}},
				{Kind: "cheque", ID: []byte{1}, To: g.plain[0], Amount: bn(999), Lock: []byte{8}, Signers: []string{"A2"}},
				{Kind: "cheque", ID: []byte{1}, To: u(g, 3), Amount: bn(10), Lock: []byte{7}, Signers: []string{"A3"}},
			}
		}})
	out = append(out, gasCorpusEntry{"fees-unset", gasEnvCfg{NC: 1, IR: 1, AlphaIdx: []int64{0}}, lifecycle})
	out = append(out, gasCorpusEntry{"fees-negative", gasEnvCfg{NC: 1, NotaryOff: true, NAlpha: 3, WFee: i64p(-1), CFee: i64p(-5), IR: 1, AlphaIdx: []int64{0}}, lifecycle})
	// emit: small g, inner ring sizes, permission
	emitHist := func(g *gasEnv) []gasOp {
		var ops []gasOp
		right := func(ai int) string {
			cm := g.committeeKeys()
			idx := g.cfg.AlphaIdx[ai]
			if idx >= 0 && idx < int64(len(cm)) {
				for i, k := range g.committee {
					if bytes.Equal(k.PublicKey().Bytes(), cm[idx]) {
						return fmt.Sprintf("C%d", i)
					}
				}
			}
			return "C0"
		}
		A := g.alphabets[0].BytesBE()
		ops = append(ops, gasOp{Kind: "emit", To: A, Signers: []string{right(0)}}) // g = 0
		for _, a := range []int64{1, 1, 1, 1, 2, 6, 7, 8, 9, 15, 16, 17, 1000, 12345} {
			// g = balance left + a
			ops = append(ops, gasOp{Kind: "gasTransfer", From: u(g, 0), To: A, Amount: bn(a), Data: null, Signers: []string{"U0"}},
				gasOp{Kind: "emit", To: A, Signers: []string{right(0)}})
		}
		ops = append(ops, gasOp{Kind: "emit", To: A, Signers: []string{"U0"}})
		for i := 0; i < g.cfg.NC; i++ {
			ops = append(ops, gasOp{Kind: "emit", To: A, Signers: []string{fmt.Sprintf("C%d", i)}})
		}
		ops = append(ops, gasOp{Kind: "neoTransfer", From: g.E.Validator.ScriptHash().BytesBE(), To: A, Amount: bn(50_000_000), Data: null, Signers: []string{"validator"}},
			gasOp{Kind: "emit", To: A, Signers: []string{right(0)}},
			gasOp{Kind: "emit", To: A, Signers: []string{right(0)}},
			gasOp{Kind: "gasTransfer", From: u(g, 0), To: A, Amount: bn(1_000_000_000_000), Data: null, Signers: []string{"U0"}},
			gasOp{Kind: "emit", To: A, Signers: []string{right(0)}})
		for ai := 1; ai < len(g.alphabets); ai++ {
			B := g.alphabets[ai].BytesBE()
			ops = append(ops, gasOp{Kind: "gasTransfer", From: u(g, 0), To: B, Amount: bn(1000), Data: null, Signers: []string{"U0"}})
			for i := 0; i < g.cfg.NC; i++ {
				ops = append(ops, gasOp{Kind: "emit", To: B, Signers: []string{fmt.Sprintf("C%d", i)}})
			}
		}
		return ops
	}
	irSizes := []int{0, 1, 3, 7}
	if thorough {
		irSizes = []int{0, 1, 2, 3, 4, 5, 6, 7}
	}
	for _, n := range irSizes {
		out = append(out, gasCorpusEntry{fmt.Sprintf("emit-ir%d", n), gasEnvCfg{NC: 1, WFee: i64p(7), CFee: i64p(11), IR: n, AlphaIdx: []int64{0}}, emitHist})
	}
	out = append(out, gasCorpusEntry{"emit-committee4", gasEnvCfg{NC: 4, WFee: i64p(7), CFee: i64p(11), IR: 2, AlphaIdx: []int64{2, 0, 4, -1}}, emitHist})
	out = append(out, gasCorpusEntry{"emit-proxy-plain", gasEnvCfg{NC: 1, WFee: i64p(7), CFee: i64p(11), IR: 2, AlphaIdx: []int64{0}, ProxyKind: 1}, emitHist})
	out = append(out, gasCorpusEntry{"emit-proxy-neofs", gasEnvCfg{NC: 1, WFee: i64p(7), CFee: i64p(11), IR: 2, AlphaIdx: []int64{0}, ProxyKind: 2}, emitHist})
	if thorough {
		out = append(out, gasCorpusEntry{"emit-committee7", gasEnvCfg{NC: 7, WFee: i64p(7), CFee: i64p(11), IR: 5, AlphaIdx: []int64{6, 3, 7}}, emitHist})
	}
	return out
}

// ---------------------------------------------------------------------------
// Monitor: the property on the observed trace, written from the property text
// (independent of the Coq model).

type gasMon struct {
	g        *gasEnv
	st       *Stats
	hist     []string
	prev     gasObs
	init     *big.Int // GAS of NeoFS at the start
	received *big.Int
	paid     *big.Int
	bad      bool
	re       *reState // deployments with the payee contract (notary disabled): reference tally of the cheque votes
}

// reState: the reference for histories with a re-entrant payee: per decision id
// the distinct Alphabet keys that voted and the height of the last new vote
// (a ballot older than 20 blocks is void), what the payee is armed with, how
// many payments it completed.  A cheque is paid when, and only when, a vote
// makes the tally reach 2n/3+1; the tally is erased BEFORE the payment, so a
// payee calling cheque again with the same id casts a first vote of a new
// ballot (and is paid again only if one vote is the whole threshold).
type reState struct {
	tally    map[string]*reTally
	armed    *reProg
	payments int64
}
type reTally struct {
	voters []string
	last   int64
}
type reProg struct {
	calls []gasCall
	fault bool
}

func (s *reState) clone() *reState {
	c := &reState{tally: map[string]*reTally{}, payments: s.payments}
	for k, t := range s.tally {
		c.tally[k] = &reTally{voters: append([]string{}, t.voters...), last: t.last}
	}
	if s.armed != nil {
		c.armed = &reProg{calls: s.armed.calls, fault: s.armed.fault}
	}
	return c
}

// reRun: what the transaction `top` (a cheque by the first stored Alphabet key
// that witnesses it) must do: halt?, notifications in order, balance deltas.
func (m *gasMon) reRun(o gasObs, top gasCall) (bool, []gasEv, map[string]*big.Int) {
	g := m.g
	N := g.neofs.BytesBE()
	H := g.payee.BytesBE()
	var inv []byte
	for _, k := range m.prev.alpha {
		if a := m.accOfKey(k); a != nil && m.inWit(o, a) {
			inv = k
			break
		}
	}
	if inv == nil {
		return false, nil, nil
	}
	snap := m.re.clone()
	delta := map[string]*big.Int{}
	var evs []gasEv
	bal := func(a []byte) *big.Int {
		b := new(big.Int).Set(m.balOf(a))
		if d := delta[string(a)]; d != nil {
			b.Add(b, d)
		}
		return b
	}
	move := func(f, t []byte, a *big.Int) {
		addTo(delta, f, new(big.Int).Neg(a))
		addTo(delta, t, a)
		evs = append(evs, gasEv{kind: 0, a: f, b: t, amount: a})
	}
	th := len(m.prev.alpha)*2/3 + 1
	var rec func(c gasCall) bool
	rec = func(c gasCall) bool {
		if c.Kind == "withdraw" {
			fee, feeOK := feeInt(m.prev.wfeeNil, m.prev.wfee)
			if len(c.To) != 20 || !m.inWit(o, c.To) || c.Amount < 0 || c.Amount > 9000 || !feeOK || fee.Sign() < 0 {
				return false
			}
			for _, k := range m.prev.alpha {
				r := m.accOfKey(k)
				if r == nil || bal(c.To).Cmp(fee) < 0 {
					return false
				}
				move(c.To, r, fee)
			}
			evs = append(evs, gasEv{kind: 2, a: c.To, amount: new(big.Int).Mul(bn(c.Amount), bn(1_0000_0000)), c: o.txhash})
			return true
		}
		t := m.re.tally[string(c.ID)]
		if t != nil && o.height-t.last > 20 {
			t = nil
		}
		if t == nil {
			t = &reTally{}
		}
		isNew := true
		for _, v := range t.voters {
			if v == string(inv) {
				isNew = false
			}
		}
		if isNew {
			t.voters = append(t.voters, string(inv))
			t.last = o.height
		}
		m.re.tally[string(c.ID)] = t
		if len(t.voters) < th {
			return true // a vote: nothing moves, nothing is announced
		}
		delete(m.re.tally, string(c.ID))
		am := bn(c.Amount)
		if len(c.To) != 20 || c.Amount < 0 || bal(N).Cmp(am) < 0 {
			return false
		}
		move(N, c.To, am)
		if bytes.Equal(c.To, H) {
			m.re.payments++
			if p := m.re.armed; p != nil {
				m.re.armed = nil
				for _, nc := range p.calls {
					if !rec(nc) {
						return false
					}
				}
				if p.fault {
					return false
				}
			}
		} else {
			acc, dep, rcv := m.accepts(c.To, "gas", N, am, gasData{})
			if !acc {
				return false
			}
			if dep {
				evs = append(evs, gasEv{kind: 1, a: N, amount: am, b: rcv, c: o.txhash})
			}
		}
		evs = append(evs, gasEv{kind: 3, a: c.ID, b: c.To, amount: am, c: c.Lock})
		return true
	}
	if !rec(top) {
		m.re = snap
		return false, nil, nil
	}
	return true, evs, delta
}

func (m *gasMon) violate(what string) {
	m.bad = true
	m.st.AddViolation(what, map[string]any{"cfg": m.g.cfg, "ops": m.hist})
}

func dataBytes(d gasData) (b []byte, isNull, ok bool) {
	switch d.Kind {
	case "bytes":
		return d.B, false, true
	case "int":
		return le(d.I), false, true
	case "bool":
		if d.T {
			return []byte{1}, false, true
		}
		return []byte{0}, false, true
	case "array":
		return nil, false, false
	}
	return nil, true, true
}

func isMarker(d gasData) bool {
	b, isNull, ok := dataBytes(d)
	return ok && !isNull && bytes.Equal(b, gasMarker)
}

// neofsAccepts: does NeoFS' onNEP17Payment accept (from, amount, data) from token `gas`?
// rcv is the receiver the Deposit must name (nil when none is expected).
func neofsAccepts(isGas bool, from []byte, amount *big.Int, d gasData) (accept, deposit bool, rcv []byte) {
	b, isNull, ok := dataBytes(d)
	if !ok {
		return false, false, nil
	}
	if !isNull && bytes.Equal(b, gasMarker) {
		return true, false, nil
	}
	if !isGas || amount.Sign() <= 0 || amount.Cmp(gasMax) > 0 {
		return false, false, nil
	}
	switch {
	case isNull || len(b) == 0:
		return true, true, from
	case len(b) == 20:
		return true, true, b
	}
	return false, false, nil
}

func (m *gasMon) kindOf(a []byte) string {
	g := m.g
	switch {
	case bytes.Equal(a, g.neofs.BytesBE()):
		return "neofs"
	case bytes.Equal(a, g.processing.BytesBE()):
		return "processing"
	case bytes.Equal(a, g.proxy.BytesBE()):
		return "proxy"
	case bytes.Equal(a, g.accept.BytesBE()), g.cfg.Payee && bytes.Equal(a, g.payee.BytesBE()):
		return "accept" // the payee contract, when it is not armed
	case bytes.Equal(a, g.token.BytesBE()):
		return "nomethod"
	}
	for _, x := range g.alphabets {
		if bytes.Equal(a, x.BytesBE()) {
			return "alphabet"
		}
	}
	return "none"
}

// accepts: would the contract at `to` accept a payment (token: "gas", "neo", "other")?
func (m *gasMon) accepts(to []byte, token string, from []byte, amount *big.Int, d gasData) (accept, deposit bool, rcv []byte) {
	switch m.kindOf(to) {
	case "neofs":
		return neofsAccepts(token == "gas", from, amount, d)
	case "processing", "proxy":
		return token == "gas", false, nil
	case "alphabet":
		return token == "gas" || token == "neo", false, nil
	case "accept", "none":
		return true, false, nil
	}
	return false, false, nil
}

func (m *gasMon) inWit(o gasObs, a []byte) bool {
	for _, w := range o.wit {
		if bytes.Equal(w, a) {
			return true
		}
	}
	return false
}

func (m *gasMon) accOfKey(k []byte) []byte {
	g := m.g
	for _, l := range [][]*wallet.Account{g.users, g.alphaPool, g.irPool, g.committee} {
		for _, a := range l {
			if bytes.Equal(a.PublicKey().Bytes(), k) {
				return a.ScriptHash().BytesBE()
			}
		}
	}
	return nil
}

func feeInt(isNil bool, b []byte) (*big.Int, bool) {
	if isNil || len(b) > 32 {
		return nil, false
	}
	bi, err := stackitem.NewByteArray(b).TryInteger()
	if err != nil {
		return nil, false
	}
	return bi, true
}

// checkDeltas compares the balance changes of all parties with exp (by address).
func (m *gasMon) checkDeltas(what string, o gasObs, exp map[string]*big.Int) {
	for i, p := range m.g.parties {
		d := new(big.Int).Sub(o.bal[i], m.prev.bal[i])
		w := exp[string(p)]
		if w == nil {
			w = new(big.Int)
		}
		if d.Cmp(w) != 0 {
			m.violate(fmt.Sprintf("%s: GAS of %s changed by %s, expected %s", what, m.g.partyNames[i], d, w))
		}
	}
}

func addTo(exp map[string]*big.Int, a []byte, v *big.Int) {
	if exp[string(a)] == nil {
		exp[string(a)] = new(big.Int)
	}
	exp[string(a)].Add(exp[string(a)], v)
}

func evIs(e gasEv, kind int, a, b []byte, amount *big.Int) bool {
	return e.kind == kind && bytes.Equal(e.a, a) && bytes.Equal(e.b, b) && (amount == nil || e.amount.Cmp(amount) == 0)
}

func (m *gasMon) step(op gasOp, o gasObs) {
	g := m.g
	m.hist = append(m.hist, op.String())
	N := g.neofs.BytesBE()
	what := fmt.Sprintf("op %d %s", len(m.hist)-1, op.Kind)
	exp := map[string]*big.Int{}
	neg := func(z *big.Int) *big.Int { return new(big.Int).Neg(z) }
	mustHalt := func(want bool, why string) {
		if want != o.halt {
			m.violate(fmt.Sprintf("%s: halted=%v but the property demands %v (%s); fault=%q", what, o.halt, want, why, o.fault))
		}
	}
	// expected event list (nil = do not check beyond the generic rules)
	var wantEvs []gasEv
	checkEvs := false
	gasEvent := func(f, t []byte, a *big.Int) gasEv { return gasEv{kind: 0, a: f, b: t, amount: a} }

	switch op.Kind {
	case "gasTransfer":
		pre := len(op.From) == 20 && len(op.To) == 20
		if !pre {
			mustHalt(false, "address is not 20 bytes")
			break
		}
		can := op.Amount.Sign() >= 0 && m.inWit(o, op.From) && m.balOf(op.From).Cmp(op.Amount) >= 0
		if !can {
			if !o.halt || o.ret != VBool(false) {
				m.violate(what + ": transfer without witness/funds must return false")
			}
			checkEvs = true
			break
		}
		acc, dep, rcv := m.accepts(op.To, "gas", op.From, op.Amount, op.Data)
		if bytes.Equal(op.To, N) {
			nd := 0
			for _, e := range o.evs {
				if e.kind == 1 {
					nd++
				}
			}
			switch {
			case o.halt && !acc:
				m.violate(fmt.Sprintf("%s: NeoFS accepted GAS it must refuse (not the exact marker, and not 0 < amount <= 9000 GAS with data of 0 or 20 bytes): %s", what, op.String()))
			case o.halt && dep && nd != 1:
				m.violate(fmt.Sprintf("%s: NeoFS received GAS without reporting it by exactly one Deposit (%d Deposit notifications): %s", what, nd, op.String()))
			case o.halt && !dep && nd != 0:
				m.violate(fmt.Sprintf("%s: Deposit reported for a payment carrying the exact marker: %s", what, op.String()))
			}
		}
		mustHalt(acc, "acceptance rule of the receiver")
		if o.halt {
			if o.ret != VBool(true) {
				m.violate(what + ": accepted transfer must return true")
			}
			addTo(exp, op.From, neg(op.Amount))
			addTo(exp, op.To, op.Amount)
			if m.re != nil && bytes.Equal(op.To, g.payee.BytesBE()) {
				m.re.payments++ // an ordinary transfer to the (unarmed) payee contract
			}
			checkEvs = true
			wantEvs = []gasEv{gasEvent(op.From, op.To, op.Amount)}
			if dep {
				wantEvs = append(wantEvs, gasEv{kind: 1, a: op.From, amount: op.Amount, b: rcv, c: o.txhash})
			}
		}
	case "tokenTransfer", "tokenPay", "directPay":
		acc, _, _ := m.accepts(op.To, "other", op.From, op.Amount, op.Data)
		if m.kindOf(op.To) == "none" {
			acc = false // nothing to call
		}
		if o.halt && !acc {
			m.violate(fmt.Sprintf("%s: accepted a payment from a caller that is not GAS (NEO): %s", what, op.String()))
		} else {
			mustHalt(acc, "only GAS (Alphabet: and NEO) may pay; NeoFS: or the marker")
		}
		checkEvs = true
	case "neoTransfer":
		acc, _, _ := m.accepts(op.To, "neo", op.From, op.Amount, op.Data)
		if o.halt && !acc {
			m.violate(fmt.Sprintf("%s: accepted a payment from a caller that is not GAS (NEO): %s", what, op.String()))
		} else {
			mustHalt(acc, "NEO is accepted by Alphabet contracts only (NeoFS: marker)")
		}
		if o.halt {
			addTo(exp, op.To, o.minted)
			checkEvs = true
			if o.minted.Sign() > 0 {
				wantEvs = []gasEv{gasEvent(nil, op.To, o.minted)}
				if bytes.Equal(op.To, N) {
					wantEvs = append(wantEvs, gasEv{kind: 1, a: nil, amount: o.minted, b: nil, c: o.txhash})
				}
			}
		}
	case "withdraw":
		fee, feeOK := feeInt(m.prev.wfeeNil, m.prev.wfee)
		var rcpts [][]byte
		keysOK := true
		if g.cfg.NotaryOff {
			for _, k := range m.prev.alpha {
				a := m.accOfKey(k)
				if a == nil {
					keysOK = false
				}
				rcpts = append(rcpts, a)
			}
		} else {
			rcpts = [][]byte{g.processing.BytesBE()}
		}
		total := new(big.Int)
		if feeOK {
			total.Mul(fee, bn(int64(len(rcpts))))
		}
		want := len(op.From) == 20 && m.inWit(o, op.From) && op.Amount.Sign() >= 0 && op.Amount.Cmp(bn(9000)) <= 0 &&
			feeOK && fee.Sign() >= 0 && keysOK && m.balOf(op.From).Cmp(total) >= 0
		if o.halt && !(len(op.From) == 20 && m.inWit(o, op.From)) {
			m.violate(fmt.Sprintf("%s: withdraw halted without the witness of the account it charges (%s), signers %v: %s", what, m.kindOf(op.From), op.Signers, op.String()))
		}
		mustHalt(want, "withdraw preconditions (witness, 0<=amount<=9000, fee configured and affordable)")
		if o.halt && want {
			checkEvs = true
			for _, r := range rcpts {
				addTo(exp, op.From, neg(fee))
				addTo(exp, r, fee)
				wantEvs = append(wantEvs, gasEvent(op.From, r, fee))
			}
			wantEvs = append(wantEvs, gasEv{kind: 2, a: op.From, amount: new(big.Int).Mul(op.Amount, bn(1_0000_0000)), c: o.txhash})
		}
	case "arm", "disarm":
		mustHalt(true, "arming the payee contract")
		checkEvs = true
		if o.halt && m.re != nil {
			m.re.armed = nil
			if op.Kind == "arm" {
				m.re.armed = &reProg{calls: op.Calls, fault: op.Fault}
			}
		}
	case "cheque":
		if m.re != nil {
			// deployment with a contract payee that may call back into NeoFS
			ok, evs, delta := m.reRun(o, gasCall{Kind: "cheque", ID: op.ID, To: op.To, Amount: op.Amount.Int64(), Lock: op.Lock})
			if o.halt && ok {
				nPaid, nAnnounced := 0, 0
				for _, e := range o.evs {
					if e.kind == 0 && bytes.Equal(e.a, N) {
						nPaid++
					}
					if e.kind == 3 {
						nAnnounced++
					}
				}
				want := 0
				for _, e := range evs {
					if e.kind == 3 {
						want++
					}
				}
				if nPaid != want || nAnnounced != want {
					m.violate(fmt.Sprintf("%s: %d payment(s) left NeoFS and %d Cheque(s) were announced, but the Alphabet's votes approve exactly %d payment(s) in this transaction (a cheque is paid once per approval): %s",
						what, nPaid, nAnnounced, want, op.String()))
				}
			}
			mustHalt(ok, "cheque by a stored Alphabet key; payable; the payee and what it calls back do not fault")
			if o.halt && ok {
				checkEvs = true
				wantEvs = evs
				for a, d := range delta {
					addTo(exp, []byte(a), d)
				}
			}
			if o.payments != m.re.payments {
				m.violate(fmt.Sprintf("%s: the payee contract completed %d payments, the approved cheques to it are %d", what, o.payments, m.re.payments))
			}
			break
		}
		lock := op.Lock
		payout := func() {
			addTo(exp, N, neg(op.Amount))
			addTo(exp, op.To, op.Amount)
			checkEvs = true
			wantEvs = []gasEv{gasEvent(N, op.To, op.Amount)}
			if _, dep, rcv := m.accepts(op.To, "gas", N, op.Amount, gasData{}); dep {
				wantEvs = append(wantEvs, gasEv{kind: 1, a: N, amount: op.Amount, b: rcv, c: o.txhash})
			}
			wantEvs = append(wantEvs, gasEv{kind: 3, a: op.ID, b: op.To, amount: op.Amount, c: lock})
		}
		acc, _, _ := m.accepts(op.To, "gas", N, op.Amount, gasData{})
		payable := len(op.To) == 20 && op.Amount.Sign() >= 0 && m.balOf(N).Cmp(op.Amount) >= 0 && acc
		if !g.cfg.NotaryOff {
			auth := m.inWit(o, g.alphaMulti.ScriptHash().BytesBE())
			if o.halt && !auth {
				m.violate(fmt.Sprintf("%s: cheque paid without the witness of the Alphabet (2n/3+1 of the %d committee keys), signers %v: %s", what, g.cfg.NC, op.Signers, op.String()))
			}
			mustHalt(auth && payable, "cheque needs the Alphabet multi-signature and a payable amount")
			if o.halt && auth && payable {
				payout()
			}
		} else {
			auth := false
			for _, k := range m.prev.alpha {
				if a := m.accOfKey(k); a != nil && m.inWit(o, a) {
					auth = true
				}
			}
			if !auth {
				mustHalt(false, "cheque needs an Alphabet key")
			}
			if o.halt {
				paid := false
				for _, e := range o.evs {
					if e.kind == 3 {
						paid = true
					}
				}
				if paid {
					if !payable {
						m.violate(what + ": paid a cheque that is not payable")
					}
					payout()
				} else {
					checkEvs = true // vote recorded: nothing moves, nothing is announced
				}
			}
		}
	case "candAdd":
		fee, feeOK := feeInt(m.prev.cfeeNil, m.prev.cfee)
		acct := m.accOfKey(op.Key)
		already := false
		for _, c := range m.prev.cands {
			if bytes.Equal(c, op.Key) {
				already = true
			}
		}
		want := acct != nil && m.inWit(o, acct) && !already && feeOK && fee.Sign() >= 0 && m.balOf(acct).Cmp(fee) >= 0
		mustHalt(want, "candidate registration preconditions")
		if o.halt && want {
			addTo(exp, acct, neg(fee))
			addTo(exp, N, fee)
			checkEvs = true
			wantEvs = []gasEv{gasEvent(acct, N, fee)}
			found := false
			for _, c := range o.cands {
				if bytes.Equal(c, op.Key) {
					found = true
				}
			}
			if !found {
				m.violate(what + ": candidate paid the fee but is not listed")
			}
		}
	case "emit":
		ai := -1
		for i, a := range g.alphabets {
			if bytes.Equal(a.BytesBE(), op.To) {
				ai = i
			}
		}
		idx := g.cfg.AlphaIdx[ai]
		cm := g.committeeKeys()
		perm := idx >= 0 && idx < int64(len(cm)) && m.inWit(o, m.accOfKey(cm[idx]))
		if o.halt && !perm {
			m.violate(what + ": emit halted without the witness of committee[index] of this contract")
		}
		irl := o.ir // the CURRENT Inner Ring: the one in force for this block
		gb := new(big.Int).Add(m.balOf(op.To), o.minted)
		half := new(big.Int).Quo(gb, bn(2))
		P := g.proxyAddr.BytesBE()
		pacc, pdep, prcv := m.accepts(P, "gas", op.To, half, gasData{})
		want := perm && half.Sign() > 0 && len(irl) > 0 && pacc
		mustHalt(want, "emit: permission, g >= 2, N >= 1, proxy accepts")
		if o.halt {
			// who was paid must be a node of the Inner Ring in force for THIS block
			for pi, a := range g.irPool {
				cur := false
				for _, k := range irl {
					if bytes.Equal(k, a.PublicKey().Bytes()) {
						cur = true
					}
				}
				acc := a.ScriptHash().BytesBE()
				var d *big.Int
				for i, p := range g.parties {
					if bytes.Equal(p, acc) {
						d = new(big.Int).Sub(o.bal[i], m.prev.bal[i])
					}
				}
				if d != nil && d.Sign() != 0 && !cur {
					m.violate(fmt.Sprintf("%s: emit paid %s to IR%d which is not in the Inner Ring in force for this block %s (a designation made in block h counts from block h+1): %s",
						what, d, pi, keyNames(irl), op.String()))
				}
			}
		}
		if o.halt && want {
			rest := new(big.Int).Sub(gb, half)
			per := new(big.Int).Mul(rest, bn(7))
			per.Quo(per, bn(8))
			per.Quo(per, bn(int64(len(irl))))
			checkEvs = true
			addTo(exp, op.To, o.minted)
			if o.minted.Sign() > 0 {
				wantEvs = append(wantEvs, gasEvent(nil, op.To, o.minted))
			}
			addTo(exp, op.To, neg(half))
			addTo(exp, P, half)
			wantEvs = append(wantEvs, gasEvent(op.To, P, half))
			if pdep {
				wantEvs = append(wantEvs, gasEv{kind: 1, a: op.To, amount: half, b: prcv, c: o.txhash})
			}
			if per.Sign() > 0 {
				for _, k := range irl {
					a := m.accOfKey(k)
					addTo(exp, op.To, neg(per))
					addTo(exp, a, per)
					wantEvs = append(wantEvs, gasEvent(op.To, a, per))
				}
			}
			// the contract keeps a non-negative rest
			keep := new(big.Int).Sub(rest, new(big.Int).Mul(per, bn(int64(len(irl)))))
			if keep.Sign() < 0 {
				m.violate(what + ": the Alphabet contract would keep a negative rest")
			}
			sum := new(big.Int)
			for _, v := range exp {
				sum.Add(sum, v)
			}
			if sum.Cmp(o.minted) != 0 {
				m.violate(what + ": emit created or lost GAS")
			}
		}
	case "verify":
		// verify reads the committee (proxy, alphabet) or the Alphabet list NeoFS stores NOW (processing)
		var want, wantFault bool
		switch m.kindOf(op.To) {
		case "processing":
			var pubs keys.PublicKeys
			for _, k := range m.prev.alpha {
				pk, err := keys.NewPublicKeyFromBytes(k, elliptic.P256())
				if err != nil {
					wantFault = true
					break
				}
				pubs = append(pubs, pk)
			}
			if !wantFault {
				sc, err := smartcontract.CreateMultiSigRedeemScript(len(pubs)*2/3+1, pubs)
				if err != nil {
					wantFault = true
				} else {
					want = m.inWit(o, hash.Hash160(sc).BytesBE())
				}
			}
		default:
			want = m.inWit(o, g.alphaMulti.ScriptHash().BytesBE()) || m.inWit(o, g.E.Committee.ScriptHash().BytesBE())
		}
		if wantFault {
			mustHalt(false, "verify with a stored key that is not a curve point")
		} else if !o.halt || o.ret != VBool(want) {
			m.violate(fmt.Sprintf("%s: verify answered %s, the CURRENT committee/Alphabet list demands %v: %s", what, o.ret, want, op.String()))
		}
	case "designate":
		mustHalt(true, "the committee designates the Inner Ring")
		if len(o.evs) != 0 {
			m.violate(what + ": a designation produced GAS/NeoFS notifications")
		}
	case "setConfig", "alphabetUpdate":
		// Alphabet-gated: with Notary the 2n/3+1 account of the committee (NOT
		// the n/2+1 majority, a smaller multi-signature or a single member),
		// without Notary a key of the stored Alphabet list
		auth := m.inWit(o, g.alphaMulti.ScriptHash().BytesBE())
		if g.cfg.NotaryOff {
			auth = false
			for _, k := range m.prev.alpha {
				if a := m.accOfKey(k); a != nil && m.inWit(o, a) {
					auth = true
				}
			}
		}
		if o.halt && !auth {
			m.violate(fmt.Sprintf("%s: Alphabet-gated method halted without the Alphabet's witness (signers %v): %s", what, op.Signers, op.String()))
		}
		for _, e := range o.evs {
			if e.kind <= 3 {
				m.violate(what + ": unexpected GAS/Deposit/Withdraw/Cheque notification")
			}
		}
	default: // candRemove bind unbind: never move GAS
		for _, e := range o.evs {
			if e.kind == 0 || e.kind == 1 || e.kind == 2 || e.kind == 3 {
				m.violate(what + ": unexpected GAS/Deposit/Withdraw/Cheque notification")
			}
		}
	}
	if !o.halt && len(o.evs) != 0 {
		m.violate(what + ": faulted invocation left notifications")
	}
	m.checkDeltas(what, o, exp)
	if checkEvs {
		if len(wantEvs) != len(o.evs) {
			m.violate(fmt.Sprintf("%s: %d notifications, expected %d", what, len(o.evs), len(wantEvs)))
		} else {
			for i := range wantEvs {
				we, oe := wantEvs[i], o.evs[i]
				if we.kind != oe.kind || !bytes.Equal(we.a, oe.a) || !bytes.Equal(we.b, oe.b) || !bytes.Equal(we.c, oe.c) ||
					(we.amount != nil && we.amount.Cmp(oe.amount) != 0) {
					m.violate(fmt.Sprintf("%s: notification %d differs from what the property demands", what, i))
				}
			}
		}
	}
	// balance identity and honest Deposit reports
	out := new(big.Int)
	chq := new(big.Int)
	for i, e := range o.evs {
		switch e.kind {
		case 0:
			if bytes.Equal(e.b, N) {
				m.received.Add(m.received, e.amount)
			}
			if bytes.Equal(e.a, N) {
				out.Add(out, e.amount)
			}
		case 1:
			if i == 0 || !evIs(o.evs[i-1], 0, e.a, N, e.amount) {
				m.violate(what + ": Deposit notification without the matching GAS Transfer to NeoFS just before it")
			}
			if e.amount.Sign() <= 0 || e.amount.Cmp(gasMax) > 0 {
				m.violate(what + ": Deposit outside (0, 9000 GAS]")
			}
		case 3:
			chq.Add(chq, e.amount)
			m.paid.Add(m.paid, e.amount)
		}
	}
	if out.Cmp(chq) != 0 {
		m.violate(what + ": GAS left NeoFS other than by a cheque of that amount")
	}
	ni := 0
	idn := new(big.Int).Add(m.init, m.received)
	idn.Sub(idn, m.paid)
	if o.bal[ni].Cmp(idn) != 0 {
		m.violate(fmt.Sprintf("%s: gas(NeoFS)=%s but received-paid=%s", what, o.bal[ni], idn))
	}
	m.prev = o
}

func (m *gasMon) balOf(a []byte) *big.Int {
	for i, p := range m.g.parties {
		if bytes.Equal(p, a) {
			return m.prev.bal[i]
		}
	}
	return new(big.Int)
}

// ---------------------------------------------------------------------------

func TestC19(t *testing.T) {
	st := NewStats("C19")
	st.Rule = "histories = hand-written boundary corpus (deposit amounts 0,1,9000 GAS +-1, all data shapes, both notary modes, alphabet sizes, " +
		"unset/negative fees, emit with g = 0..17 and inner ring sizes) + seeded structured generation over random deployments " +
		"(committee size, notary mode, alphabet list size, fees, inner ring size 0..7, alphabet indices, proxy kind); " +
		"non-trivial = the history contains at least one accepted GAS movement and at least one refusal/fault; " +
		"distinct = by deployment configuration + canonical op/outcome/amount/data string"
	thorough := Tier() == "thorough"
	nh, minOps, maxOps := 30, 8, 18
	if thorough {
		nh, minOps, maxOps = 400, 10, 30
	}
	distinct := map[string]bool{}
	var files []*CasesFile
	newFile := func() *CasesFile {
		cf := &CasesFile{Pool: NewPool("b")}
		cf.Header = "From Verif Require Import Base.Prelude Base.IntCodec Model.Gas Model.NeoFSGas Model.GasWorld.\nLocal Open Scope Z_scope.\n"
		cf.Footer = "Definition check_case (c : env * list bytes * world * list ((ctx * op) * val)) :=\n" +
			"  let '(e, pool, w, tr) := c in run_case (wstep_obs e pool) w 0 tr.\n" +
			"Definition M := Eval vm_compute in failures_from 0 (map check_case cases).\nPrint M.\n"
		files = append(files, cf)
		return cf
	}
	cf := newFile()
	size := 0
	cov := map[string]map[string]int{"committee_size": {}, "inner_ring_size": {}, "alphabet_list_size": {}, "notary_disabled": {},
		"withdraw_fee": {}, "emit_halted_by_inner_ring_size": {}, "emit_halted_g_below_20": {},
		"payee_contract_histories": {}, "payee_programs_run": {}}
	st.Extra["coverage"] = cov
	feeStr := func(p *int64) string {
		if p == nil {
			return "unset"
		}
		return fmt.Sprint(*p)
	}
	run := func(name string, cfg gasEnvCfg, next func(g *gasEnv, gg *gasGen, step int) (gasOp, bool), seed int64) {
		g := newGasEnv(t, cfg)
		cov["committee_size"][fmt.Sprint(cfg.NC)]++
		cov["inner_ring_size"][fmt.Sprint(cfg.IR)]++
		cov["alphabet_list_size"][fmt.Sprint(len(g.alpha))]++
		cov["notary_disabled"][fmt.Sprint(cfg.NotaryOff)]++
		cov["withdraw_fee"][feeStr(cfg.WFee)]++
		if thorough && size > 380_000 {
			cf = newFile()
			size = 0
		}
		pool := cf.Pool
		gg := &gasGen{r: Rng(seed), g: g}
		var o0 gasObs
		g.observeState(&o0)
		gg.prev = o0
		mon := &gasMon{g: g, st: st, prev: o0, init: new(big.Int).Set(o0.bal[0]), received: new(big.Int), paid: new(big.Int)}
		// the Coq model's callbacks cannot call back into the payer: histories with
		// the re-entrant payee contract are judged by the Go monitor alone
		noCoq := cfg.Payee
		if cfg.Payee {
			mon.re = &reState{tally: map[string]*reTally{}}
			cov["payee_contract_histories"]["monitor-only"]++
		}
		cm := g.committeeKeys()
		irNames := map[string]string{}
		var irDefs []string
		irName := func(l [][]byte) string {
			k := refList(pool, l)
			if n, ok := irNames[k]; ok {
				return n
			}
			n := fmt.Sprintf("ir%d", len(irNames))
			irNames[k] = n
			irDefs = append(irDefs, fmt.Sprintf("let %s := %s in", n, k))
			return n
		}
		var steps []string
		var sig strings.Builder
		fmt.Fprintf(&sig, "%+v|", cfg)
		accepted, refused := false, false
		var sample []string
		for i := 0; ; i++ {
			op, ok := next(g, gg, i)
			if !ok {
				break
			}
			o := g.exec(op)
			mon.step(op, o)
			if op.Kind != "designate" && !noCoq {
				// a designation is an action of the environment: the model sees it
				// as the Inner Ring of the contexts of the following blocks
				steps = append(steps, fmt.Sprintf("(%s, %s)", g.coqOp(pool, op, o, irName(o.ir)), g.coqObs(pool, gg.prev, o)))
			}
			st.Evaluations++
			st.OpHistogram[op.Kind]++
			oc := "fault"
			moved := false
			for j := range o.bal {
				if o.bal[j].Cmp(gg.prev.bal[j]) != 0 {
					moved = true
				}
			}
			switch {
			case o.halt && o.ret == VBool(false):
				oc = "false"
				refused = true
			case o.halt && moved:
				oc = "moved"
				accepted = true
			case o.halt:
				oc = "halt"
			default:
				refused = true
			}
			st.OutcomeHistogram[op.Kind+"/"+oc]++
			if op.Kind == "emit" && o.halt {
				cov["emit_halted_by_inner_ring_size"][fmt.Sprint(len(o.ir))]++
				if gb := new(big.Int).Add(gg.balOf(op.To), o.minted); gb.Cmp(bn(20)) < 0 {
					cov["emit_halted_g_below_20"][gb.String()]++
				}
			}
			fmt.Fprintf(&sig, "%s:%s:%v:%s;", op.Kind, oc, op.Amount, op.Data.Kind)
			if len(sample) < 8 {
				sample = append(sample, op.String()+" -> "+oc)
			}
			gg.prev = o
		}
		st.Histories++
		if accepted && refused {
			distinct[sig.String()] = true
		}
		if len(st.Samples) < 3 && (name == "deposit-boundaries" || name == "lifecycle-nonotary-4" || name == "random-0") {
			st.Samples = append(st.Samples, map[string]any{"history": name, "cfg": cfg, "first_ops": sample})
		}
		if noCoq {
			return
		}
		cx := fmt.Sprintf("fun w fa ir h tx => mkCtx w %s %s fa %s ir h tx", pool.Ref(g.alphaMulti.ScriptHash().BytesBE()),
			pool.Ref(g.E.Committee.ScriptHash().BytesBE()), refList(pool, cm))
		c := fmt.Sprintf("(let cx := %s in %s\n (%s, %s, %s,\n %s))", cx, strings.Join(irDefs, " "), g.coqEnv(pool), refList(pool, g.parties), g.coqInit(pool, o0), ListLit(steps))
		size += len(c)
		cf.Cases = append(cf.Cases, c)
	}
	for ci, ce := range gasCorpus(thorough) {
		ce := ce
		var ops []gasOp
		run(ce.name, ce.cfg, func(g *gasEnv, gg *gasGen, step int) (gasOp, bool) {
			if step == 0 {
				ops = ce.ops(g)
			}
			if step >= len(ops) {
				return gasOp{}, false
			}
			return ops[step], true
		}, int64(-1-ci))
	}
	for h := 0; h < nh; h++ {
		r := Rng(int64(1000 + h))
		cfg := gasRandomCfg(r, thorough)
		n := minOps + r.Intn(maxOps-minOps+1)
		run(fmt.Sprintf("random-%d", h), cfg, func(g *gasEnv, gg *gasGen, step int) (gasOp, bool) {
			if step >= n {
				return gasOp{}, false
			}
			return gg.next(step), true
		}, int64(h))
	}
	nre := 6
	if thorough {
		nre = 60
	}
	for h := 0; h < nre; h++ {
		r := Rng(int64(5000 + h))
		cfg := gasEnvCfg{NC: 1, NotaryOff: true, NAlpha: 1 + r.Intn(4), WFee: i64p(int64(r.Intn(4))), CFee: i64p(1), IR: 1, AlphaIdx: []int64{0}, Payee: true}
		n := 14 + r.Intn(16)
		run(fmt.Sprintf("payee-random-%d", h), cfg, func(g *gasEnv, gg *gasGen, step int) (gasOp, bool) {
			if step >= n {
				return gasOp{}, false
			}
			return gg.nextRe(step), true
		}, int64(5000+h))
	}
	st.DistinctNontrivial = len(distinct)
	for i, f := range files {
		name := "cases_C19.v"
		if len(files) > 1 {
			name = fmt.Sprintf("cases_C19_%d.v", i)
		}
		require.NoError(t, f.Write(filepath.Join(OutDir(), name)))
	}
	st.Write()
}
