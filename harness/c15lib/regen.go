// Package c15lib is the translator of property C15: it reads /repo's working
// tree (committed artifacts, Go sources, config files), regenerates the
// artifacts through the very library calls the neo-go CLI makes for `make`,
// and prints everything as Coq literals (coq/Gen/*.v).  The same functions
// are used by the Go monitor of harness/artifacts_test.go.
package c15lib

import (
	"bytes"
	"encoding/json"
	"fmt"
	"os"
	"path/filepath"
	"sort"

	"github.com/nspcc-dev/neo-go/cli/smartcontract"
	"github.com/nspcc-dev/neo-go/pkg/compiler"
	"github.com/nspcc-dev/neo-go/pkg/config"
	"github.com/nspcc-dev/neo-go/pkg/smartcontract/binding"
	"github.com/nspcc-dev/neo-go/pkg/smartcontract/manifest"
	"github.com/nspcc-dev/neo-go/pkg/smartcontract/rpcbinding"
	"gopkg.in/yaml.v3"
)

// CompilerVersion is the stamp the Makefile gives the compiler
// (NEOGOORIGMOD = github.com/nspcc-dev/neo-go@v0.107.0, NEOGOVER).
const CompilerVersion = "0.107.0"

// Files are the three shipped artifacts of one contract.
type Files struct {
	Nef      []byte
	Manifest []byte
	Binding  []byte
}

// Kinds of artifact, in the order used everywhere.
var Kinds = []string{"nef", "manifest", "binding"}

// Get returns the bytes of one kind.
func (f *Files) Get(kind string) []byte {
	switch kind {
	case "nef":
		return f.Nef
	case "manifest":
		return f.Manifest
	}
	return f.Binding
}

// RelPath is the path of an artifact relative to the repository root.
func RelPath(name, kind string) string {
	switch kind {
	case "nef":
		return "contracts/" + name + "/contract.nef"
	case "manifest":
		return "contracts/" + name + "/manifest.json"
	}
	return "rpc/" + name + "/rpcbinding.go"
}

// ContractDirs lists the contract directories of the tree: every directory
// under contracts/ that has a config.yml, sorted.
func ContractDirs(repo string) ([]string, error) {
	ms, err := filepath.Glob(filepath.Join(repo, "contracts", "*", "config.yml"))
	if err != nil {
		return nil, err
	}
	var out []string
	for _, m := range ms {
		out = append(out, filepath.Base(filepath.Dir(m)))
	}
	sort.Strings(out)
	return out, nil
}

// ReadCommitted reads the artifacts as they are in the working tree. A
// missing file is an empty byte string (and hence a difference).
func ReadCommitted(repo, name string) Files {
	rd := func(kind string) []byte {
		b, err := os.ReadFile(filepath.Join(repo, RelPath(name, kind)))
		if err != nil {
			return nil
		}
		return b
	}
	return Files{Nef: rd("nef"), Manifest: rd("manifest"), Binding: rd("binding")}
}

// Regenerate compiles contracts/<name> of the working tree and generates its
// RPC binding, exactly as the Makefile rules do
// (`cli contract compile -i D -c D/config.yml -m D/manifest.json -o D/contract.nef --bindings D/bindings_config.yml`,
// `cli contract generate-rpcwrapper -o rpc/N/rpcbinding.go -m D/manifest.json --config D/bindings_config.yml`),
// writing into tmp instead of the tree.
func Regenerate(repo, name, tmp string) (Files, error) {
	var res Files
	config.Version = CompilerVersion
	src := filepath.Join(repo, "contracts", name)
	dst := filepath.Join(tmp, name)
	if err := os.MkdirAll(dst, 0o755); err != nil {
		return res, err
	}
	conf, err := smartcontract.ParseContractConfig(filepath.Join(src, "config.yml"))
	if err != nil {
		return res, err
	}
	nefPath := filepath.Join(dst, "contract.nef")
	manifestPath := filepath.Join(dst, "manifest.json")
	bindCfgPath := filepath.Join(dst, "bindings_config.yml")
	o := &compiler.Options{Outfile: nefPath, ManifestFile: manifestPath, BindingsFile: bindCfgPath}
	o.Name = conf.Name
	o.SourceURL = conf.SourceURL
	o.ContractEvents = conf.Events
	o.DeclaredNamedTypes = conf.NamedTypes
	o.ContractSupportedStandards = conf.SupportedStandards
	o.Permissions = make([]manifest.Permission, len(conf.Permissions))
	for i := range conf.Permissions {
		o.Permissions[i] = manifest.Permission(conf.Permissions[i])
	}
	o.SafeMethods = conf.SafeMethods
	o.Overloads = conf.Overloads
	if _, err := compiler.CompileAndSave(src, o); err != nil {
		return res, fmt.Errorf("compile: %w", err)
	}
	if res.Nef, err = os.ReadFile(nefPath); err != nil {
		return res, err
	}
	if res.Manifest, err = os.ReadFile(manifestPath); err != nil {
		return res, err
	}
	// generate-rpcwrapper
	m := new(manifest.Manifest)
	if err := json.Unmarshal(res.Manifest, m); err != nil {
		return res, err
	}
	cfg := binding.NewConfig()
	bs, err := os.ReadFile(bindCfgPath)
	if err != nil {
		return res, err
	}
	dec := yaml.NewDecoder(bytes.NewReader(bs))
	dec.KnownFields(true)
	if err := dec.Decode(&cfg); err != nil {
		return res, err
	}
	cfg.Manifest = m
	var buf bytes.Buffer
	cfg.Output = &buf
	if err := rpcbinding.Generate(cfg); err != nil {
		return res, fmt.Errorf("generate-rpcwrapper: %w", err)
	}
	res.Binding = buf.Bytes()
	return res, nil
}

// SafeMethodsOf returns the safemethods list of contracts/<name>/config.yml.
func SafeMethodsOf(repo, name string) ([]string, error) {
	conf, err := smartcontract.ParseContractConfig(filepath.Join(repo, "contracts", name, "config.yml"))
	if err != nil {
		return nil, err
	}
	return conf.SafeMethods, nil
}

// FirstDiff returns the first offset at which a and b differ (-1 if equal);
// a length difference shows up at min(len).
func FirstDiff(a, b []byte) int {
	n := len(a)
	if len(b) < n {
		n = len(b)
	}
	for i := 0; i < n; i++ {
		if a[i] != b[i] {
			return i
		}
	}
	if len(a) != len(b) {
		return n
	}
	return -1
}
