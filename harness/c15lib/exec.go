package c15lib

import (
	"fmt"
	"math/big"
	"testing"

	"github.com/nspcc-dev/neo-go/pkg/core"
	"github.com/nspcc-dev/neo-go/pkg/neotest/chain"
	"github.com/nspcc-dev/neo-go/pkg/smartcontract/callflag"
	"github.com/nspcc-dev/neo-go/pkg/smartcontract/manifest"
	"github.com/nspcc-dev/neo-go/pkg/smartcontract/trigger"
	"github.com/nspcc-dev/neo-go/pkg/util"
	"go.uber.org/zap"
)

// tb lets a plain program use the neotest chain constructor: failures panic.
type tb struct {
	testing.TB
	cleanups []func()
}

type tbFailure struct{ msg string }

func (t *tb) Helper()                           {}
func (t *tb) Name() string                      { return "c15lib" }
func (t *tb) Logf(string, ...any)               {}
func (t *tb) Log(...any)                        {}
func (t *tb) Errorf(format string, args ...any) { panic(tbFailure{fmt.Sprintf(format, args...)}) }
func (t *tb) Error(args ...any)                 { panic(tbFailure{fmt.Sprint(args...)}) }
func (t *tb) Fatalf(format string, args ...any) { panic(tbFailure{fmt.Sprintf(format, args...)}) }
func (t *tb) Fatal(args ...any)                 { panic(tbFailure{fmt.Sprint(args...)}) }
func (t *tb) FailNow()                          { panic(tbFailure{"FailNow"}) }
func (t *tb) Fail()                             { panic(tbFailure{"Fail"}) }
func (t *tb) Failed() bool                      { return false }
func (t *tb) Cleanup(f func())                  { t.cleanups = append(t.cleanups, f) }

// Runner executes contract methods of not-yet-deployed executables on an
// in-process neo-go chain (all native contracts and interops available).
type Runner struct {
	t  *tb
	bc *core.Blockchain
}

// NewRunner starts a single-node neotest chain.
func NewRunner() (r *Runner, err error) {
	defer func() {
		if x := recover(); x != nil {
			err = fmt.Errorf("chain: %v", x)
		}
	}()
	t := &tb{}
	bc, _ := chain.NewSingleWithOptions(t, &chain.Options{Logger: zap.NewNop()})
	return &Runner{t: t, bc: bc}, nil
}

// Close stops the chain.
func (r *Runner) Close() {
	for i := len(r.t.cleanups) - 1; i >= 0; i-- {
		r.t.cleanups[i]()
	}
}

// RunVersion loads the executable as the VM loads a deployed contract for a
// call (script, tokens, `_initialize` first when the manifest has one) and
// runs its `version` method to completion; it returns the integer left on
// the stack.
func (r *Runner) RunVersion(nf NefFacts, abi Abi) (res *big.Int, err error) {
	defer func() {
		if x := recover(); x != nil {
			err = fmt.Errorf("version(): %v", x)
		}
	}()
	if !nf.OK {
		return nil, fmt.Errorf("NEF does not decode: %s", nf.Err)
	}
	if !abi.OK {
		return nil, fmt.Errorf("manifest does not parse: %s", abi.Err)
	}
	md := abi.Manifest.ABI.GetMethod("version", 0)
	if md == nil {
		return nil, fmt.Errorf("no version/0 method in the manifest")
	}
	initOff := -1
	if im := abi.Manifest.ABI.GetMethod(manifest.MethodInit, 0); im != nil {
		initOff = im.Offset
	}
	ic, err := r.bc.GetTestVM(trigger.Application, nil, nil)
	if err != nil {
		return nil, err
	}
	defer ic.Finalize()
	h := util.Uint160{0xc1, 0x5}
	ic.VM.LoadNEFMethod(nf.File, abi.Manifest, util.Uint160{}, h, callflag.ReadOnly, true, md.Offset, initOff, nil)
	if err := ic.VM.Run(); err != nil {
		return nil, err
	}
	if ic.VM.Estack().Len() != 1 {
		return nil, fmt.Errorf("version() left %d items on the stack", ic.VM.Estack().Len())
	}
	return ic.VM.Estack().Pop().Item().TryInteger()
}
