package c15lib

import (
	"encoding/json"
	"fmt"
	"go/ast"
	"go/parser"
	"go/token"
	"sort"
	"strconv"
	"strings"

	"github.com/nspcc-dev/neo-go/pkg/smartcontract/manifest"
	"github.com/nspcc-dev/neo-go/pkg/smartcontract/nef"
)

// Token is one entry of a NEF method-token table.
type Token struct {
	Hash      string // little-endian hex, as printed by neo-go
	Method    string
	ParamCnt  int
	HasReturn bool
	CallFlag  int
}

// NefFacts are the decoded fields of a NEF file.
type NefFacts struct {
	OK        bool // the file decodes (magic, sizes, checksum)
	Err       string
	Compiler  string
	Source    string
	Tokens    []Token
	ScriptLen int
	Checksum  uint32
	File      *nef.File
}

// DecodeNef decodes b with neo-go's own reader (which verifies the checksum).
func DecodeNef(b []byte) NefFacts {
	f, err := nef.FileFromBytes(b)
	if err != nil {
		return NefFacts{Err: err.Error()}
	}
	r := NefFacts{OK: true, Compiler: f.Compiler, Source: f.Source, ScriptLen: len(f.Script), Checksum: f.Checksum, File: &f}
	for _, t := range f.Tokens {
		r.Tokens = append(r.Tokens, Token{Hash: t.Hash.StringLE(), Method: t.Method, ParamCnt: int(t.ParamCount),
			HasReturn: t.HasReturn, CallFlag: int(t.CallFlag)})
	}
	return r
}

// Param is a named, typed parameter.
type Param struct{ Name, Type string }

// Method is one ABI method.
type Method struct {
	Name   string
	Params []Param
	Ret    string
	Safe   bool
	Offset int
}

// Event is one ABI event.
type Event struct {
	Name   string
	Params []Param
}

// Perm is one manifest permission: contract descriptor and method list
// ("*" for the wildcard).
type Perm struct {
	Contract string
	Methods  []string
}

// Abi is what a manifest declares.
type Abi struct {
	OK          bool
	Err         string
	Name        string
	Groups      int
	Standards   []string
	Methods     []Method
	Events      []Event
	Permissions []Perm
	Trusts      []string
	Manifest    *manifest.Manifest
}

// DecodeManifest parses manifest.json with neo-go's manifest package.
func DecodeManifest(b []byte) Abi {
	m := new(manifest.Manifest)
	if err := json.Unmarshal(b, m); err != nil {
		return Abi{Err: err.Error()}
	}
	a := Abi{OK: true, Name: m.Name, Groups: len(m.Groups), Standards: append([]string{}, m.SupportedStandards...), Manifest: m}
	for _, md := range m.ABI.Methods {
		x := Method{Name: md.Name, Ret: md.ReturnType.String(), Safe: md.Safe, Offset: md.Offset}
		for _, p := range md.Parameters {
			x.Params = append(x.Params, Param{p.Name, p.Type.String()})
		}
		a.Methods = append(a.Methods, x)
	}
	for _, ev := range m.ABI.Events {
		x := Event{Name: ev.Name}
		for _, p := range ev.Parameters {
			x.Params = append(x.Params, Param{p.Name, p.Type.String()})
		}
		a.Events = append(a.Events, x)
	}
	for _, p := range m.Permissions {
		var x Perm
		switch p.Contract.Type {
		case manifest.PermissionWildcard:
			x.Contract = "*"
		case manifest.PermissionHash:
			x.Contract = "hash:" + p.Contract.Hash().StringLE()
		case manifest.PermissionGroup:
			x.Contract = "group:" + p.Contract.Group().StringCompressed()
		}
		if p.Methods.IsWildcard() {
			x.Methods = []string{"*"}
		} else {
			x.Methods = append([]string{}, p.Methods.Value...)
		}
		a.Permissions = append(a.Permissions, x)
	}
	if m.Trusts.IsWildcard() {
		a.Trusts = []string{"*"}
	} else {
		for _, t := range m.Trusts.Value {
			switch t.Type {
			case manifest.PermissionHash:
				a.Trusts = append(a.Trusts, "hash:"+t.Hash().StringLE())
			case manifest.PermissionGroup:
				a.Trusts = append(a.Trusts, "group:"+t.Group().StringCompressed())
			default:
				a.Trusts = append(a.Trusts, "*")
			}
		}
	}
	return a
}

// MethodKey identifies a method for the difference report.
func (m Method) Key() string {
	ps := make([]string, len(m.Params))
	for i, p := range m.Params {
		ps[i] = p.Name + ":" + p.Type
	}
	return fmt.Sprintf("%s(%s)%s safe=%v offset=%d", m.Name, strings.Join(ps, ","), m.Ret, m.Safe, m.Offset)
}

// AbiDiff names the first ABI entry on which two manifests disagree ("" if
// they agree on everything decoded).
func AbiDiff(committed, fresh Abi) string {
	if !committed.OK {
		return "committed manifest does not parse: " + committed.Err
	}
	if !fresh.OK {
		return "fresh manifest does not parse: " + fresh.Err
	}
	if committed.Name != fresh.Name {
		return fmt.Sprintf("name: committed %q, compiled %q", committed.Name, fresh.Name)
	}
	fm := map[string]Method{}
	for _, m := range fresh.Methods {
		fm[m.Name+"/"+strconv.Itoa(len(m.Params))] = m
	}
	seen := map[string]bool{}
	for _, m := range committed.Methods {
		k := m.Name + "/" + strconv.Itoa(len(m.Params))
		seen[k] = true
		f, ok := fm[k]
		if !ok {
			return "method " + k + ": in the committed manifest, not compiled from the source"
		}
		if f.Key() != m.Key() {
			return "method " + k + ": committed " + m.Key() + ", compiled " + f.Key()
		}
	}
	for _, m := range fresh.Methods {
		k := m.Name + "/" + strconv.Itoa(len(m.Params))
		if !seen[k] {
			return "method " + k + ": compiled from the source, missing in the committed manifest"
		}
	}
	if len(committed.Methods) == len(fresh.Methods) {
		for i := range committed.Methods {
			if committed.Methods[i].Name != fresh.Methods[i].Name {
				return "method order differs at index " + strconv.Itoa(i) + ": " + committed.Methods[i].Name + " vs " + fresh.Methods[i].Name
			}
		}
	}
	ev := func(e Event) string {
		ps := make([]string, len(e.Params))
		for i, p := range e.Params {
			ps[i] = p.Name + ":" + p.Type
		}
		return e.Name + "(" + strings.Join(ps, ",") + ")"
	}
	for i := 0; i < len(committed.Events) || i < len(fresh.Events); i++ {
		switch {
		case i >= len(committed.Events):
			return "event " + ev(fresh.Events[i]) + ": compiled, missing in the committed manifest"
		case i >= len(fresh.Events):
			return "event " + ev(committed.Events[i]) + ": committed, not compiled from the source"
		case ev(committed.Events[i]) != ev(fresh.Events[i]):
			return "event: committed " + ev(committed.Events[i]) + ", compiled " + ev(fresh.Events[i])
		}
	}
	j := func(v any) string { b, _ := json.Marshal(v); return string(b) }
	if j(committed.Standards) != j(fresh.Standards) {
		return "supportedstandards: committed " + j(committed.Standards) + ", compiled " + j(fresh.Standards)
	}
	if j(committed.Permissions) != j(fresh.Permissions) {
		return "permissions: committed " + j(committed.Permissions) + ", compiled " + j(fresh.Permissions)
	}
	if j(committed.Trusts) != j(fresh.Trusts) || committed.Groups != fresh.Groups {
		return "trusts/groups differ"
	}
	return ""
}

// Call is one contract invocation found in rpcbinding.go.
type Call struct {
	Func   string // Go function it occurs in
	Recv   string // receiver type (ContractReader / Contract)
	Via    string // Call, CallAndExpandIterator, SendCall, MakeCall, MakeUnsignedCall, CreateCallWithAssertScript
	Method string // contract method named by the string literal
	NArgs  int    // number of contract arguments passed
	Unwrap string // unwrap.<X> applied to the result ("" for transactions)
}

// callForms: selector name -> number of leading non-contract arguments after
// the contract hash and the method name.
var callForms = map[string]int{
	"Call":                       0, // invoker.Call(hash, method, params...)
	"CallAndExpandIterator":      1, // invoker.CallAndExpandIterator(hash, method, maxItems, params...)
	"SendCall":                   0, // actor.SendCall(hash, method, params...)
	"MakeCall":                   0,
	"MakeUnsignedCall":           1, // actor.MakeUnsignedCall(hash, method, attrs, params...)
	"CreateCallWithAssertScript": 0, // smartcontract.CreateCallWithAssertScript(hash, method, params...)
}

// ParseBindingCalls walks rpcbinding.go with go/ast and lists every call that
// names a contract method.  A call form it does not know but which passes
// `c.hash` is reported as an error, so that a new generator template cannot
// slip through unseen.
func ParseBindingCalls(src []byte) ([]Call, error) {
	fset := token.NewFileSet()
	f, err := parser.ParseFile(fset, "rpcbinding.go", src, 0)
	if err != nil {
		return nil, err
	}
	var out []Call
	var perr error
	for _, d := range f.Decls {
		fd, ok := d.(*ast.FuncDecl)
		if !ok || fd.Body == nil {
			continue
		}
		recv := ""
		if fd.Recv != nil && len(fd.Recv.List) == 1 {
			recv = typeName(fd.Recv.List[0].Type)
		}
		// parent map for unwrap detection
		parent := map[ast.Node]ast.Node{}
		var stack []ast.Node
		ast.Inspect(fd.Body, func(n ast.Node) bool {
			if n == nil {
				stack = stack[:len(stack)-1]
				return true
			}
			if len(stack) > 0 {
				parent[n] = stack[len(stack)-1]
			}
			stack = append(stack, n)
			return true
		})
		ast.Inspect(fd.Body, func(n ast.Node) bool {
			ce, ok := n.(*ast.CallExpr)
			if !ok {
				return true
			}
			sel, ok := ce.Fun.(*ast.SelectorExpr)
			if !ok {
				return true
			}
			passesHash := len(ce.Args) >= 1 && isCHash(ce.Args[0])
			skip, known := callForms[sel.Sel.Name]
			if !passesHash {
				return true
			}
			if !known {
				// constructors of the embedded nepXX readers pass the hash too
				if x, ok := sel.X.(*ast.Ident); ok && (strings.HasPrefix(x.Name, "nep")) {
					return true
				}
				perr = fmt.Errorf("%s: unknown call form %s(c.hash, ...)", fd.Name.Name, sel.Sel.Name)
				return true
			}
			if len(ce.Args) < 2+skip {
				perr = fmt.Errorf("%s: %s with too few arguments", fd.Name.Name, sel.Sel.Name)
				return true
			}
			lit, ok := ce.Args[1].(*ast.BasicLit)
			if !ok || lit.Kind != token.STRING {
				perr = fmt.Errorf("%s: method argument of %s is not a string literal", fd.Name.Name, sel.Sel.Name)
				return true
			}
			mname, _ := strconv.Unquote(lit.Value)
			c := Call{Func: fd.Name.Name, Recv: recv, Via: sel.Sel.Name, Method: mname, NArgs: len(ce.Args) - 2 - skip}
			if ce.Ellipsis.IsValid() {
				perr = fmt.Errorf("%s: variadic spread in %s", fd.Name.Name, sel.Sel.Name)
			}
			if p, ok := parent[ce].(*ast.CallExpr); ok {
				if ps, ok := p.Fun.(*ast.SelectorExpr); ok {
					if x, ok := ps.X.(*ast.Ident); ok && x.Name == "unwrap" {
						c.Unwrap = ps.Sel.Name
					}
				}
			}
			out = append(out, c)
			return true
		})
	}
	if perr != nil {
		return out, perr
	}
	return out, nil
}

func isCHash(e ast.Expr) bool {
	s, ok := e.(*ast.SelectorExpr)
	if !ok || s.Sel.Name != "hash" {
		return false
	}
	x, ok := s.X.(*ast.Ident)
	return ok && x.Name == "c"
}

func typeName(e ast.Expr) string {
	switch t := e.(type) {
	case *ast.StarExpr:
		return typeName(t.X)
	case *ast.Ident:
		return t.Name
	}
	return "?"
}

// ---------------------------------------------------------------------------
// The generator's coverage rule and the unwrap table, as the Coq statement
// has them (Proofs/Artifacts.v); used by the Go monitor.

var stdMethods = map[string][]string{
	"NEP-17": {"symbol/0", "decimals/0", "totalSupply/0", "balanceOf/1", "transfer/4"},
	"NEP-11": {"symbol/0", "decimals/0", "totalSupply/0", "balanceOf/1", "tokensOf/1", "transfer/3", "ownerOf/1",
		"properties/1", "tokens/0", "balanceOf/2", "transfer/5"},
}
var payableMethods = []string{"onNEP17Payment/3", "onNEP11Payment/4"}

// Covered says whether the binding generator emits a wrapper for m.
func Covered(a Abi, m Method) bool {
	if strings.HasPrefix(m.Name, "_") {
		return false
	}
	k := m.Name + "/" + strconv.Itoa(len(m.Params))
	for _, s := range a.Standards {
		for _, x := range stdMethods[s] {
			if x == k {
				return false
			}
		}
	}
	for _, x := range payableMethods {
		if x == k {
			return false
		}
	}
	return true
}

// UnwrapOK: is unwrap function u (with call form via) an admissible decoder
// of a value of manifest type ret?
func UnwrapOK(ret, via, u string) bool {
	if via != "Call" && via != "CallAndExpandIterator" {
		return u == ""
	}
	if via == "CallAndExpandIterator" {
		return ret == "InteropInterface" && u == "Array"
	}
	if u == "Item" {
		return ret != "Void"
	}
	ok := map[string][]string{
		"Boolean":          {"Bool"},
		"Integer":          {"BigInt"},
		"ByteArray":        {"Bytes"},
		"String":           {"UTF8String"},
		"Hash160":          {"Uint160"},
		"Hash256":          {"Uint256"},
		"PublicKey":        {"PublicKey"},
		"Signature":        {"Bytes"},
		"Array":            {"Array", "ArrayOfBytes", "ArrayOfUTF8Strings", "ArrayOfBigInts", "ArrayOfBools", "ArrayOfUint160", "ArrayOfUint256", "ArrayOfPublicKeys"},
		"Map":              {"Map"},
		"InteropInterface": {"SessionIterator"},
		"Any":              {},
		"Void":             {"Nothing"},
	}
	for _, x := range ok[ret] {
		if x == u {
			return true
		}
	}
	return false
}

// BindingProblems re-states C15_bindings in Go: each returned string names a
// concrete offending call or method.
func BindingProblems(a Abi, calls []Call) []string {
	var out []string
	find := func(name string, n int) *Method {
		for i := range a.Methods {
			if a.Methods[i].Name == name && len(a.Methods[i].Params) == n {
				return &a.Methods[i]
			}
		}
		return nil
	}
	for _, c := range calls {
		m := find(c.Method, c.NArgs)
		if m == nil {
			out = append(out, fmt.Sprintf("binding %s.%s calls %q with %d arguments: no such method in the manifest", c.Recv, c.Func, c.Method, c.NArgs))
			continue
		}
		if !UnwrapOK(m.Ret, c.Via, c.Unwrap) {
			out = append(out, fmt.Sprintf("binding %s.%s decodes %q (returns %s) through %s/unwrap.%s", c.Recv, c.Func, c.Method, m.Ret, c.Via, c.Unwrap))
		}
		if (c.Via == "Call" || c.Via == "CallAndExpandIterator") != m.Safe {
			out = append(out, fmt.Sprintf("binding %s.%s reaches %q (safe=%v) through %s", c.Recv, c.Func, c.Method, m.Safe, c.Via))
		}
	}
	has := func(m Method, via ...string) bool {
		for _, c := range calls {
			if c.Method == m.Name && c.NArgs == len(m.Params) {
				for _, v := range via {
					if c.Via == v {
						return true
					}
				}
			}
		}
		return false
	}
	for _, m := range a.Methods {
		if !Covered(a, m) {
			continue
		}
		if m.Safe {
			if !has(m, "Call") {
				out = append(out, fmt.Sprintf("safe method %s/%d has no reader binding", m.Name, len(m.Params)))
			}
		} else {
			if !(has(m, "SendCall", "CreateCallWithAssertScript") && has(m, "MakeCall", "CreateCallWithAssertScript") && has(m, "MakeUnsignedCall", "CreateCallWithAssertScript")) {
				out = append(out, fmt.Sprintf("method %s/%d lacks a Send/Make/MakeUnsigned binding", m.Name, len(m.Params)))
			}
		}
	}
	return out
}

// SafeProblems re-states "safe flags = safemethods of config.yml".
func SafeProblems(a Abi, safe []string) []string {
	var out []string
	in := map[string]bool{}
	for _, s := range safe {
		in[s] = true
	}
	names := map[string]bool{}
	for _, m := range a.Methods {
		names[m.Name] = true
		if m.Safe != in[m.Name] {
			out = append(out, fmt.Sprintf("method %s: manifest safe=%v, config.yml safemethods says %v", m.Name, m.Safe, in[m.Name]))
		}
	}
	var ss []string
	for s := range in {
		ss = append(ss, s)
	}
	sort.Strings(ss)
	for _, s := range ss {
		if !names[s] {
			out = append(out, "safemethods entry "+s+" names no method")
		}
	}
	return out
}
