package c15lib

import (
	"fmt"
	"go/ast"
	"go/constant"
	"go/parser"
	"go/token"
	"go/types"
	"math/big"
	"os"
	"path/filepath"
	"sort"
	"strconv"
	"strings"

	"golang.org/x/tools/go/packages"
)

// Const is one Go constant read from the type-checked source.
type Const struct {
	Pkg   string // package name
	Func  string // enclosing function for local constants ("" at package level)
	Name  string
	Kind  string   // "Z", "string", "bool", "bytes" (a []byte variable with a constant initialiser)
	Int   *big.Int // Kind == "Z"
	Str   string   // Kind == "string"
	Bool  bool
	Bytes []byte
	Where string // file:line relative to the repository
}

// Expr is an integer expression of the source kept as a tree: thresholds and
// shares whose SHAPE matters (len(x)*2/3+1, l-(l-1)/2, balance*7/8/len(ir)).
type Expr struct {
	Op   string // "var", "len", "const", "+", "-", "*", "/"
	Name string // var: identifier; len: printed argument
	Val  *big.Int
	L, R *Expr
}

// NamedExpr is an extracted expression with its place.
type NamedExpr struct {
	Pkg, Func, Name string
	E               *Expr
	Src             string
	Where           string
}

// FuncLits are the literals written inline in one function body of a
// contract package, in source order: integer and character literals
// (IntLits, with repetitions) and string literals that are not messages
// (no space, or nothing but spaces: StrLits).  They let a tie reach constants the source never names.
type FuncLits struct {
	Pkg, Func string
	IntLits   []*big.Int
	StrLits   []string
	Where     string
}

func (e NamedExpr) CoqName() string { return "p_" + e.Pkg + "_" + e.Func + "_" + e.Name + "_expr" }

// CoqName is p_<pkg>_<name> (p_<pkg>_<func>_<name> for local constants).
func (c Const) CoqName() string {
	if c.Func != "" {
		return "p_" + c.Pkg + "_" + c.Func + "_" + c.Name
	}
	return "p_" + c.Pkg + "_" + c.Name
}

// Edge is a deployment dependency: contract From needs contract To to be
// deployed (and registered in the NNS) when its _deploy runs.
type Edge struct {
	From, To string
	Via      string // ResolveFSContract, ResolveFSContractWithNNS, InferNNSHash
	Path     string // call path from _deploy
}

// Gate is a comparison `version <op> constant` in a _deploy function.
type Gate struct {
	Pkg   string
	Op    string
	Value *big.Int
}

// Params is everything read from the Go sources.
type Params struct {
	Consts        []Const
	Exprs         []NamedExpr
	Lits          []FuncLits
	VersionFile   string
	FsContracts   []string
	MainContracts []string
	ContractDirs  []string
	Edges         []Edge
	Gates         []Gate
	// DeployStages: the NNS domain names assigned to syncPrm.domainName in
	// deploy.Deploy, in source order (the stages of the deployment procedure
	// after the NNS itself); the per-member Alphabet domain is "alphabet".
	DeployStages []string
}

// ExtractParams type-checks ./common and ./contracts/... of the working tree
// (go/packages, the loader the neo-go compiler itself uses) and reads
// constants, the deployment order lists and the dependency edges.
func ExtractParams(repo string) (*Params, error) {
	res := &Params{}
	vb, err := os.ReadFile(filepath.Join(repo, "VERSION"))
	if err != nil {
		return nil, err
	}
	res.VersionFile = strings.TrimRight(string(vb), "\r\n")
	if res.ContractDirs, err = ContractDirs(repo); err != nil {
		return nil, err
	}

	fset := token.NewFileSet()
	cfg := &packages.Config{
		Mode: packages.NeedName | packages.NeedFiles | packages.NeedSyntax | packages.NeedTypes |
			packages.NeedTypesInfo | packages.NeedImports | packages.NeedDeps,
		Dir:  repo,
		Fset: fset,
	}
	pkgs, err := packages.Load(cfg, "./common/...", "./contracts/...")
	if err != nil {
		return nil, err
	}
	sort.Slice(pkgs, func(i, j int) bool { return pkgs[i].PkgPath < pkgs[j].PkgPath })
	byPath := map[string]*packages.Package{}
	for _, p := range pkgs {
		if len(p.Errors) > 0 {
			return nil, fmt.Errorf("package %s: %v", p.PkgPath, p.Errors[0])
		}
		byPath[p.PkgPath] = p
	}
	rel := func(pos token.Pos) string {
		p := fset.Position(pos)
		r, err := filepath.Rel(repo, p.Filename)
		if err != nil {
			r = p.Filename
		}
		return fmt.Sprintf("%s:%d", r, p.Line)
	}

	// constants, byte-string variables and arithmetic expressions
	collect(res, pkgs, fset, rel)
	// the deploy package: type-checked against the export data of its
	// dependencies (it imports the whole RPC client; no NeedDeps)
	dcfg := &packages.Config{
		Mode: packages.NeedName | packages.NeedFiles | packages.NeedSyntax | packages.NeedTypes |
			packages.NeedTypesInfo | packages.NeedImports,
		Dir:  repo,
		Fset: fset,
	}
	dpkgs, err := packages.Load(dcfg, "./deploy")
	if err != nil {
		return nil, err
	}
	for _, p := range dpkgs {
		if len(p.Errors) > 0 {
			return nil, fmt.Errorf("package %s: %v", p.PkgPath, p.Errors[0])
		}
	}
	collect(res, dpkgs, fset, rel)
	sort.SliceStable(res.Consts, func(i, j int) bool { return res.Consts[i].CoqName() < res.Consts[j].CoqName() })
	// local names repeated in one function (different blocks): keep the first, number the rest
	seen := map[string]int{}
	for i := range res.Consts {
		n := res.Consts[i].CoqName()
		seen[n]++
		if seen[n] > 1 {
			res.Consts[i].Name = fmt.Sprintf("%s_%d", res.Consts[i].Name, seen[n])
		}
	}
	for i := range res.Exprs {
		n := res.Exprs[i].CoqName()
		seen[n]++
		if seen[n] > 1 {
			res.Exprs[i].Name = fmt.Sprintf("%s_%d", res.Exprs[i].Name, seen[n])
		}
	}

	// deployment order lists of contracts/contracts.go
	var cpkg *packages.Package
	for _, p := range pkgs {
		if strings.HasSuffix(p.PkgPath, "/contracts") {
			cpkg = p
		}
	}
	if cpkg == nil {
		return nil, fmt.Errorf("package contracts not found")
	}
	readList := func(name string) ([]string, error) {
		for _, f := range cpkg.Syntax {
			var out []string
			found := false
			var ferr error
			ast.Inspect(f, func(n ast.Node) bool {
				vs, ok := n.(*ast.ValueSpec)
				if !ok {
					return true
				}
				for i, id := range vs.Names {
					if id.Name != name || i >= len(vs.Values) {
						continue
					}
					cl, ok := vs.Values[i].(*ast.CompositeLit)
					if !ok {
						ferr = fmt.Errorf("%s is not a composite literal", name)
						return false
					}
					found = true
					for _, e := range cl.Elts {
						tv, ok := cpkg.TypesInfo.Types[e]
						if !ok || tv.Value == nil || tv.Value.Kind() != constant.String {
							ferr = fmt.Errorf("%s has a non-constant element", name)
							return false
						}
						out = append(out, constant.StringVal(tv.Value))
					}
				}
				return true
			})
			if ferr != nil {
				return nil, ferr
			}
			if found {
				return out, nil
			}
		}
		return nil, fmt.Errorf("variable %s not found in package contracts", name)
	}
	if res.FsContracts, err = readList("fsContracts"); err != nil {
		return nil, err
	}
	if res.MainContracts, err = readList("mainContracts"); err != nil {
		return nil, err
	}

	// function declarations of the module, by object
	decls := map[*types.Func]*ast.FuncDecl{}
	declPkg := map[*types.Func]*packages.Package{}
	for _, p := range pkgs {
		for _, f := range p.Syntax {
			if strings.HasSuffix(fset.Position(f.Pos()).Filename, "_test.go") {
				continue
			}
			for _, d := range f.Decls {
				if fd, ok := d.(*ast.FuncDecl); ok && fd.Body != nil {
					if obj, ok := p.TypesInfo.Defs[fd.Name].(*types.Func); ok {
						decls[obj] = fd
						declPkg[obj] = p
					}
				}
			}
		}
	}

	for _, dir := range res.ContractDirs {
		var p *packages.Package
		for _, q := range pkgs {
			if strings.HasSuffix(q.PkgPath, "/contracts/"+dir) {
				p = q
			}
		}
		if p == nil {
			return nil, fmt.Errorf("package of contract %s not loaded", dir)
		}
		var deploy *types.Func
		for obj, fd := range decls {
			if declPkg[obj] == p && fd.Name.Name == "_deploy" && fd.Recv == nil {
				deploy = obj
			}
		}
		if deploy == nil {
			return nil, fmt.Errorf("contract %s has no _deploy", dir)
		}
		// version gates
		ast.Inspect(decls[deploy].Body, func(n ast.Node) bool {
			be, ok := n.(*ast.BinaryExpr)
			if !ok {
				return true
			}
			switch be.Op {
			case token.LSS, token.LEQ, token.GTR, token.GEQ, token.EQL, token.NEQ:
			default:
				return true
			}
			id, ok := be.X.(*ast.Ident)
			if !ok || id.Name != "version" {
				return true
			}
			tv, ok := p.TypesInfo.Types[be.Y]
			if !ok || tv.Value == nil || tv.Value.Kind() != constant.Int {
				return true
			}
			v, _ := new(big.Int).SetString(tv.Value.ExactString(), 10)
			res.Gates = append(res.Gates, Gate{Pkg: p.Name, Op: be.Op.String(), Value: v})
			return true
		})
		// dependency edges: static call graph from _deploy inside the module
		visited := map[*types.Func]bool{}
		var visit func(fn *types.Func, path string)
		visit = func(fn *types.Func, path string) {
			if visited[fn] {
				return
			}
			visited[fn] = true
			fd := decls[fn]
			fp := declPkg[fn]
			ast.Inspect(fd.Body, func(n ast.Node) bool {
				ce, ok := n.(*ast.CallExpr)
				if !ok {
					return true
				}
				var id *ast.Ident
				switch f := ce.Fun.(type) {
				case *ast.Ident:
					id = f
				case *ast.SelectorExpr:
					id = f.Sel
				default:
					return true
				}
				callee, ok := fp.TypesInfo.Uses[id].(*types.Func)
				if !ok || callee.Pkg() == nil {
					return true
				}
				isCommon := strings.HasSuffix(callee.Pkg().Path(), "/common")
				strArg := func(i int) (string, bool) {
					if i >= len(ce.Args) {
						return "", false
					}
					tv, ok := fp.TypesInfo.Types[ce.Args[i]]
					if !ok || tv.Value == nil || tv.Value.Kind() != constant.String {
						return "", false
					}
					return constant.StringVal(tv.Value), true
				}
				switch {
				case isCommon && callee.Name() == "InferNNSHash":
					res.Edges = append(res.Edges, Edge{dir, "nns", "InferNNSHash", path})
				case isCommon && callee.Name() == "ResolveFSContract":
					if s, ok := strArg(0); ok {
						res.Edges = append(res.Edges, Edge{dir, s, "ResolveFSContract", path})
						res.Edges = append(res.Edges, Edge{dir, "nns", "ResolveFSContract", path})
					} else {
						res.Edges = append(res.Edges, Edge{dir, "?", "ResolveFSContract(non-constant)", path})
					}
				case isCommon && callee.Name() == "ResolveFSContractWithNNS":
					if s, ok := strArg(1); ok {
						res.Edges = append(res.Edges, Edge{dir, s, "ResolveFSContractWithNNS", path})
						res.Edges = append(res.Edges, Edge{dir, "nns", "ResolveFSContractWithNNS", path})
					} else {
						res.Edges = append(res.Edges, Edge{dir, "?", "ResolveFSContractWithNNS(non-constant)", path})
					}
				default:
					if _, ok := decls[callee]; ok {
						visit(callee, path+">"+callee.Name())
					}
				}
				return true
			})
		}
		visit(deploy, "_deploy")
	}
	if res.DeployStages, err = deployStages(repo); err != nil {
		return nil, err
	}
	// dedupe edges (keep first path), stable order
	var es []Edge
	have := map[string]bool{}
	for _, e := range res.Edges {
		k := e.From + ">" + e.To
		if have[k] {
			continue
		}
		have[k] = true
		es = append(es, e)
	}
	res.Edges = es
	return res, nil
}

// Lookup finds a package-level constant.
func (p *Params) Lookup(pkg, name string) *Const {
	for i := range p.Consts {
		if p.Consts[i].Pkg == pkg && p.Consts[i].Func == "" && p.Consts[i].Name == name {
			return &p.Consts[i]
		}
	}
	return nil
}

// OrderProblems re-states C15_order in Go.
func (p *Params) OrderProblems() []string {
	var out []string
	if len(p.FsContracts) == 0 || p.FsContracts[0] != "nns" {
		out = append(out, "fsContracts does not start with nns")
	}
	idx := map[string]int{}
	for i, c := range p.FsContracts {
		if _, dup := idx[c]; dup {
			out = append(out, "fsContracts lists "+c+" twice")
		}
		idx[c] = i
	}
	for _, e := range p.Edges {
		i, ok := idx[e.From]
		if !ok {
			continue // main-chain contract
		}
		j, ok := idx[e.To]
		if !ok {
			out = append(out, fmt.Sprintf("%s needs %s (%s via %s), which fsContracts does not list", e.From, e.To, e.Via, e.Path))
			continue
		}
		if j >= i {
			out = append(out, fmt.Sprintf("%s (position %d) needs %s (position %d) at deployment (%s via %s)", e.From, i, e.To, j, e.Via, e.Path))
		}
	}
	if want := append([]string{"nns"}, p.DeployStages...); strings.Join(want, ",") != strings.Join(p.FsContracts, ",") {
		out = append(out, fmt.Sprintf("deploy.Deploy deploys nns then %v, fsContracts is %v", p.DeployStages, p.FsContracts))
	}
	all := append(append([]string{}, p.FsContracts...), p.MainContracts...)
	sort.Strings(all)
	if strings.Join(all, ",") != strings.Join(p.ContractDirs, ",") {
		out = append(out, fmt.Sprintf("fsContracts+mainContracts = %v, contract directories = %v", all, p.ContractDirs))
	}
	return out
}

// deployStages reads deploy/*.go with go/parser (no type checking: the
// package imports the whole RPC client) and lists the right-hand sides of
// `syncPrm.domainName = ...` in func Deploy in source order, resolving
// identifiers through the package's string constants.
func deployStages(repo string) ([]string, error) {
	fset := token.NewFileSet()
	files, err := filepath.Glob(filepath.Join(repo, "deploy", "*.go"))
	if err != nil {
		return nil, err
	}
	sort.Strings(files)
	consts := map[string]string{}
	var deploy *ast.FuncDecl
	for _, fn := range files {
		if strings.HasSuffix(fn, "_test.go") {
			continue
		}
		f, err := parser.ParseFile(fset, fn, nil, 0)
		if err != nil {
			return nil, err
		}
		for _, d := range f.Decls {
			switch x := d.(type) {
			case *ast.FuncDecl:
				if x.Name.Name == "Deploy" && x.Recv == nil {
					deploy = x
				}
			case *ast.GenDecl:
				if x.Tok != token.CONST {
					continue
				}
				for _, sp := range x.Specs {
					vs := sp.(*ast.ValueSpec)
					for i, id := range vs.Names {
						if i < len(vs.Values) {
							if bl, ok := vs.Values[i].(*ast.BasicLit); ok && bl.Kind == token.STRING {
								if v, err := strconv.Unquote(bl.Value); err == nil {
									consts[id.Name] = v
								}
							}
						}
					}
				}
			}
		}
	}
	if deploy == nil {
		return nil, fmt.Errorf("deploy.Deploy not found")
	}
	var out []string
	ast.Inspect(deploy.Body, func(n ast.Node) bool {
		as, ok := n.(*ast.AssignStmt)
		if !ok || len(as.Lhs) != 1 || len(as.Rhs) != 1 {
			return true
		}
		sel, ok := as.Lhs[0].(*ast.SelectorExpr)
		if !ok || sel.Sel.Name != "domainName" {
			return true
		}
		switch r := as.Rhs[0].(type) {
		case *ast.Ident:
			if v, ok := consts[r.Name]; ok {
				out = append(out, v)
			} else {
				out = append(out, "?"+r.Name)
			}
		case *ast.CallExpr:
			if id, ok := r.Fun.(*ast.Ident); ok && id.Name == "calculateAlphabetContractAddressDomain" {
				out = append(out, "alphabet")
			} else {
				out = append(out, "?call")
			}
		default:
			out = append(out, "?expr")
		}
		return true
	})
	return out, nil
}

// exprTargets: left-hand-side names whose defining expression is extracted.
var exprTargets = map[string]bool{"threshold": true, "proxyGas": true, "gasPerNode": true, "toTransfer": true,
	"perNodeGAS": true, "perNodeGASNotary": true}

// collect walks the syntax of pkgs and appends constants, []byte variables
// with constant initialisers and the targeted expressions to res.
func collect(res *Params, pkgs []*packages.Package, fset *token.FileSet, rel func(token.Pos) string) {
	for _, p := range pkgs {
		info := p.TypesInfo
		constOf := func(e ast.Expr) constant.Value {
			if tv, ok := info.Types[e]; ok && tv.Value != nil {
				return tv.Value
			}
			return nil
		}
		isByteSlice := func(t types.Type) bool {
			if t == nil {
				return false
			}
			sl, ok := t.Underlying().(*types.Slice)
			if !ok {
				return false
			}
			b, ok := sl.Elem().Underlying().(*types.Basic)
			return ok && b.Kind() == types.Uint8
		}
		// bytesOf: []byte("const"), []byte{c1, c2, ...}, or a constant string for string variables
		bytesOf := func(e ast.Expr) ([]byte, bool) {
			switch x := e.(type) {
			case *ast.CallExpr:
				if len(x.Args) == 1 && isByteSlice(info.TypeOf(x.Fun)) {
					if tv, ok := info.Types[x.Fun]; ok && tv.IsType() {
						if v := constOf(x.Args[0]); v != nil && v.Kind() == constant.String {
							return []byte(constant.StringVal(v)), true
						}
					}
				}
			case *ast.CompositeLit:
				if !isByteSlice(info.TypeOf(x)) {
					return nil, false
				}
				out := []byte{}
				for _, el := range x.Elts {
					v := constOf(el)
					if v == nil || v.Kind() != constant.Int {
						return nil, false
					}
					n, ok := constant.Int64Val(v)
					if !ok || n < 0 || n > 255 {
						return nil, false
					}
					out = append(out, byte(n))
				}
				return out, true
			}
			return nil, false
		}
		var toExpr func(e ast.Expr) *Expr
		toExpr = func(e ast.Expr) *Expr {
			if v := constOf(e); v != nil {
				if v.Kind() != constant.Int {
					return nil
				}
				z, _ := new(big.Int).SetString(v.ExactString(), 10)
				return &Expr{Op: "const", Val: z}
			}
			switch x := e.(type) {
			case *ast.ParenExpr:
				return toExpr(x.X)
			case *ast.Ident:
				return &Expr{Op: "var", Name: x.Name}
			case *ast.CallExpr:
				if id, ok := x.Fun.(*ast.Ident); ok && id.Name == "len" && len(x.Args) == 1 {
					return &Expr{Op: "len", Name: types.ExprString(x.Args[0])}
				}
				// conversions int(x), int64(x)
				if tv, ok := info.Types[x.Fun]; ok && tv.IsType() && len(x.Args) == 1 {
					return toExpr(x.Args[0])
				}
			case *ast.BinaryExpr:
				op := map[token.Token]string{token.ADD: "+", token.SUB: "-", token.MUL: "*", token.QUO: "/"}[x.Op]
				if op == "" {
					return nil
				}
				l, r := toExpr(x.X), toExpr(x.Y)
				if l == nil || r == nil {
					return nil
				}
				return &Expr{Op: op, L: l, R: r}
			}
			return nil
		}
		for _, f := range p.Syntax {
			if strings.HasSuffix(fset.Position(f.Pos()).Filename, "_test.go") {
				continue
			}
			addBytes := func(fn string, id *ast.Ident, val ast.Expr) {
				if id.Name == "_" {
					return
				}
				if _, ok := info.Defs[id].(*types.Var); !ok {
					return
				}
				if b, ok := bytesOf(val); ok {
					res.Consts = append(res.Consts, Const{Pkg: p.Name, Func: fn, Name: id.Name, Kind: "bytes", Bytes: b, Where: rel(id.Pos())})
				}
			}
			addExpr := func(fn, name string, e ast.Expr) {
				if x := toExpr(e); x != nil && x.Op != "const" && x.Op != "var" {
					res.Exprs = append(res.Exprs, NamedExpr{Pkg: p.Name, Func: fn, Name: name, E: x, Src: types.ExprString(e), Where: rel(e.Pos())})
				}
			}
			var walk func(n ast.Node, fn string)
			walk = func(n ast.Node, fn string) {
				ast.Inspect(n, func(n ast.Node) bool {
					switch x := n.(type) {
					case *ast.FuncDecl:
						if x.Body != nil {
							name := x.Name.Name
							if x.Recv != nil && len(x.Recv.List) == 1 {
								name = typeName(x.Recv.List[0].Type) + "_" + name
							}
							if p.Name != "deploy" {
								fl := FuncLits{Pkg: p.Name, Func: name, Where: rel(x.Pos())}
								ast.Inspect(x.Body, func(m ast.Node) bool {
									if gd, ok := m.(*ast.GenDecl); ok && gd.Tok == token.CONST {
										return false // named: already a p_ constant
									}
									bl, ok := m.(*ast.BasicLit)
									if !ok {
										return true
									}
									v := constOf(bl)
									if v == nil {
										return true
									}
									switch {
									case (bl.Kind == token.INT || bl.Kind == token.CHAR) && v.Kind() == constant.Int:
										z, _ := new(big.Int).SetString(v.ExactString(), 10)
										fl.IntLits = append(fl.IntLits, z)
									case bl.Kind == token.STRING && v.Kind() == constant.String:
										// messages (words separated by spaces) are skipped; a bare separator " " is kept
										if sv := constant.StringVal(v); !strings.Contains(sv, " ") || strings.TrimSpace(sv) == "" {
											fl.StrLits = append(fl.StrLits, sv)
										}
									}
									return true
								})
								if len(fl.IntLits) > 0 || len(fl.StrLits) > 0 {
									res.Lits = append(res.Lits, fl)
								}
							}
							walk(x.Body, name)
						}
						return false
					case *ast.AssignStmt:
						if len(x.Lhs) == len(x.Rhs) {
							for i, l := range x.Lhs {
								id, ok := l.(*ast.Ident)
								if !ok {
									continue
								}
								if x.Tok == token.DEFINE {
									addBytes(fn, id, x.Rhs[i])
								}
								if exprTargets[id.Name] {
									addExpr(fn, id.Name, x.Rhs[i])
								}
							}
						}
					case *ast.CallExpr:
						if sel, ok := x.Fun.(*ast.SelectorExpr); ok && sel.Sel.Name == "CreateMultisigAccount" && len(x.Args) >= 1 {
							addExpr(fn, "multisig_m", x.Args[0])
						}
					case *ast.ValueSpec:
						for i, id := range x.Names {
							if id.Name == "_" {
								continue
							}
							if i < len(x.Values) && len(x.Values) == len(x.Names) {
								addBytes(fn, id, x.Values[i])
							}
							obj, ok := info.Defs[id].(*types.Const)
							if !ok {
								continue
							}
							c := Const{Pkg: p.Name, Func: fn, Name: id.Name, Where: rel(id.Pos())}
							v := obj.Val()
							switch v.Kind() {
							case constant.Int:
								c.Kind = "Z"
								c.Int, _ = new(big.Int).SetString(v.ExactString(), 10)
							case constant.String:
								c.Kind = "string"
								c.Str = constant.StringVal(v)
							case constant.Bool:
								c.Kind = "bool"
								c.Bool = constant.BoolVal(v)
							default:
								continue
							}
							res.Consts = append(res.Consts, c)
						}
					}
					return true
				})
			}
			walk(f, "")
		}
	}
}
