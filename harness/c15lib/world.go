package c15lib

import (
	"fmt"
	"math/big"
	"os"
	"sort"
	"strconv"
	"strings"
)

// Contract gathers everything known about one contract of the tree.
type Contract struct {
	Name             string
	Committed, Fresh Files
	NefC, NefF       NefFacts
	AbiC, AbiF       Abi
	Safe             []string
	Calls            []Call // of the committed rpc/<name>/rpcbinding.go
	CallsErr         string
	VersionC         *big.Int // nil: could not be executed
	VersionF         *big.Int
	VersionCErr      string
	VersionFErr      string
}

// World is the translator's view of the working tree.
type World struct {
	Repo      string
	Contracts []Contract
	Params    *Params
}

// Build reads, regenerates, decodes and executes.
func Build(repo string) (*World, error) {
	w := &World{Repo: repo}
	var err error
	if w.Params, err = ExtractParams(repo); err != nil {
		return nil, fmt.Errorf("reading Go sources: %w", err)
	}
	tmp, err := os.MkdirTemp("", "c15-regen-")
	if err != nil {
		return nil, err
	}
	defer os.RemoveAll(tmp)
	run, err := NewRunner()
	if err != nil {
		return nil, err
	}
	defer run.Close()
	for _, name := range w.Params.ContractDirs {
		c := Contract{Name: name}
		c.Committed = ReadCommitted(repo, name)
		if c.Fresh, err = Regenerate(repo, name, tmp); err != nil {
			return nil, fmt.Errorf("regenerating %s: %w", name, err)
		}
		c.NefC, c.NefF = DecodeNef(c.Committed.Nef), DecodeNef(c.Fresh.Nef)
		c.AbiC, c.AbiF = DecodeManifest(c.Committed.Manifest), DecodeManifest(c.Fresh.Manifest)
		if c.Safe, err = SafeMethodsOf(repo, name); err != nil {
			return nil, err
		}
		if c.Calls, err = ParseBindingCalls(c.Committed.Binding); err != nil {
			c.CallsErr = err.Error()
		}
		if c.VersionC, err = run.RunVersion(c.NefC, c.AbiC); err != nil {
			c.VersionCErr = err.Error()
		}
		if c.VersionF, err = run.RunVersion(c.NefF, c.AbiF); err != nil {
			c.VersionFErr = err.Error()
		}
		w.Contracts = append(w.Contracts, c)
	}
	return w, nil
}

// Difference is one concrete way in which the tree violates C15.
type Difference struct {
	Contract      string `json:"contract"`
	File          string `json:"file"`              // path relative to the repository root
	Kind          string `json:"kind"`              // nef | manifest | binding | safemethods | binding-call | order | version
	Offset        int    `json:"first_diff_offset"` // byte offset of the first difference (-1: not a byte comparison)
	CommittedLen  int    `json:"committed_len"`
	FreshLen      int    `json:"fresh_len"`
	CommittedByte int    `json:"committed_byte"` // -1: past the end
	FreshByte     int    `json:"fresh_byte"`
	Detail        string `json:"detail"` // for manifests the differing method; for NEFs the region
}

func (d Difference) String() string {
	if d.Offset >= 0 {
		return fmt.Sprintf("%s: %s differs from the regenerated file at byte %d (committed %d, fresh %d; lengths %d/%d) %s",
			d.Contract, d.File, d.Offset, d.CommittedByte, d.FreshByte, d.CommittedLen, d.FreshLen, d.Detail)
	}
	return fmt.Sprintf("%s: %s [%s] %s", d.Contract, d.File, d.Kind, d.Detail)
}

func byteAt(b []byte, i int) int {
	if i < len(b) {
		return int(b[i])
	}
	return -1
}

// nefRegion locates a byte offset inside the NEF container.
func nefRegion(f NefFacts, total, off int) string {
	if !f.OK {
		return ""
	}
	// layout: ... script (var bytes) | checksum (4)
	scriptStart := total - 4 - f.ScriptLen
	switch {
	case off >= total-4:
		return "in the checksum"
	case off >= scriptStart:
		return fmt.Sprintf("at script offset %d", off-scriptStart)
	case off < 4:
		return "in the magic"
	case off < 68:
		return "in the compiler string"
	}
	return "in the header (source URL / method tokens)"
}

// Differences re-states every C15 comparison in Go and returns the failing
// ones, most direct first.
func (w *World) Differences() []Difference {
	var out []Difference
	for _, c := range w.Contracts {
		for _, kind := range Kinds {
			a, b := c.Committed.Get(kind), c.Fresh.Get(kind)
			off := FirstDiff(a, b)
			if off < 0 {
				continue
			}
			d := Difference{Contract: c.Name, File: RelPath(c.Name, kind), Kind: kind, Offset: off,
				CommittedLen: len(a), FreshLen: len(b), CommittedByte: byteAt(a, off), FreshByte: byteAt(b, off)}
			switch kind {
			case "nef":
				d.Detail = nefRegion(c.NefF, len(b), off)
				if !c.NefC.OK {
					d.Detail += "; committed NEF does not decode: " + c.NefC.Err
				}
			case "manifest":
				d.Detail = AbiDiff(c.AbiC, c.AbiF)
				if d.Detail == "" {
					d.Detail = "no decoded ABI entry differs (formatting or extra field)"
				}
			case "binding":
				ln := 1 + strings.Count(string(a[:min(off, len(a))]), "\n")
				d.Detail = fmt.Sprintf("line %d", ln)
			}
			out = append(out, d)
		}
		nb := func(kind, file, detail string) {
			out = append(out, Difference{Contract: c.Name, File: file, Kind: kind, Offset: -1, CommittedByte: -1, FreshByte: -1, Detail: detail})
		}
		for _, abi := range []struct {
			which string
			a     Abi
		}{{"compiled", c.AbiF}, {"committed", c.AbiC}} {
			if !abi.a.OK {
				continue
			}
			for _, p := range SafeProblems(abi.a, c.Safe) {
				nb("safemethods", "contracts/"+c.Name+"/config.yml", abi.which+" manifest: "+p)
			}
		}
		if c.CallsErr != "" {
			nb("binding-call", RelPath(c.Name, "binding"), c.CallsErr)
		}
		if c.AbiF.OK {
			for _, p := range BindingProblems(c.AbiF, c.Calls) {
				nb("binding-call", RelPath(c.Name, "binding"), p)
			}
		}
		want := w.WantVersion()
		chk := func(which string, v *big.Int, e string) {
			switch {
			case v == nil:
				nb("version", RelPath(c.Name, "nef"), which+" executable: version() could not be executed: "+e)
			case want == nil || v.Cmp(want) != 0:
				nb("version", RelPath(c.Name, "nef"), fmt.Sprintf("%s executable: version() = %v, common/version.go says %v", which, v, want))
			}
		}
		chk("committed", c.VersionC, c.VersionCErr)
		chk("compiled", c.VersionF, c.VersionFErr)
	}
	for _, p := range w.Params.OrderProblems() {
		out = append(out, Difference{Contract: "", File: "contracts/contracts.go", Kind: "order", Offset: -1, CommittedByte: -1, FreshByte: -1, Detail: p})
	}
	if s := w.VersionFileProblem(); s != "" {
		out = append(out, Difference{Contract: "", File: "VERSION", Kind: "version", Offset: -1, CommittedByte: -1, FreshByte: -1, Detail: s})
	}
	return out
}

// WantVersion is major*1_000_000 + minor*1_000 + patch of common/version.go.
func (w *World) WantVersion() *big.Int {
	ma, mi, pa := w.Params.Lookup("common", "major"), w.Params.Lookup("common", "minor"), w.Params.Lookup("common", "patch")
	if ma == nil || mi == nil || pa == nil || ma.Int == nil || mi.Int == nil || pa.Int == nil {
		return nil
	}
	v := new(big.Int).Mul(ma.Int, big.NewInt(1_000_000))
	v.Add(v, new(big.Int).Mul(mi.Int, big.NewInt(1_000)))
	return v.Add(v, pa.Int)
}

// VersionFileProblem compares VERSION with v<major>.<minor>.<patch>.
func (w *World) VersionFileProblem() string {
	ma, mi, pa := w.Params.Lookup("common", "major"), w.Params.Lookup("common", "minor"), w.Params.Lookup("common", "patch")
	if ma == nil || mi == nil || pa == nil {
		return "common/version.go does not define major, minor, patch"
	}
	want := fmt.Sprintf("v%v.%v.%v", ma.Int, mi.Int, pa.Int)
	if w.Params.VersionFile != want {
		return fmt.Sprintf("VERSION file says %q, common/version.go says %q", w.Params.VersionFile, want)
	}
	return ""
}

// ---------------------------------------------------------------------------
// Coq printing

const genHeader = "(* GENERATED by /verif/harness/cmd/translate from /repo's working tree - DO NOT EDIT.\n   Regenerated (write-if-changed) by every ./check run; see DESIGN.md 2.2 (T). *)\n"

func coqStr(s string) string {
	printable := true
	for i := 0; i < len(s); i++ {
		if s[i] < 32 || s[i] >= 127 {
			printable = false
		}
	}
	if !printable {
		// Coq string literals have no escapes: build the string from its bytes
		xs := make([]string, len(s))
		for i := 0; i < len(s); i++ {
			xs[i] = strconv.Itoa(int(s[i]))
		}
		return "(string_of_list_ascii (List.map Ascii.ascii_of_N [" + strings.Join(xs, "; ") + "]%N))"
	}
	return `"` + strings.ReplaceAll(s, `"`, `""`) + `"`
}

func coqZ(z *big.Int) string {
	if z.Sign() < 0 {
		return "(" + z.String() + ")%Z"
	}
	return z.String() + "%Z"
}

func coqZi(i int) string { return coqZ(big.NewInt(int64(i))) }

func coqBool(b bool) string {
	if b {
		return "true"
	}
	return "false"
}

func coqList(xs []string, sep string) string {
	if len(xs) == 0 {
		return "[]"
	}
	return "[" + strings.Join(xs, sep) + "]"
}

func coqStrList(xs []string) string {
	ys := make([]string, len(xs))
	for i, x := range xs {
		ys[i] = coqStr(x)
	}
	return coqList(ys, "; ")
}

// WordsPerRow and BytesPerWord fix the bulk representation.
const (
	BytesPerWord = 7
	WordsPerRow  = 400
)

// coqFile prints b as (length, rows of 63-bit words); 7 bytes per word, most
// significant byte first, the last word padded with zero bytes.
func coqFile(sb *strings.Builder, b []byte) {
	fmt.Fprintf(sb, "(%d%%Z, [", len(b))
	nw := (len(b) + BytesPerWord - 1) / BytesPerWord
	for w := 0; w < nw; w++ {
		if w%WordsPerRow == 0 {
			if w > 0 {
				sb.WriteString("];")
			}
			sb.WriteString("\n [")
		} else {
			sb.WriteByte(';')
		}
		var v uint64
		for k := 0; k < BytesPerWord; k++ {
			v <<= 8
			if i := w*BytesPerWord + k; i < len(b) {
				v |= uint64(b[i])
			}
		}
		sb.WriteString(strconv.FormatUint(v, 10))
	}
	if nw > 0 {
		sb.WriteString("]")
	}
	sb.WriteString("])")
}

func coqNefFacts(f NefFacts) string {
	if !f.OK {
		return "{| nf_ok := false; nf_compiler := " + coqStr(f.Err) + "; nf_source := \"\"; nf_tokens := []; nf_script_len := 0%Z; nf_checksum := 0%Z |}"
	}
	var ts []string
	for _, t := range f.Tokens {
		ts = append(ts, fmt.Sprintf("{| t_hash := %s; t_method := %s; t_params := %s; t_hasret := %s; t_flags := %s |}",
			coqStr(t.Hash), coqStr(t.Method), coqZi(t.ParamCnt), coqBool(t.HasReturn), coqZi(t.CallFlag)))
	}
	return fmt.Sprintf("{| nf_ok := true; nf_compiler := %s; nf_source := %s;\n     nf_tokens := %s;\n     nf_script_len := %s; nf_checksum := %s |}",
		coqStr(f.Compiler), coqStr(f.Source), coqList(ts, ";\n       "), coqZi(f.ScriptLen), coqZ(new(big.Int).SetUint64(uint64(f.Checksum))))
}

func coqOptZ(z *big.Int) string {
	if z == nil {
		return "None"
	}
	return "(Some " + coqZ(z) + ")"
}

// ArtifactsV prints Gen/Artifacts.v.
func (w *World) ArtifactsV() string {
	var sb strings.Builder
	sb.WriteString(genHeader)
	sb.WriteString(`(* For every contract directory: the bytes of contract.nef, manifest.json and
   rpc/<name>/rpcbinding.go as COMMITTED in the tree (x_c_<name>) and as REGENERATED
   now from the sources with the pinned compiler stamp (x_f_<name>); plus decoded
   NEF fields and the executed version() of both executables.
   file = (length in bytes, rows of primitive 63-bit words: 7 bytes per word, most
   significant byte first, last word zero-padded, ` + strconv.Itoa(WordsPerRow) + ` words per row). *)
From Coq Require Import ZArith List String Uint63.
Import ListNotations.
Local Open Scope string_scope.
Local Open Scope uint63_scope.

Definition file : Set := (Z * list (list int))%type.

Record token := { t_hash : string; t_method : string; t_params : Z; t_hasret : bool; t_flags : Z }.
Record nef_facts := { nf_ok : bool; nf_compiler : string; nf_source : string; nf_tokens : list token;
                      nf_script_len : Z; nf_checksum : Z }.

Record artifact := {
  a_name : string;
  a_nef_committed : file;      a_nef_fresh : file;
  a_manifest_committed : file; a_manifest_fresh : file;
  a_binding_committed : file;  a_binding_fresh : file;
  a_facts_committed : nef_facts; a_facts_fresh : nef_facts;
  a_version_committed : option Z; (* version() executed on the committed executable (None: did not run) *)
  a_version_fresh : option Z      (* version() executed on the executable compiled now *)
}.

Definition compiler_stamp : string := ` + coqStr("neo-go-"+CompilerVersion) + `.

`)
	for _, c := range w.Contracts {
		for _, kind := range Kinds {
			fmt.Fprintf(&sb, "Definition %s_c_%s : file := ", kind, c.Name)
			coqFile(&sb, c.Committed.Get(kind))
			sb.WriteString(".\n")
			fmt.Fprintf(&sb, "Definition %s_f_%s : file := ", kind, c.Name)
			coqFile(&sb, c.Fresh.Get(kind))
			sb.WriteString(".\n")
		}
		fmt.Fprintf(&sb, "Definition facts_c_%s : nef_facts :=\n  %s.\n", c.Name, coqNefFacts(c.NefC))
		fmt.Fprintf(&sb, "Definition facts_f_%s : nef_facts :=\n  %s.\n", c.Name, coqNefFacts(c.NefF))
		fmt.Fprintf(&sb, "Definition art_%s : artifact := {| a_name := %s;\n", c.Name, coqStr(c.Name))
		fmt.Fprintf(&sb, "  a_nef_committed := nef_c_%s; a_nef_fresh := nef_f_%s;\n", c.Name, c.Name)
		fmt.Fprintf(&sb, "  a_manifest_committed := manifest_c_%s; a_manifest_fresh := manifest_f_%s;\n", c.Name, c.Name)
		fmt.Fprintf(&sb, "  a_binding_committed := binding_c_%s; a_binding_fresh := binding_f_%s;\n", c.Name, c.Name)
		fmt.Fprintf(&sb, "  a_facts_committed := facts_c_%s; a_facts_fresh := facts_f_%s;\n", c.Name, c.Name)
		fmt.Fprintf(&sb, "  a_version_committed := %s; a_version_fresh := %s |}.\n\n", coqOptZ(c.VersionC), coqOptZ(c.VersionF))
	}
	var names []string
	for _, c := range w.Contracts {
		names = append(names, "art_"+c.Name)
	}
	fmt.Fprintf(&sb, "Definition artifacts : list artifact :=\n  %s.\n", coqList(names, "; "))
	return sb.String()
}

func coqParams(ps []Param) string {
	var xs []string
	for _, p := range ps {
		xs = append(xs, "("+coqStr(p.Name)+", "+coqStr(p.Type)+")")
	}
	return coqList(xs, "; ")
}

func coqAbi(a Abi) string {
	if !a.OK {
		return "{| abi_ok := false; abi_name := " + coqStr(a.Err) + "; abi_groups := 0%Z; abi_standards := []; abi_methods := []; abi_events := []; abi_permissions := []; abi_trusts := [] |}"
	}
	var ms, es, ps []string
	for _, m := range a.Methods {
		ms = append(ms, fmt.Sprintf("{| m_name := %s; m_params := %s; m_ret := %s; m_safe := %s; m_offset := %s |}",
			coqStr(m.Name), coqParams(m.Params), coqStr(m.Ret), coqBool(m.Safe), coqZi(m.Offset)))
	}
	for _, e := range a.Events {
		es = append(es, fmt.Sprintf("{| e_name := %s; e_params := %s |}", coqStr(e.Name), coqParams(e.Params)))
	}
	for _, p := range a.Permissions {
		ps = append(ps, "("+coqStr(p.Contract)+", "+coqStrList(p.Methods)+")")
	}
	return fmt.Sprintf("{| abi_ok := true; abi_name := %s; abi_groups := %s; abi_standards := %s;\n  abi_methods := %s;\n  abi_events := %s;\n  abi_permissions := %s;\n  abi_trusts := %s |}",
		coqStr(a.Name), coqZi(a.Groups), coqStrList(a.Standards), coqList(ms, ";\n    "), coqList(es, ";\n    "), coqList(ps, ";\n    "), coqStrList(a.Trusts))
}

// AbiV prints Gen/Abi.v.
func (w *World) AbiV() string {
	var sb strings.Builder
	sb.WriteString(genHeader)
	sb.WriteString(`(* For every contract: the ABI compiled NOW from the source (abi_f_<name>), the ABI of
   the COMMITTED manifest.json (abi_c_<name>), the safemethods list of config.yml, and
   the table of contract calls found by a go/ast walk in the committed
   rpc/<name>/rpcbinding.go: Go function, receiver, call form (Call,
   CallAndExpandIterator, SendCall, MakeCall, MakeUnsignedCall,
   CreateCallWithAssertScript), the method named by the string literal, the number
   of contract arguments passed, and the unwrap.<X> function applied to the result. *)
From Coq Require Import ZArith List String.
Import ListNotations.
Local Open Scope string_scope.

Record method := { m_name : string; m_params : list (string * string) (* name, type *); m_ret : string;
                   m_safe : bool; m_offset : Z }.
Record event := { e_name : string; e_params : list (string * string) }.
Record abi := { abi_ok : bool; abi_name : string; abi_groups : Z; abi_standards : list string;
                abi_methods : list method; abi_events : list event;
                abi_permissions : list (string * list string) (* contract, methods; "*" = wildcard *);
                abi_trusts : list string }.
Record call := { c_func : string; c_recv : string; c_via : string; c_method : string; c_nargs : Z;
                 c_unwrap : string }.
Record contract_abi := { ca_name : string; ca_fresh : abi; ca_committed : abi;
                         ca_safemethods : list string; ca_calls_ok : bool; ca_calls : list call }.

`)
	for _, c := range w.Contracts {
		fmt.Fprintf(&sb, "Definition abi_f_%s : abi :=\n  %s.\n", c.Name, coqAbi(c.AbiF))
		fmt.Fprintf(&sb, "Definition abi_c_%s : abi :=\n  %s.\n", c.Name, coqAbi(c.AbiC))
		fmt.Fprintf(&sb, "Definition safemethods_%s : list string :=\n  %s.\n", c.Name, coqStrList(c.Safe))
		var cs []string
		for _, k := range c.Calls {
			cs = append(cs, fmt.Sprintf("{| c_func := %s; c_recv := %s; c_via := %s; c_method := %s; c_nargs := %s; c_unwrap := %s |}",
				coqStr(k.Func), coqStr(k.Recv), coqStr(k.Via), coqStr(k.Method), coqZi(k.NArgs), coqStr(k.Unwrap)))
		}
		if c.CallsErr != "" {
			fmt.Fprintf(&sb, "(* go/ast walk failed: %s *)\n", strings.ReplaceAll(c.CallsErr, "*)", "* )"))
		}
		fmt.Fprintf(&sb, "Definition calls_%s : list call :=\n  %s.\n", c.Name, coqList(cs, ";\n    "))
		fmt.Fprintf(&sb, "Definition cabi_%s : contract_abi := {| ca_name := %s; ca_fresh := abi_f_%s; ca_committed := abi_c_%s;\n  ca_safemethods := safemethods_%s; ca_calls_ok := %s; ca_calls := calls_%s |}.\n\n",
			c.Name, coqStr(c.Name), c.Name, c.Name, c.Name, coqBool(c.CallsErr == ""), c.Name)
	}
	var names []string
	for _, c := range w.Contracts {
		names = append(names, "cabi_"+c.Name)
	}
	fmt.Fprintf(&sb, "Definition contract_abis : list contract_abi :=\n  %s.\n", coqList(names, "; "))
	return sb.String()
}

func coqExpr(e *Expr) string {
	switch e.Op {
	case "var":
		return "TVar " + coqStr(e.Name)
	case "len":
		return "TLen " + coqStr(e.Name)
	case "const":
		return "TC " + coqZ(e.Val)
	}
	op := map[string]string{"+": "TAdd", "-": "TSub", "*": "TMul", "/": "TDiv"}[e.Op]
	return op + " (" + coqExpr(e.L) + ") (" + coqExpr(e.R) + ")"
}

// ParamsV prints Gen/Params.v.
func (w *World) ParamsV() string {
	p := w.Params
	var sb strings.Builder
	sb.WriteString(genHeader)
	sb.WriteString(`(* Constants of the Go sources, read from the type-checked packages ./common/... and
   ./contracts/... (go/packages + go/constant): every package-level constant is
   p_<package>_<name>, a function-local one p_<package>_<function>_<name>; integer
   constants are Z, strings string, booleans bool; a []byte variable whose initialiser
   is constant ([]byte{..} or []byte("..")) is a list Z of its bytes; the defining
   expressions of the thresholds and GAS shares are p_<package>_<function>_<name>_expr
   (texpr trees).  Packages: ./common/..., ./contracts/..., ./deploy.  Then the VERSION file, the
   deployment order lists of contracts/contracts.go, the contract directories, the
   deployment dependency edges found on the static call graph from each _deploy
   (common.ResolveFSContract / ResolveFSContractWithNNS with a constant name,
   common.InferNNSHash), and the 'version <op> constant' gates of each _deploy. *)
From Coq Require Import ZArith List String.
Import ListNotations.
Local Open Scope string_scope.

(* Integer expressions of the source whose shape matters (vote thresholds, multisig
   sizes, GAS shares), as trees: [TVar x] a variable, [TLen x] len(x), [TC z] a constant. *)
Inductive texpr : Set :=
| TVar (x : string) | TLen (x : string) | TC (z : Z)
| TAdd (a b : texpr) | TSub (a b : texpr) | TMul (a b : texpr) | TDiv (a b : texpr).

`)
	for _, c := range p.Consts {
		switch c.Kind {
		case "Z":
			fmt.Fprintf(&sb, "Definition %s : Z := %s. (* %s *)\n", c.CoqName(), coqZ(c.Int), c.Where)
		case "string":
			fmt.Fprintf(&sb, "Definition %s : string := %s. (* %s *)\n", c.CoqName(), coqStr(c.Str), c.Where)
		case "bool":
			fmt.Fprintf(&sb, "Definition %s : bool := %s. (* %s *)\n", c.CoqName(), coqBool(c.Bool), c.Where)
		case "bytes":
			xs := make([]string, len(c.Bytes))
			for i, b := range c.Bytes {
				xs[i] = strconv.Itoa(int(b))
			}
			lit := "[]"
			if len(xs) > 0 {
				lit = "[" + strings.Join(xs, "; ") + "]%Z"
			}
			fmt.Fprintf(&sb, "Definition %s : list Z := %s. (* %s *)\n", c.CoqName(), lit, c.Where)
		}
	}
	sb.WriteString("\n")
	for _, e := range p.Exprs {
		fmt.Fprintf(&sb, "Definition %s : texpr := %s. (* %s  at %s *)\n", e.CoqName(), coqExpr(e.E), strings.ReplaceAll(e.Src, "*)", "* )"), e.Where)
	}
	sb.WriteString("\n")
	sb.WriteString("\n(* Literals written inline in function bodies of ./common/... and ./contracts/... , in source\n   order: integer/character literals (with repetitions) and string literals that are not messages\n   (no space inside, or nothing but spaces). *)\n")
	seenL := map[string]int{}
	for _, l := range p.Lits {
		base := "p_" + l.Pkg + "_" + l.Func
		seenL[base]++
		if seenL[base] > 1 {
			base = fmt.Sprintf("%s_%d", base, seenL[base])
		}
		if len(l.IntLits) > 0 {
			xs := make([]string, len(l.IntLits))
			for i, z := range l.IntLits {
				xs[i] = z.String()
			}
			fmt.Fprintf(&sb, "Definition %s_intlits : list Z := [%s]%%Z. (* %s *)\n", base, strings.Join(xs, "; "), l.Where)
		}
		if len(l.StrLits) > 0 {
			fmt.Fprintf(&sb, "Definition %s_strlits : list string := %s. (* %s *)\n", base, coqStrList(l.StrLits), l.Where)
		}
	}
	sb.WriteString("\n")
	fmt.Fprintf(&sb, "Definition p_version_file : string := %s. (* VERSION, trailing newline removed *)\n", coqStr(p.VersionFile))
	fmt.Fprintf(&sb, "Definition p_contracts_fsContracts_list : list string := %s.\n", coqStrList(p.FsContracts))
	fmt.Fprintf(&sb, "Definition p_contracts_mainContracts_list : list string := %s.\n", coqStrList(p.MainContracts))
	fmt.Fprintf(&sb, "Definition p_contract_dirs : list string := %s.\n", coqStrList(p.ContractDirs))
	fmt.Fprintf(&sb, "(* NNS domains assigned to syncPrm.domainName in deploy.Deploy (deploy/deploy.go), in source order: the stages after the NNS *)\nDefinition p_deploy_stage_order : list string := %s.\n", coqStrList(p.DeployStages))
	var es []string
	for _, e := range p.Edges {
		es = append(es, fmt.Sprintf("(%s, %s) (* %s, %s *)", coqStr(e.From), coqStr(e.To), e.Via, e.Path))
	}
	sb.WriteString("(* (a, b): the _deploy of contract a resolves contract b, so b must be deployed and registered before a *)\n")
	if len(es) == 0 {
		sb.WriteString("Definition p_deploy_edges : list (string * string) := [].\n")
	} else {
		// comments must not follow the separator-less last element differently: print one per line
		sb.WriteString("Definition p_deploy_edges : list (string * string) := [\n")
		for i, e := range es {
			sep := ";"
			if i == len(es)-1 {
				sep = ""
			}
			j := strings.Index(e, " (*")
			fmt.Fprintf(&sb, "  %s%s%s\n", e[:j], sep, e[j:])
		}
		sb.WriteString("].\n")
	}
	gates := map[string][]string{}
	var gp []string
	for _, g := range p.Gates {
		if _, ok := gates[g.Pkg]; !ok {
			gp = append(gp, g.Pkg)
		}
		gates[g.Pkg] = append(gates[g.Pkg], "("+coqStr(g.Op)+", "+coqZ(g.Value)+")")
	}
	// every contract directory gets a list (possibly empty: a _deploy without a gate)
	for _, d := range p.ContractDirs {
		if _, ok := gates[d]; !ok {
			gates[d] = nil
			gp = append(gp, d)
		}
	}
	sort.Strings(gp)
	for _, k := range gp {
		fmt.Fprintf(&sb, "Definition p_%s_deploy_version_gates : list (string * Z) := %s.\n", k, coqList(gates[k], "; "))
	}
	return sb.String()
}

// WriteIfChanged writes content to path unless it already holds exactly that.
func WriteIfChanged(path, content string) (bool, error) {
	old, err := os.ReadFile(path)
	if err == nil && string(old) == content {
		return false, nil
	}
	return true, os.WriteFile(path, []byte(content), 0o644)
}
