// Command regen does what `make` does in neofs-contract, through the same
// library calls the neo-go CLI makes: it compiles contracts/<name> with the
// pinned compiler version stamp and generates rpc/<name>/rpcbinding.go.
//
//	regen -repo /repo -out DIR [names...]   writes DIR/<name>/{contract.nef,manifest.json,rpcbinding.go}
//	regen -repo /repo -inplace [names...]   overwrites the committed artifacts
package main

import (
	"bytes"
	"flag"
	"fmt"
	"os"
	"path/filepath"

	"encoding/json"
	"github.com/nspcc-dev/neo-go/cli/smartcontract"
	"github.com/nspcc-dev/neo-go/pkg/compiler"
	"github.com/nspcc-dev/neo-go/pkg/config"
	"github.com/nspcc-dev/neo-go/pkg/smartcontract/binding"
	"github.com/nspcc-dev/neo-go/pkg/smartcontract/manifest"
	"github.com/nspcc-dev/neo-go/pkg/smartcontract/rpcbinding"
	"gopkg.in/yaml.v3"
)

var all = []string{"alphabet", "audit", "balance", "container", "neofsid", "netmap", "proxy", "reputation", "neofs", "processing", "nns"}

func main() {
	repo := flag.String("repo", "/repo", "repository root")
	out := flag.String("out", "", "output directory")
	inplace := flag.Bool("inplace", false, "overwrite committed artifacts")
	ver := flag.String("compiler-version", "0.107.0", "compiler version stamp (Makefile: NEOGOVER)")
	flag.Parse()
	names := flag.Args()
	if len(names) == 0 {
		names = all
	}
	config.Version = *ver
	for _, n := range names {
		if err := one(*repo, *out, *inplace, n); err != nil {
			fmt.Fprintf(os.Stderr, "regen %s: %v\n", n, err)
			os.Exit(1)
		}
	}
}

func one(repo, out string, inplace bool, name string) error {
	src := filepath.Join(repo, "contracts", name)
	dst := filepath.Join(out, name)
	rpcOut := filepath.Join(dst, "rpcbinding.go")
	if inplace {
		dst = src
		rpcOut = filepath.Join(repo, "rpc", name, "rpcbinding.go")
	} else if err := os.MkdirAll(dst, 0o755); err != nil {
		return err
	}
	conf, err := smartcontract.ParseContractConfig(filepath.Join(src, "config.yml"))
	if err != nil {
		return err
	}
	bindCfg := filepath.Join(dst, "bindings_config.yml")
	if inplace {
		bindCfg = filepath.Join(os.TempDir(), "verif-bindings-"+name+".yml")
		defer os.Remove(bindCfg)
	}
	o := &compiler.Options{
		Outfile:      filepath.Join(dst, "contract.nef"),
		ManifestFile: filepath.Join(dst, "manifest.json"),
		BindingsFile: bindCfg,
	}
	o.Name = conf.Name
	o.SourceURL = conf.SourceURL
	o.ContractEvents = conf.Events
	o.DeclaredNamedTypes = conf.NamedTypes
	o.ContractSupportedStandards = conf.SupportedStandards
	o.Permissions = make([]manifest.Permission, len(conf.Permissions))
	for i := range conf.Permissions {
		o.Permissions[i] = manifest.Permission(conf.Permissions[i])
	}
	o.SafeMethods = conf.SafeMethods
	o.Overloads = conf.Overloads
	if _, err := compiler.CompileAndSave(src, o); err != nil {
		return err
	}
	// generate-rpcwrapper
	mb, err := os.ReadFile(o.ManifestFile)
	if err != nil {
		return err
	}
	m := new(manifest.Manifest)
	if err := json.Unmarshal(mb, m); err != nil {
		return err
	}
	cfg := binding.NewConfig()
	bs, err := os.ReadFile(bindCfg)
	if err != nil {
		return err
	}
	dec := yaml.NewDecoder(bytes.NewReader(bs))
	dec.KnownFields(true)
	if err := dec.Decode(&cfg); err != nil {
		return err
	}
	cfg.Manifest = m
	if err := os.MkdirAll(filepath.Dir(rpcOut), 0o755); err != nil {
		return err
	}
	f, err := os.Create(rpcOut)
	if err != nil {
		return err
	}
	defer f.Close()
	cfg.Output = f
	return rpcbinding.Generate(cfg)
}
