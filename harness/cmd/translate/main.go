// Command translate regenerates coq/Gen/*.v from /repo's working tree
// (DESIGN.md 2.2 (T)): the committed and freshly regenerated artifacts of all
// contracts (Artifacts.v), the ABI tables and binding call tables (Abi.v) and
// the constants of the Go sources (Params.v).  Output is deterministic and
// written only when it changes.  When a C15 comparison fails it also writes
// diff_C15.json (removed otherwise) naming contract, file and first differing
// byte offset; the exit status stays 0 - deciding the property is Coq's job
// (Props/C15.v no longer compiles) and the monitor's (harness TestC15).
//
//	translate -repo /repo -out /verif/coq/Gen
package main

import (
	"encoding/json"
	"flag"
	"fmt"
	"os"
	"path/filepath"
	"time"

	"verif/harness/c15lib"
)

func main() {
	repo := flag.String("repo", "/repo", "repository root (its working tree is read)")
	out := flag.String("out", "", "output directory (coq/Gen)")
	flag.Parse()
	if *out == "" {
		fmt.Fprintln(os.Stderr, "translate: -out is required")
		os.Exit(2)
	}
	t0 := time.Now()
	abs, err := filepath.Abs(*repo)
	if err != nil {
		fail(err)
	}
	if err := os.MkdirAll(*out, 0o755); err != nil {
		fail(err)
	}
	w, err := c15lib.Build(abs)
	if err != nil {
		fail(err)
	}
	for _, f := range []struct{ name, content string }{
		{"Params.v", w.ParamsV()},
		{"Abi.v", w.AbiV()},
		{"Artifacts.v", w.ArtifactsV()},
	} {
		changed, err := c15lib.WriteIfChanged(filepath.Join(*out, f.name), f.content)
		if err != nil {
			fail(err)
		}
		state := "unchanged"
		if changed {
			state = "written"
		}
		fmt.Printf("translate: %s %s (%d bytes)\n", f.name, state, len(f.content))
	}
	diffs := w.Differences()
	dp := filepath.Join(*out, "diff_C15.json")
	if len(diffs) == 0 {
		_ = os.Remove(dp)
	} else {
		b, _ := json.MarshalIndent(map[string]any{"property": "C15", "repo": abs, "differences": diffs}, "", " ")
		if _, err := c15lib.WriteIfChanged(dp, string(b)+"\n"); err != nil {
			fail(err)
		}
		for _, d := range diffs {
			fmt.Println("translate: C15 difference:", d.String())
		}
	}
	fmt.Printf("translate: %d contracts, %d constants, %d differences, %.1fs\n", len(w.Contracts), len(w.Params.Consts), len(diffs), time.Since(t0).Seconds())
}

func fail(err error) {
	fmt.Fprintln(os.Stderr, "translate:", err)
	os.Exit(1)
}
