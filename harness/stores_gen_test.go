package harness

// C20 harness, second part: audit results and container size estimations.

import (
	"bytes"
	"crypto/sha256"
	"encoding/binary"
	"fmt"
	"math/big"
	"math/rand"
	"os"
	"path/filepath"
	"sort"
	"strings"
	"time"

	"github.com/nspcc-dev/neo-go/pkg/core/native/nativenames"
	"github.com/nspcc-dev/neo-go/pkg/core/native/noderoles"
	"github.com/nspcc-dev/neo-go/pkg/crypto/hash"
	"github.com/nspcc-dev/neo-go/pkg/encoding/bigint"
	"github.com/nspcc-dev/neo-go/pkg/neotest"
	"github.com/nspcc-dev/neo-go/pkg/util"
	"github.com/nspcc-dev/neo-go/pkg/vm/stackitem"
	"github.com/nspcc-dev/neofs-contract/contracts/container/containerconst"
	"github.com/stretchr/testify/require"
)

// ===========================================================================
// 2. audit

const c20NReporters = 3

var (
	c20CidA    = c20Bytes("cidA", 32)
	c20CidOnes = bytes.Repeat([]byte{1}, 32) // [1]++ones is a prefix of [1;1]++ones
	c20CidB    = c20Bytes("cidB", 32)
	c20CidX31  = c20Bytes("cidX31", 31)
	c20Cid1X31 = c20Cat([]byte{1}, c20CidX31) // epoch 1 ++ [1]++x == epoch 257 ++ x
	c20Cid39   = c20Bytes("cid39", 39)
	c20Cid40   = c20Bytes("cid40", 40)
	c20AbsentI = []byte("absent-audit-id")
)

// c20AudRaw lays a DataAuditResult-like message out the way newAuditHeader
// reads it: [tag, vl, version(vl), tag, epoch(8, LE), tag, len, tag, len(cid),
// cid, tag, len(key), key, tail].
func c20AudRaw(version []byte, e *big.Int, cid, from, tail []byte) []byte {
	var eb [8]byte
	binary.LittleEndian.PutUint64(eb[:], uint64(e.Int64()))
	return c20Cat([]byte{0x0A, byte(len(version))}, version, []byte{0x11}, eb[:],
		[]byte{0x1A, byte(len(cid) + 2), 0x0A, byte(len(cid))}, cid, []byte{0x22, byte(len(from))}, from, tail)
}

type c20AudHdr struct {
	e         *big.Int
	cid, from []byte
}

// c20AudParse re-implements newAuditHeader/readNext with the VM's bounds
// checks (ok=false where the contract faults).
func c20AudParse(in []byte) (h c20AudHdr, ok bool) {
	sub := func(b []byte, off, n int) ([]byte, bool) {
		if off < 0 || n < 0 || off+n > len(b) {
			return nil, false
		}
		return b[off : off+n], true
	}
	readNext := func(b []byte) ([]byte, int, bool) {
		if len(b) == 0 {
			return nil, 0, false
		}
		ln := int(b[0])
		d, ok := sub(b, 1, ln)
		return d, 1 + ln, ok
	}
	if len(in) < 2 {
		return h, false
	}
	offset := 2 + int(in[1]) + 1
	eb, ok := sub(in, offset, 8)
	if !ok {
		return h, false
	}
	h.e = bigint.FromBytes(eb)
	offset += 8
	if offset+3 > len(in) {
		return h, false
	}
	cid, cidOff, ok := readNext(in[offset+3:])
	if !ok {
		return h, false
	}
	if offset+3+cidOff+1 > len(in) {
		return h, false
	}
	key, _, ok := readNext(in[offset+3+cidOff+1:])
	if !ok {
		return h, false
	}
	h.cid, h.from = cid, key
	return h, true
}

func c20HK(key []byte) []byte {
	s := sha256.Sum256(key)
	return s[:24]
}

type c20AudOp struct {
	Designate []int // environment step (not part of the trace): new NeoFSAlphabet designation
	Raw       []byte
	Signers   []int // reporter indices signing the transaction; -1 = a stranger, -2 = the Alphabet (committee) account
}

type c20AudHistory struct {
	Name    string
	Crafted bool
	Epochs  []*big.Int
	Cids    [][]byte
	Ops     []c20AudOp
}

type c20AudEntry struct {
	e         *big.Int
	cid, from []byte
	key       []byte
	raw       []byte
}

type c20AudMon struct {
	h       *c20Hist
	entries map[string]*c20AudEntry // by the numbers (epoch, cid, reporter)
	byKey   map[string][]byte       // storage key -> last raw accepted
}

func c20NumKey(e *big.Int, parts ...[]byte) string {
	s := e.String()
	for _, p := range parts {
		s += "|" + Hex(p)
	}
	return s
}

func (m *c20AudMon) sorted() []*c20AudEntry {
	var ks []string
	for k := range m.entries {
		ks = append(ks, k)
	}
	sort.Strings(ks)
	out := make([]*c20AudEntry, len(ks))
	for i, k := range ks {
		out[i] = m.entries[k]
	}
	return out
}

// listing checks one listing with storage prefix q: own selects the entries it
// must return; an entry of a DIFFERENT epoch whose storage key properly
// extends q is the signature of finding knownID.
func (m *c20AudMon) listing(what string, e *big.Int, q []byte, own func(*c20AudEntry) bool, knownID string, got [][]byte) {
	exp := map[string]bool{}
	for _, x := range m.sorted() {
		if own(x) {
			exp[string(x.key)] = true
		}
	}
	seen := map[string]bool{}
	var foreign []string
	for _, id := range got {
		if seen[string(id)] {
			m.h.violate(fmt.Sprintf("audit.%s lists %s twice", what, Hex(id)))
		}
		seen[string(id)] = true
		if exp[string(id)] {
			continue
		}
		explained, exists := false, false
		for _, x := range m.sorted() {
			if !bytes.Equal(x.key, id) {
				continue
			}
			exists = true
			if knownID != "" && x.e.Cmp(e) != 0 && len(x.key) > len(q) && bytes.HasPrefix(x.key, q) {
				explained = true
				foreign = append(foreign, fmt.Sprintf("%s put under epoch %s, container %s", Hex(id), x.e, Hex(x.cid)))
			}
		}
		switch {
		case explained:
		case exists && m.h.crafted:
			m.h.note("audit (crafted container-id lengths): " + strings.SplitN(what, "(", 2)[0] + " returned an entry of other numbers")
		case exists:
			m.h.violate(fmt.Sprintf("audit.%s returned %s which was put under other numbers (not the known signature)", what, Hex(id)))
		default:
			m.h.violate(fmt.Sprintf("audit.%s returned %s which was never put", what, Hex(id)))
		}
	}
	for id := range exp {
		if !seen[id] {
			m.h.violate(fmt.Sprintf("audit.%s misses %s", what, Hex([]byte(id))))
		}
	}
	if len(foreign) > 0 {
		m.h.known(knownID, map[string]any{"query": what, "returned": c20HexList(got), "foreign": foreign})
	}
}

func (o c20AudOp) String() string {
	if o.Designate != nil {
		return fmt.Sprintf("[designate NeoFSAlphabet := reporters %v]", o.Designate)
	}
	return fmt.Sprintf("audit.put(raw=%s, signers=reporters %v (-1 stranger, -2 Alphabet account))", Hex(o.Raw), o.Signers)
}

func c20RunAudit(run *c20Run, p *c20Pool, hs c20AudHistory, corpus bool) string {
	t := run.t
	v := NewEnv(t)
	c := v.Compile("audit")
	v.E.DeployContract(t, c, []any{false})
	require.Empty(t, v.StorageDump(c.Hash), "audit: storage not empty after deploy")
	roles := v.E.NativeHash(t, nativenames.Designation)
	var reps []neotest.SingleSigner
	var pubs, hks [][]byte
	var fund []neotest.Signer
	for i := 0; i < c20NReporters; i++ {
		s := c20Signer("reporter", i)
		reps = append(reps, s)
		pubs = append(pubs, c20Pub(s))
		hks = append(hks, c20HK(c20Pub(s)))
		fund = append(fund, s)
		p.Atom(pubs[i])
		p.Atom(hks[i])
	}
	audStranger := c20Signer("stranger", 0)
	fund = append(fund, audStranger)
	c20Fund(v, fund...)
	for _, cid := range hs.Cids {
		p.Atom(cid)
	}

	h := run.newHist("audit", hs.Name, corpus)
	h.crafted = hs.Crafted
	m := &c20AudMon{h: h, entries: map[string]*c20AudEntry{}, byKey: map[string][]byte{}}
	var steps []string
	for _, op := range hs.Ops {
		if op.Designate != nil {
			ks := make([]any, len(op.Designate))
			for i, k := range op.Designate {
				ks[i] = pubs[k]
			}
			r := v.Invoke([]neotest.Signer{v.E.Committee}, roles, "designateAsRole", int64(noderoles.NeoFSAlphabet), ks)
			require.True(t, r.Halt, r.Fault)
			h.ops = append(h.ops, op.String())
			continue
		}
		// environment of the call, read on the chain just before it
		irIt, err := v.Read(roles, "getDesignatedByRole", int64(noderoles.NeoFSAlphabet), int64(v.BC.BlockHeight()+1))
		require.NoError(t, err)
		ir := c20BytesList(t, irIt)
		var sg []neotest.Signer
		var wit [][]byte
		for _, i := range op.Signers {
			switch {
			case i == -2: // the Alphabet multi-signature account: witnesses no single key
				sg = append(sg, v.E.Committee)
			case i < 0:
				sg = append(sg, audStranger)
				wit = append(wit, c20Pub(audStranger))
			default:
				sg = append(sg, reps[i])
				wit = append(wit, pubs[i])
			}
		}
		hdr, parsed := c20AudParse(op.Raw)
		var hk, key []byte
		if parsed {
			hk = c20HK(hdr.from)
			key = c20Cat(c20Enc(hdr.e), hdr.cid, hk)
		}
		r := v.Invoke(sg, c.Hash, "put", op.Raw)
		h.op("put", op.String(), r.Halt, true)

		// monitor: who may put
		inList := func(l [][]byte, x []byte) bool {
			for _, y := range l {
				if bytes.Equal(x, y) {
					return true
				}
			}
			return false
		}
		isIR, isWit := parsed && inList(ir, hdr.from), parsed && inList(wit, hdr.from)
		switch {
		case r.Halt && !parsed:
			h.violate("audit.put accepted a result whose header cannot be parsed")
		case r.Halt && !isIR:
			h.violate("audit.put accepted a result from a reporter that is not an Inner Ring member")
		case r.Halt && !isWit:
			h.violate("audit.put accepted a result not witnessed by its reporter")
		case r.Halt && len(key) > 64:
			h.violate("audit.put accepted a storage key longer than 64 bytes")
		case !r.Halt && isIR && isWit && len(key) <= 64:
			h.violate("audit.put of a witnessed Inner Ring reporter refused")
		}
		if r.Halt {
			nk := c20NumKey(hdr.e, hdr.cid, hdr.from)
			if !hs.Crafted {
				for k2, x := range m.entries {
					if k2 != nk && bytes.Equal(x.key, key) {
						h.violate("audit: two different (epoch, container, reporter) share the storage key " + Hex(key))
					}
				}
			}
			m.entries[nk] = &c20AudEntry{e: hdr.e, cid: hdr.cid, from: hdr.from, key: key, raw: op.Raw}
			m.byKey[string(key)] = op.Raw
		}

		res := VNull
		if !r.Halt {
			res = VFault
		}
		all, fault, _ := c20ReadList(v, c.Hash, "list")
		require.False(t, fault)
		m.listing("list()", nil, nil, func(*c20AudEntry) bool { return true }, "", all)
		var byE, byC, byN []string
		for _, e := range hs.Epochs {
			e := e
			ids, fault, null := c20ReadList(v, c.Hash, "listByEpoch", e)
			require.False(t, fault)
			if null {
				h.note("audit listings return Null when empty (projected to [])")
			}
			m.listing(fmt.Sprintf("listByEpoch(%s)", e), e, c20Enc(e), func(x *c20AudEntry) bool { return x.e.Cmp(e) == 0 }, "C20/audit.listByEpoch", ids)
			byE = append(byE, p.BL(ids))
			var rowC, rowN []string
			for _, cid := range hs.Cids {
				cid := cid
				ids, fault, _ := c20ReadList(v, c.Hash, "listByCID", e, cid)
				require.False(t, fault)
				m.listing(fmt.Sprintf("listByCID(%s, %s)", e, Hex(cid)), e, c20Cat(c20Enc(e), cid),
					func(x *c20AudEntry) bool { return x.e.Cmp(e) == 0 && bytes.Equal(x.cid, cid) }, "C20/audit.listByCID", ids)
				rowC = append(rowC, p.BL(ids))
				var cell []string
				for k := range pubs {
					k := k
					q := c20Cat(c20Enc(e), cid, hks[k])
					ids, fault, _ := c20ReadList(v, c.Hash, "listByNode", e, cid, pubs[k])
					if fault {
						if len(q) <= 64 {
							h.violate(fmt.Sprintf("audit.listByNode(%s, %s, reporter %d) faulted", e, Hex(cid), k))
						}
						h.note("audit.listByNode faults when epoch++cid++hash is longer than 64 bytes (storage.Find key buffer)")
						cell = append(cell, VFault)
						continue
					}
					m.listing(fmt.Sprintf("listByNode(%s, %s, reporter %d)", e, Hex(cid), k), e, q,
						func(x *c20AudEntry) bool {
							return x.e.Cmp(e) == 0 && bytes.Equal(x.cid, cid) && bytes.Equal(x.from, pubs[k])
						}, "", ids)
					cell = append(cell, p.BL(ids))
				}
				rowN = append(rowN, p.VL(cell))
			}
			byC = append(byC, p.VL(rowC))
			byN = append(byN, p.VL(rowN))
		}
		var gets []string
		for _, id := range append(append([][]byte{}, all...), c20AbsentI) {
			it, err := v.Read(c.Hash, "get", id)
			if err != nil {
				h.violate("audit.get(" + Hex(id) + ") faulted: " + err.Error())
				gets = append(gets, VFault)
				continue
			}
			want, present := m.byKey[string(id)]
			if c20IsNull(it) {
				if present {
					h.violate("audit.get(" + Hex(id) + ") is Null for a stored result")
				} else {
					h.note("audit.get of an absent id returns Null (no fault)")
				}
				gets = append(gets, VNull)
				continue
			}
			b, err := it.TryBytes()
			require.NoError(t, err)
			if !present || !bytes.Equal(b, want) {
				h.violate("audit.get(" + Hex(id) + ") does not return the result put under it")
			}
			gets = append(gets, p.VB(b))
		}
		obs := VList([]string{res, p.BL(all), p.VL(byE), p.VL(byC), p.VL(byN), p.VL(gets)})
		steps = append(steps, fmt.Sprintf("(APut %s %s %s %s, %s)", p.Refs(ir), p.Refs(wit), p.Ref(op.Raw), p.Ref(hk), p.T(obs)))
	}
	h.finish()
	return fmt.Sprintf("((%s, %s, %s, %s), %s)", c20ZList(hs.Epochs), p.Refs(hs.Cids), p.Refs(hks), p.Ref(c20AbsentI), ListLit(steps))
}

func c20AuditCorpus() []c20AudHistory {
	E := c20Big
	pub := func(i int) []byte { return c20Pub(c20Signer("reporter", i)) }
	put := func(e *big.Int, cid []byte, from int, tail byte, signers ...int) c20AudOp {
		if signers == nil {
			signers = []int{from}
		}
		return c20AudOp{Raw: c20AudRaw(nil, e, cid, pub(from), []byte{0x28, tail}), Signers: signers}
	}
	des := func(ks ...int) c20AudOp { return c20AudOp{Designate: ks} }
	good := c20AudRaw([]byte{8, 2, 16, 13}, E(256), c20CidA, pub(0), []byte{0x28, 1})
	trunc := func(n int) c20AudOp { return c20AudOp{Raw: good[:n], Signers: []int{0}} }
	rawWith := func(f func(b []byte)) c20AudOp {
		b := append([]byte{}, good...)
		f(b)
		return c20AudOp{Raw: b, Signers: []int{0}}
	}
	return []c20AudHistory{
		{Name: "F2-epochs-1-257-0", Epochs: []*big.Int{E(1), E(257), E(0), E(256)}, Cids: [][]byte{c20CidOnes, c20CidA},
			Ops: []c20AudOp{des(0, 1), put(E(257), c20CidA, 1, 1), put(E(1), c20CidA, 0, 2), put(E(257), c20CidOnes, 1, 3), put(E(1), c20CidOnes, 0, 4), put(E(0), c20CidA, 0, 5)}},
		{Name: "access", Epochs: []*big.Int{E(1), E(257), E(0)}, Cids: [][]byte{c20CidA, c20CidB},
			Ops: []c20AudOp{put(E(1), c20CidA, 0, 1), des(0), put(E(1), c20CidA, 0, 2), put(E(1), c20CidA, 1, 3), put(E(1), c20CidA, 0, 4, 1),
				put(E(1), c20CidB, 0, 5, 1, 0), put(E(1), c20CidA, 0, 6), des(1, 2), put(E(1), c20CidA, 0, 7), put(E(257), c20CidA, 1, 8),
				put(E(257), c20CidB, 2, 9, 0, 2), put(E(0), c20CidB, 2, 10, 0)}},
		// the reporter named in the result must itself witness: the Alphabet account alone, another Inner
		// Ring member alone, a stranger, or any of them together do not count
		{Name: "signer-sets", Epochs: []*big.Int{E(1), E(2), E(0)}, Cids: [][]byte{c20CidA, c20CidB},
			Ops: []c20AudOp{des(0, 1), put(E(1), c20CidA, 0, 1, -2), put(E(1), c20CidA, 0, 2, 1), put(E(1), c20CidA, 0, 3, -2, 1), put(E(1), c20CidA, 0, 4, -1),
				put(E(1), c20CidA, 0, 5), put(E(1), c20CidA, 0, 6, -2), put(E(1), c20CidA, 0, 7, 1, -1), put(E(2), c20CidB, 1, 8, 0), put(E(2), c20CidB, 1, 9, -2, 1),
				put(E(2), c20CidB, 2, 10, -2), put(E(2), c20CidB, 2, 11, 2, -2), put(E(2), c20CidB, 0, 12, -1, 0)}},
		{Name: "malformed", Crafted: true, Epochs: []*big.Int{E(256), E(0), E(65792)}, Cids: [][]byte{c20CidA, {}},
			Ops: []c20AudOp{des(0, 1, 2), {Raw: nil, Signers: []int{0}}, {Raw: []byte{0x0A}, Signers: []int{0}}, trunc(2), trunc(10), trunc(15), trunc(19),
				trunc(30), trunc(51), trunc(53), trunc(85), trunc(len(good) - 2), trunc(len(good)),
				rawWith(func(b []byte) { b[1] = 250 }), rawWith(func(b []byte) { b[18] = 200 }), rawWith(func(b []byte) { b[52] = 32 }),
				rawWith(func(b []byte) { b[52] = 35 }), rawWith(func(b []byte) { b[18] = 0 }),
				{Raw: c20AudRaw(nil, E(65792), nil, pub(1), nil), Signers: []int{1}}}},
		{Name: "crafted-cid-lengths", Crafted: true, Epochs: []*big.Int{E(1), E(257), E(0)}, Cids: [][]byte{c20Cid1X31, c20CidX31},
			Ops: []c20AudOp{des(0, 1), put(E(257), c20CidX31, 0, 1), put(E(1), c20Cid1X31, 0, 2), put(E(1), c20Cid1X31, 1, 3), put(E(257), c20CidX31, 1, 4)}},
		{Name: "key-limit", Crafted: true, Epochs: []*big.Int{E(1), E(256), E(0)}, Cids: [][]byte{c20Cid39, c20Cid40},
			Ops: []c20AudOp{des(0), put(E(1), c20Cid40, 0, 1), put(E(1), c20Cid39, 0, 2), put(E(256), c20Cid39, 0, 3), put(E(0), c20Cid40, 0, 4)}},
		{Name: "signed-epochs", Epochs: []*big.Int{E(-1), E(255), E(65535), c20Two31, E(128)}, Cids: [][]byte{c20CidA, c20CidB},
			Ops: []c20AudOp{des(0, 1, 2), put(E(255), c20CidA, 0, 1), put(E(-1), c20CidB, 1, 2), put(E(65535), c20CidA, 2, 3), put(c20Two31, c20CidB, 0, 4),
				put(E(128), c20CidA, 1, 5), put(E(255), c20CidA, 0, 6), put(E(-1), c20CidA, 0, 7)}},
	}
}

func c20AuditRandom(r *rand.Rand, i int) c20AudHistory {
	hs := c20AudHistory{Name: fmt.Sprintf("random-%d", i)}
	hs.Epochs = c20SubPool(r, 4)
	for _, e := range hs.Epochs { // the header carries a fixed64
		if !e.IsInt64() {
			panic("epoch")
		}
	}
	cids := [][]byte{c20CidA, c20CidOnes, c20CidB}
	r.Shuffle(len(cids), func(a, b int) { cids[a], cids[b] = cids[b], cids[a] })
	hs.Cids = cids[:2+r.Intn(2)]
	subset := func() []int {
		var s []int
		for len(s) == 0 {
			for k := 0; k < c20NReporters; k++ {
				if r.Intn(2) == 0 {
					s = append(s, k)
				}
			}
		}
		return s
	}
	if r.Intn(6) != 0 {
		hs.Ops = append(hs.Ops, c20AudOp{Designate: subset()})
	}
	n := 6 + r.Intn(6)
	for k := 0; k < n; k++ {
		if r.Intn(9) == 0 {
			hs.Ops = append(hs.Ops, c20AudOp{Designate: subset()})
			continue
		}
		from := r.Intn(c20NReporters)
		cid := hs.Cids[r.Intn(len(hs.Cids))]
		if r.Intn(15) == 0 {
			cid = cids[2]
		}
		var ver []byte
		if r.Intn(4) == 0 {
			ver = []byte{8, 2}
		}
		raw := c20AudRaw(ver, hs.Epochs[r.Intn(len(hs.Epochs))], cid, c20Pub(c20Signer("reporter", from)), []byte{0x28, byte(r.Intn(3))})
		op := c20AudOp{Raw: raw, Signers: []int{from}}
		switch r.Intn(14) {
		case 0:
			op.Signers = []int{(from + 1) % c20NReporters}
		case 1:
			op.Signers = []int{(from + 1) % c20NReporters, from}
		case 2:
			op.Raw = raw[:r.Intn(len(raw))]
		case 3:
			op.Signers = []int{-2}
		case 4:
			op.Signers = []int{-2, (from + 1) % c20NReporters}
		case 5:
			op.Signers = [][]int{{-1}, {-2, from}, {-1, from}, {-2, -1}}[r.Intn(4)]
		}
		hs.Ops = append(hs.Ops, op)
	}
	return hs
}

func c20AuditFamily(run *c20Run, batch int) {
	p := c20NewPool("Au")
	var cases []string
	if batch == 0 {
		for _, hs := range c20AuditCorpus() {
			cases = append(cases, c20RunAudit(run, p, hs, true))
		}
	}
	r := Rng(2002 + int64(batch))
	for i := 0; i < 55; i++ {
		cases = append(cases, c20RunAudit(run, p, c20AuditRandom(r, batch*1000+i), false))
	}
	f := c20FileName("audit", batch)
	run.sizes[f] = c20WriteCases(run.t, f, "Audit", "acheck_case", p, cases)
}

// ===========================================================================
// 5. container size estimations

const (
	c20ContainerFee = 1_0000_0000
	c20NNodes       = 3
	c20NConts       = 3
)

type c20EstOp struct {
	Kind    string   // put | tick | nmtick | addpeer | offline | delete
	E       *big.Int // put
	Cid     int      // put: index into the history's cid pool; delete: container index
	Size    *big.Int // put
	Pub     int      // put: node whose key is passed; addpeer/offline: node
	Signers []int    // put: node indices signing; -1 = the stranger account, -2 = the Alphabet account, -3 = the committee-majority account
	Alpha   bool     // tick
	Maj     bool     // tick: signed by the committee-majority account alone (differs from the Alphabet's on a 7-key chain)
	N       *big.Int // tick
	Step    int64    // nmtick: netmap.newEpoch(cur+Step)
}

type c20EstHistory struct {
	Name   string
	NCmt   int // committee size of the chain (0/1: one key)
	Epochs []*big.Int
	NConts int  // containers created at the start (1..3)
	Ghost  bool // the cid pool also contains an id that never existed
	Ops    []c20EstOp
}

type c20EstEntry struct {
	e    *big.Int
	cid  []byte
	node int
	size *big.Int
	key  []byte
}

type c20EstEnv struct {
	*Env
	netmap, balance, container util.Uint160
	nodes                      []neotest.SingleSigner
	pubs, h20s, infos          [][]byte
	stranger                   neotest.SingleSigner
	auth                       c20Auth
	conts                      [][]byte // container blobs
	cids                       [][]byte
	cur                        int64
}

func c20NewEstEnv(run *c20Run, nconts int, ncmt ...int) *c20EstEnv {
	t := run.t
	nc := 0
	if len(ncmt) > 0 {
		nc = ncmt[0]
	}
	v, auth := c20Chain(t, nc)
	e := v.E
	x := &c20EstEnv{Env: v, auth: auth}
	nns := v.Compile("nns")
	c20Deploy(v, auth, nns, []any{[]any{[]any{"neofs", "ops@nspcc.io"}}})
	reg := func(name string, h util.Uint160) {
		inv := e.CommitteeInvoker(nns.Hash)
		inv.Invoke(t, true, "register", name+".neofs", e.CommitteeHash, "ops@nspcc.ru", int64(3600), int64(600), int64(10*365*24*3600*1000), int64(3600))
		inv.Invoke(t, nil, "addRecord", name+".neofs", 16, h.StringLE())
	}
	nm, bal, ctr := v.Compile("netmap"), v.Compile("balance"), v.Compile("container")
	c20Deploy(v, auth, nm, []any{false, util.Uint160{}, util.Uint160{}, []any{},
		[]any{containerconst.RegistrationFeeKey, int64(c20ContainerFee), containerconst.AliasFeeKey, int64(c20ContainerFee / 2)}})
	reg("netmap", nm.Hash)
	c20Deploy(v, auth, bal, []any{false, nm.Hash, ctr.Hash})
	reg("balance", bal.Hash)
	c20Deploy(v, auth, ctr, []any{int64(0), nm.Hash, bal.Hash, util.Uint160{}, nns.Hash, nil})
	reg("container", ctr.Hash)
	x.netmap, x.balance, x.container = nm.Hash, bal.Hash, ctr.Hash

	x.stranger = c20Signer("stranger", 0)
	fund := []neotest.Signer{x.stranger}
	for i := 0; i < c20NNodes; i++ {
		s := c20Signer("node", i)
		x.nodes = append(x.nodes, s)
		pub := c20Pub(s)
		x.pubs = append(x.pubs, pub)
		x.h20s = append(x.h20s, hash.RipeMD160(pub).BytesBE())
		info := c20Bytes(fmt.Sprintf("nodeinfo-%d", i), 66)
		copy(info[2:], pub)
		x.infos = append(x.infos, info)
		fund = append(fund, s)
	}
	c20Fund(v, fund...)
	for i := 0; i < nconts; i++ {
		owner := c20Signer("cowner", i)
		val := c20Bytes(fmt.Sprintf("container-%d", i), 100)
		val[1] = 0
		copy(val[6:], c20Cat([]byte{0x35}, owner.ScriptHash().BytesBE(), []byte{1, 2, 3, 4}))
		r := v.Invoke([]neotest.Signer{auth.alpha}, bal.Hash, "mint", owner.ScriptHash(), int64(c20ContainerFee)*int64(max(nc, 1)), []byte{}) // the fee is charged once per Alphabet node
		require.True(t, r.Halt, r.Fault)
		r = v.Invoke([]neotest.Signer{auth.alpha}, ctr.Hash, "put", val, c20Bytes("csig", 64), c20Bytes("cpub", 33), c20Bytes("ctoken", 42))
		require.True(t, r.Halt, r.Fault)
		id := sha256.Sum256(val)
		x.conts = append(x.conts, val)
		x.cids = append(x.cids, id[:])
	}
	return x
}

var c20GhostCid = c20Bytes("ghost-container", 32)

func (x *c20EstEnv) live() [][]byte {
	it, err := x.Read(x.container, "list", nil)
	require.NoError(x.T, err)
	return c20BytesList(x.T, it)
}

func (x *c20EstEnv) prev() [][]byte {
	it, err := x.Read(x.netmap, "snapshot", int64(1))
	require.NoError(x.T, err)
	arr, ok := it.Value().([]stackitem.Item)
	require.True(x.T, ok)
	var out [][]byte
	for _, n := range arr {
		f := n.Value().([]stackitem.Item)
		blob, err := f[0].TryBytes()
		require.NoError(x.T, err)
		out = append(out, blob[2:35])
	}
	return out
}

func c20In(l [][]byte, b []byte) bool {
	for _, y := range l {
		if bytes.Equal(y, b) {
			return true
		}
	}
	return false
}

// c20EstItem projects an Estimation structure [from, size].
func c20EstItem(t require.TestingT, it stackitem.Item) ([]byte, *big.Int) {
	f, ok := it.Value().([]stackitem.Item)
	require.True(t, ok)
	require.Len(t, f, 2)
	from, err := f[0].TryBytes()
	require.NoError(t, err)
	sz, err := f[1].TryInteger()
	require.NoError(t, err)
	return from, sz
}

type c20EstMon struct {
	h       *c20Hist
	x       *c20EstEnv
	entries map[string]*c20EstEntry // by (epoch, cid, node)
	liveSet map[string]bool
}

func (m *c20EstMon) sorted() []*c20EstEntry {
	var ks []string
	for k := range m.entries {
		ks = append(ks, k)
	}
	sort.Strings(ks)
	out := make([]*c20EstEntry, len(ks))
	for i, k := range ks {
		out[i] = m.entries[k]
	}
	return out
}

func (m *c20EstMon) estStr(node int, size *big.Int) string {
	return Hex(m.x.pubs[node]) + ":" + size.String()
}

func (o c20EstOp) String() string {
	switch o.Kind {
	case "put":
		return fmt.Sprintf("container.putContainerSize(epoch=%s, cid#%d, size=%s, key=node %d; signers=nodes %v (-1 stranger, -2 Alphabet account, -3 committee-majority account))", o.E, o.Cid, o.Size, o.Pub, o.Signers)
	case "tick":
		return fmt.Sprintf("container.newEpoch(%s) alpha=%v majority-only=%v", o.N, o.Alpha, o.Maj)
	case "nmtick":
		return fmt.Sprintf("netmap.newEpoch(cur+%d)", o.Step)
	case "addpeer":
		return fmt.Sprintf("[netmap.addPeer(node %d)]", o.Pub)
	case "offline":
		return fmt.Sprintf("[netmap.updateState(Offline, node %d)]", o.Pub)
	case "delete":
		return fmt.Sprintf("[container.delete(cid#%d)]", o.Cid)
	}
	return o.Kind
}

func c20RunEst(run *c20Run, p *c20Pool, hs c20EstHistory, corpus bool) string {
	t := run.t
	x := c20NewEstEnv(run, hs.NConts, hs.NCmt)
	v := x.Env
	d1, d2 := int64(containerconst.CleanupDelta), int64(containerconst.TotalCleanupDelta)
	pool := append([][]byte{}, x.cids...)
	if hs.Ghost {
		pool = append(pool, c20GhostCid)
	}
	for _, c := range pool {
		p.Atom(c)
	}
	for i := range x.pubs {
		p.Atom(x.pubs[i])
		p.Atom(x.h20s[i][:10])
		p.Atom(x.h20s[i])
	}

	h := run.newHist("est", hs.Name, corpus)
	m := &c20EstMon{h: h, x: x, entries: map[string]*c20EstEntry{}, liveSet: map[string]bool{}}
	for _, c := range x.cids {
		m.liveSet[string(c)] = true
	}
	var steps []string
	for _, op := range hs.Ops {
		var coqOp string
		var r Result
		switch op.Kind {
		case "addpeer":
			r = v.Invoke([]neotest.Signer{x.auth.alpha, x.nodes[op.Pub]}, x.netmap, "addPeer", x.infos[op.Pub])
			require.True(t, r.Halt, r.Fault)
			h.ops = append(h.ops, op.String())
			continue
		case "offline":
			r = v.Invoke([]neotest.Signer{x.auth.alpha, x.nodes[op.Pub]}, x.netmap, "updateState", int64(2), x.pubs[op.Pub])
			require.True(t, r.Halt, r.Fault)
			h.ops = append(h.ops, op.String())
			continue
		case "delete":
			r = v.Invoke([]neotest.Signer{x.auth.alpha}, x.container, "delete", x.cids[op.Cid], c20Bytes("csig", 64), c20Bytes("ctoken", 42))
			require.True(t, r.Halt, r.Fault)
			delete(m.liveSet, string(x.cids[op.Cid]))
			h.ops = append(h.ops, op.String())
			continue
		case "nmtick":
			n := x.cur + op.Step
			r = v.Invoke([]neotest.Signer{x.auth.alpha}, x.netmap, "newEpoch", n)
			require.True(t, r.Halt, "netmap.newEpoch(%d): %s", n, r.Fault)
			x.cur = n
			h.op("tick", fmt.Sprintf("netmap.newEpoch(%d) -> container.newEpoch(%d)", n, n), true, false)
			m.tick(big.NewInt(n), d2)
			coqOp = fmt.Sprintf("ETick true %s", ZI(n))
		case "tick":
			sg := []neotest.Signer{x.auth.alpha}
			if !op.Alpha {
				sg = []neotest.Signer{x.stranger}
				if op.Maj { // the committee-majority account is not the Alphabet account (when they differ)
					sg = []neotest.Signer{x.auth.major}
					op.Alpha = !x.auth.differ
				}
			}
			r = v.Invoke(sg, x.container, "newEpoch", op.N)
			h.op("tick", op.String(), r.Halt, false)
			switch {
			case r.Halt && !op.Alpha:
				h.violate("container.newEpoch accepted without the Alphabet witness")
			case !r.Halt && op.Alpha:
				h.violate("container.newEpoch by the Alphabet refused: " + r.Fault)
			}
			if r.Halt {
				m.tick(op.N, d2)
			}
			coqOp = fmt.Sprintf("ETick %s %s", BoolLit(op.Alpha), ZLit(op.N))
		case "put":
			live, prev := x.live(), x.prev()
			if len(live) != len(m.liveSet) {
				h.violate("container.list disagrees with the containers created and not deleted")
			}
			for _, c := range live {
				if !m.liveSet[string(c)] {
					h.violate("container.list returns a container that was deleted or never created")
				}
			}
			var sg []neotest.Signer
			var wit [][]byte
			// only single keys witness a key; the Alphabet / committee-majority
			// multi-signature accounts witness no node key
			for _, i := range op.Signers {
				switch {
				case i == -2:
					sg = append(sg, x.auth.alpha)
				case i == -3:
					sg = append(sg, x.auth.major)
				case i < 0:
					sg = append(sg, x.stranger)
					wit = append(wit, c20Pub(x.stranger))
				default:
					sg = append(sg, x.nodes[i])
					wit = append(wit, x.pubs[i])
				}
			}
			if !x.auth.differ { // one account: do not sign twice
				seen := map[util.Uint160]bool{}
				var sg2 []neotest.Signer
				for _, y := range sg {
					if !seen[y.ScriptHash()] {
						seen[y.ScriptHash()] = true
						sg2 = append(sg2, y)
					}
				}
				sg = sg2
			}
			cid, pub := pool[op.Cid], x.pubs[op.Pub]
			r = v.Invoke(sg, x.container, "putContainerSize", op.E, cid, op.Size, pub)
			h.op("put", op.String(), r.Halt, true)
			okLive, okWit, okNode := m.liveSet[string(cid)], c20In(wit, pub), c20In(prev, pub)
			switch {
			case r.Halt && !okLive:
				h.violate("putContainerSize accepted for a container that does not exist")
			case r.Halt && !okWit:
				h.violate("putContainerSize accepted without the witness of the node key")
			case r.Halt && !okNode:
				h.violate("putContainerSize accepted from a key that is not in the previous epoch's network map")
			case !r.Halt && okLive && okWit && okNode:
				h.violate("putContainerSize of a witnessed storage node refused: " + r.Fault)
			}
			if r.Halt {
				m.put(op, cid, d1)
			}
			coqOp = fmt.Sprintf("EPut %s %s %s %s %s %s %s %s", p.Refs(live), p.Refs(wit), p.Refs(prev), ZLit(op.E), p.Ref(cid), ZLit(op.Size), p.Ref(pub), p.Ref(x.h20s[op.Pub]))
		default:
			panic(op.Kind)
		}

		res := VNull
		if !r.Halt {
			res = VFault
		}
		var ls, its, alls, gets []string
		for _, e := range hs.Epochs {
			ids, fault, null := c20ReadList(v, x.container, "listContainerSizes", e)
			require.False(t, fault)
			if null {
				h.note("container.listContainerSizes returns Null when empty (projected to [])")
			}
			m.checkList(e, ids)
			ls = append(ls, p.BL(ids))
			var row []string
			for _, cid := range pool {
				it, err := v.Read(x.container, "iterateContainerSizes", e, cid)
				require.NoError(t, err)
				var cell, got []string
				for _, est := range it.Value().([]stackitem.Item) {
					from, sz := c20EstItem(t, est)
					cell = append(cell, p.T(VList([]string{p.VB(from), VInt(sz)})))
					got = append(got, Hex(from)+":"+sz.String())
				}
				var exp []string
				for _, en := range m.sorted() {
					if en.e.Cmp(e) == 0 && bytes.Equal(en.cid, cid) {
						exp = append(exp, m.estStr(en.node, en.size))
					}
				}
				extra, missing := c20MultisetDiff(got, exp)
				if len(extra)+len(missing) > 0 {
					h.violate(fmt.Sprintf("container.iterateContainerSizes(%s, %s): unexpected %v, missing %v", e, Hex(cid), extra, missing))
				}
				row = append(row, p.VL(cell))
			}
			its = append(its, p.VL(row))
			it, err := v.Read(x.container, "iterateAllContainerSizes", e)
			require.NoError(t, err)
			var cell []string
			var gotK [][]byte
			var gotV []string
			for _, kv := range it.Value().([]stackitem.Item) {
				f := kv.Value().([]stackitem.Item)
				require.Len(t, f, 2)
				k, err := f[0].TryBytes()
				require.NoError(t, err)
				from, sz := c20EstItem(t, f[1])
				cell = append(cell, p.T(VList([]string{p.VB(k), p.T(VList([]string{p.VB(from), VInt(sz)}))})))
				gotK = append(gotK, k)
				gotV = append(gotV, Hex(from)+":"+sz.String())
			}
			m.checkIterAll(e, gotK, gotV)
			alls = append(alls, p.VL(cell))
		}
		ids0, fault, _ := c20ReadList(v, x.container, "listContainerSizes", big.NewInt(0))
		require.False(t, fault)
		for _, id := range ids0 {
			it, err := v.Read(x.container, "getContainerSize", id)
			if err != nil {
				h.violate("container.getContainerSize(" + Hex(id) + ") faulted")
				gets = append(gets, VFault)
				continue
			}
			f := it.Value().([]stackitem.Item)
			require.Len(t, f, 2)
			cid, err := f[0].TryBytes()
			require.NoError(t, err)
			var cell, got []string
			if !c20IsNull(f[1]) {
				for _, est := range f[1].Value().([]stackitem.Item) {
					from, sz := c20EstItem(t, est)
					cell = append(cell, p.T(VList([]string{p.VB(from), VInt(sz)})))
					got = append(got, Hex(from)+":"+sz.String())
				}
			}
			// the id is taken as given: "cnr" ++ epoch bytes ++ cid
			ide := bigint.FromBytes(id[3 : len(id)-32])
			var exp []string
			for _, en := range m.sorted() {
				if en.e.Cmp(ide) == 0 && bytes.Equal(en.cid, id[len(id)-32:]) {
					exp = append(exp, m.estStr(en.node, en.size))
				}
			}
			extra, missing := c20MultisetDiff(got, exp)
			if len(extra)+len(missing) > 0 || !bytes.Equal(cid, id[len(id)-32:]) {
				h.violate(fmt.Sprintf("container.getContainerSize(%s): unexpected %v, missing %v", Hex(id), extra, missing))
			}
			gets = append(gets, p.T(VList([]string{p.VB(cid), p.VL(cell)})))
		}
		obs := VList([]string{res, p.VL(ls), p.VL(its), p.VL(alls), p.VL(gets)})
		steps = append(steps, fmt.Sprintf("(%s, %s)", coqOp, p.T(obs)))
	}
	h.finish()
	return fmt.Sprintf("((%s, %s), (%s, %s), %s)", ZI(d1), ZI(d2), c20ZList(hs.Epochs), p.Refs(pool), ListLit(steps))
}

func (m *c20EstMon) put(op c20EstOp, cid []byte, d1 int64) {
	// an accepted estimation of node X for container C at epoch e removes X's
	// entries for C that are older than CleanupDelta epochs
	for k, en := range m.entries {
		if en.node == op.Pub && bytes.Equal(en.cid, cid) && new(big.Int).Sub(op.E, en.e).Cmp(big.NewInt(d1)) > 0 {
			delete(m.entries, k)
		}
	}
	key := c20Cat([]byte("cnr"), c20Enc(op.E), cid, m.x.h20s[op.Pub][:10])
	m.entries[c20NumKey(op.E, cid, []byte{byte(op.Pub)})] = &c20EstEntry{e: op.E, cid: cid, node: op.Pub, size: op.Size, key: key}
}

func (m *c20EstMon) tick(n *big.Int, d2 int64) {
	for k, en := range m.entries {
		if new(big.Int).Sub(n, en.e).Cmp(big.NewInt(d2)) > 0 {
			delete(m.entries, k)
		}
	}
}

// checkList: listContainerSizes(e) = the ids "cnr"++e++cid of the containers
// with an estimation put under exactly e.
func (m *c20EstMon) checkList(e *big.Int, got [][]byte) {
	q := c20Cat([]byte("cnr"), c20Enc(e))
	exp := map[string]bool{}
	for _, en := range m.sorted() {
		if en.e.Cmp(e) == 0 {
			exp[string(en.key[:len(en.key)-10])] = true
		}
	}
	seen := map[string]bool{}
	var foreign []string
	for _, id := range got {
		if seen[string(id)] {
			m.h.violate(fmt.Sprintf("container.listContainerSizes(%s) lists %s twice", e, Hex(id)))
		}
		seen[string(id)] = true
		if exp[string(id)] {
			continue
		}
		ok := false
		for _, en := range m.sorted() {
			if bytes.Equal(en.key[:len(en.key)-10], id) && en.e.Cmp(e) != 0 && len(en.key) > len(q) && bytes.HasPrefix(en.key, q) {
				ok = true
				foreign = append(foreign, fmt.Sprintf("%s put under epoch %s", Hex(id), en.e))
				break
			}
		}
		if !ok {
			m.h.violate(fmt.Sprintf("container.listContainerSizes(%s) returned %s: no live estimation under it", e, Hex(id)))
		}
	}
	for id := range exp {
		if !seen[id] {
			m.h.violate(fmt.Sprintf("container.listContainerSizes(%s) misses %s", e, Hex([]byte(id))))
		}
	}
	if len(foreign) > 0 {
		m.h.known("C20/container.listContainerSizes", map[string]any{"query": fmt.Sprintf("listContainerSizes(%s)", e),
			"returned": c20HexList(got), "foreign": foreign})
	}
}

// checkIterAll: iterateAllContainerSizes(e) = (cid ++ keyhash10, estimation)
// of the estimations put under exactly e.
func (m *c20EstMon) checkIterAll(e *big.Int, gotK [][]byte, gotV []string) {
	q := c20Cat([]byte("cnr"), c20Enc(e))
	var got, exp, foreign []string
	for i := range gotK {
		got = append(got, Hex(gotK[i])+"="+gotV[i])
	}
	var fdesc []string
	for _, en := range m.sorted() {
		if !bytes.HasPrefix(en.key, q) {
			continue
		}
		s := Hex(en.key[len(q):]) + "=" + m.estStr(en.node, en.size)
		if en.e.Cmp(e) == 0 {
			exp = append(exp, s)
		} else if len(en.key) > len(q) {
			foreign = append(foreign, s)
			fdesc = append(fdesc, fmt.Sprintf("%s put under epoch %s", s, en.e))
		}
	}
	extra, missing := c20MultisetDiff(got, exp)
	for _, x := range missing {
		m.h.violate(fmt.Sprintf("container.iterateAllContainerSizes(%s) misses %s", e, x))
	}
	un, _ := c20MultisetDiff(extra, foreign)
	for _, x := range un {
		m.h.violate(fmt.Sprintf("container.iterateAllContainerSizes(%s) returned %s: no live estimation under it", e, x))
	}
	if len(extra) > 0 && len(un) == 0 {
		m.h.known("C20/container.iterateAllContainerSizes", map[string]any{"query": fmt.Sprintf("iterateAllContainerSizes(%s)", e),
			"returned": got, "foreign": fdesc})
	}
}

func c20EstCorpus() []c20EstHistory {
	E := c20Big
	put := func(e *big.Int, cid int, size int64, node int, signers ...int) c20EstOp {
		if signers == nil {
			signers = []int{node}
		}
		return c20EstOp{Kind: "put", E: e, Cid: cid, Size: big.NewInt(size), Pub: node, Signers: signers}
	}
	add := func(n int) c20EstOp { return c20EstOp{Kind: "addpeer", Pub: n} }
	off := func(n int) c20EstOp { return c20EstOp{Kind: "offline", Pub: n} }
	nm := func() c20EstOp { return c20EstOp{Kind: "nmtick", Step: 1} }
	nmBy := func(s int64) c20EstOp { return c20EstOp{Kind: "nmtick", Step: s} }
	tick := func(n *big.Int) c20EstOp { return c20EstOp{Kind: "tick", Alpha: true, N: n} }
	badTick := func(n *big.Int) c20EstOp { return c20EstOp{Kind: "tick", Alpha: false, N: n} }
	del := func(c int) c20EstOp { return c20EstOp{Kind: "delete", Cid: c} }
	plus := func(a *big.Int, b int64) *big.Int { return new(big.Int).Add(a, big.NewInt(b)) }
	d1, d2 := int64(containerconst.CleanupDelta), int64(containerconst.TotalCleanupDelta)
	big62 := new(big.Int).Lsh(big.NewInt(1), 62)
	return []c20EstHistory{
		{Name: "F2-epochs-1-257-0", Epochs: []*big.Int{E(1), E(257), E(0), E(256)}, NConts: 2,
			Ops: []c20EstOp{add(0), add(1), nm(), nm(), put(E(257), 0, 10, 0), put(E(1), 0, 20, 1), put(E(0), 1, 30, 0), put(E(1), 1, 40, 0)}},
		{Name: "cleanup-deltas", Epochs: []*big.Int{E(100), E(100 + d1), E(100 + d1 + 1), E(0)}, NConts: 2,
			Ops: []c20EstOp{add(0), add(1), nm(), nm(), put(E(100), 0, 1, 0), put(E(100), 0, 2, 1), put(E(100), 1, 3, 0), put(E(100+d1), 0, 4, 0),
				put(E(100+d1+1), 0, 5, 0), put(E(100+d1+1), 1, 6, 1), tick(E(100 + d2)), tick(E(100 + d2 + 1)), badTick(E(1000)), tick(E(100 + d1 + d2 + 1)),
				tick(E(100 + d1 + d2 + 2)), tick(E(100 + d1 + d2 + 3))}},
		{Name: "access", Epochs: []*big.Int{E(1), E(257), E(0), E(2)}, NConts: 2, Ghost: true,
			Ops: []c20EstOp{add(0), nm(), add(1), put(E(1), 0, 1, 0), nm(), put(E(1), 0, 2, 0), put(E(1), 0, 3, 1), put(E(1), 0, 4, 0, 1), put(E(1), 0, 5, 0, -1),
				put(E(1), 0, 6, 0, 1, 0), put(E(1), 2, 7, 0), del(1), put(E(1), 1, 8, 0), put(E(257), 0, 9, 0), nm(), put(E(257), 0, 10, 1), put(E(2), 1, 11, 1),
				badTick(E(300)), put(E(2), 0, 12, 2, 2)}},
		{Name: "overwrite-decreasing-sizes", Epochs: []*big.Int{E(65536), E(65535), E(256), E(255), E(0)}, NConts: 1,
			Ops: []c20EstOp{add(0), nm(), nm(), put(E(65536), 0, 0, 0), put(E(65536), 0, -5, 0), put(E(65535), 0, 1, 0), put(E(256), 0, 2, 0),
				{Kind: "put", E: E(255), Cid: 0, Size: big62, Pub: 0, Signers: []int{0}}, put(E(65536), 0, 3, 0), tick(E(260)), tick(E(261)), tick(E(65540)), tick(E(65541))}},
		{Name: "signed-and-big-epochs", Epochs: []*big.Int{E(-1), E(255), c20Two31, E(65535), E(0)}, NConts: 2,
			Ops: []c20EstOp{add(0), add(1), nm(), nm(), put(E(-1), 0, 1, 0), put(E(255), 0, 2, 1), put(c20Two31, 1, 3, 0), put(E(65535), 1, 4, 1), tick(E(-1)), tick(E(3)),
				put(E(-1), 1, 5, 1), nm(), nm(), tick(plus(c20Two31, d2)), tick(plus(c20Two31, d2+1)), tick(E(-100))}},
		{Name: "membership-changes", Epochs: []*big.Int{E(1), E(257), E(5), E(0)}, NConts: 1,
			Ops: []c20EstOp{add(0), nm(), put(E(5), 0, 1, 0), nm(), put(E(5), 0, 2, 0), add(2), put(E(5), 0, 3, 2), nm(), put(E(5), 0, 4, 2), off(0), nm(), put(E(5), 0, 5, 2),
				put(E(257), 0, 6, 0), nm(), put(E(257), 0, 7, 0), put(E(257), 0, 8, 2), nmBy(3), put(E(1), 0, 9, 2), nm()}},
		// who may report: only the node itself (alone or with anyone else); the Alphabet account, the
		// committee-majority account, another node of the map, a stranger — alone or together — may not,
		// for keys inside (0, 1) and outside (2) the previous epoch's network map
		{Name: "signer-sets", Epochs: []*big.Int{E(2), E(1), E(0)}, NConts: 2,
			Ops: []c20EstOp{add(0), add(1), nm(), nm(), put(E(2), 0, 1, 0), put(E(2), 0, 2, 1, -2), put(E(2), 0, 3, 0, -2), put(E(2), 0, 4, 0, 1), put(E(2), 0, 5, 0, -1),
				put(E(2), 0, 6, 0, -2, 1), put(E(2), 0, 7, 0, -3), put(E(2), 0, 8, 0, -3, 1), put(E(2), 1, 9, 1, -2), put(E(2), 1, 10, 2, -2), put(E(2), 1, 11, 2, 2),
				put(E(2), 1, 12, 2, -2, 2), put(E(2), 0, 13, 0, -2, 0), put(E(2), 0, 14, 0, 1, 0), put(E(1), 0, 15, 1, -2, -1, 0), put(E(1), 0, 16, 1, -1, 1)}},
		{Name: "signer-sets-7", NCmt: c20BigCommittee, Epochs: []*big.Int{E(2), E(1), E(0)}, NConts: 1,
			Ops: []c20EstOp{add(0), add(1), nm(), nm(), put(E(2), 0, 1, 0), put(E(2), 0, 2, 1, -2), put(E(2), 0, 3, 0, -2), put(E(2), 0, 4, 0, -3), put(E(2), 0, 5, 0, -3, 1),
				put(E(2), 0, 6, 0, -2, -3), put(E(2), 0, 7, 1, -3, 1), put(E(2), 0, 8, 2, -2), put(E(1), 0, 9, 0, -2, 0),
				{Kind: "tick", Maj: true, N: E(100)}, tick(E(2 + d2)), {Kind: "tick", Maj: true, N: E(100)}, badTick(E(100)), tick(E(3 + d2))}},
		// ticks of the real Netmap contract (container subscribed) that jump over
		// several epochs: cleanup must be relative to the TICK's epoch
		{Name: "netmap-jump-total-delta", Epochs: []*big.Int{E(1), E(2), E(3), E(0)}, NConts: 2,
			Ops: []c20EstOp{add(0), add(1), nm(), nm(), put(E(2), 0, 1, 0), put(E(1), 0, 2, 1), put(E(3), 1, 3, 1), nmBy(d2), /* 6 */
				nmBy(1) /* 7 */, nmBy(1) /* 8 */}},
		{Name: "netmap-jump-over", Epochs: []*big.Int{E(2), E(7), E(10), E(0)}, NConts: 1,
			Ops: []c20EstOp{add(0), add(1), nm(), nm(), put(E(2), 0, 1, 0), put(E(7), 0, 2, 1), nmBy(8) /* 10 */, put(E(10), 0, 3, 1), nmBy(d2 + 1) /* 15 */,
				put(E(15), 0, 4, 0), nmBy(1000), put(E(10), 0, 5, 0)}},
		{Name: "netmap-jump-steps", Epochs: []*big.Int{E(2), E(4), E(2 + d2), E(0), E(3 + 2*d2)}, NConts: 2,
			Ops: []c20EstOp{add(0), add(1), nm(), nm(), put(E(2), 0, 1, 0), put(E(2), 1, 2, 1), nmBy(2) /* 4 */, put(E(4), 0, 3, 1), nmBy(d2 - 1) /* 3+d2 */,
				put(E(2+d2), 1, 4, 0), nmBy(d2) /* 3+2*d2 */, put(E(3+2*d2), 0, 5, 0), nmBy(d2 + 1), nmBy(2), nmBy(d1)}},
		{Name: "127-32639-and-256-65792", Epochs: []*big.Int{E(127), E(32639), E(256), E(65792)}, NConts: 2,
			Ops: []c20EstOp{add(0), add(1), nm(), nm(), put(E(32639), 0, 1, 0), put(E(127), 0, 2, 1), put(E(65792), 1, 3, 1), put(E(256), 1, 4, 0), put(E(127), 0, 5, 0),
				tick(E(127 + d2 + 1)), tick(E(256 + d2 + 1))}},
	}
}

func c20EstRandom(r *rand.Rand, i int) c20EstHistory {
	hs := c20EstHistory{Name: fmt.Sprintf("random-%d", i), NConts: 2 + r.Intn(2), Ghost: r.Intn(4) == 0}
	if i%10 == 7 {
		hs.NCmt = c20BigCommittee
	}
	hs.Epochs = c20SubPool(r, 4)
	d1, d2 := int64(containerconst.CleanupDelta), int64(containerconst.TotalCleanupDelta)
	ncid := hs.NConts
	if hs.Ghost {
		ncid++
	}
	added := map[int]bool{}
	add := func(n int) {
		if !added[n] {
			added[n] = true
			hs.Ops = append(hs.Ops, c20EstOp{Kind: "addpeer", Pub: n})
		}
	}
	cur := int64(0) // the Netmap contract's epoch
	nmBy := func(s int64) { cur += s; hs.Ops = append(hs.Ops, c20EstOp{Kind: "nmtick", Step: s}) }
	nm := func() { nmBy(1) }
	// a Netmap tick may jump over epochs: 1, 2, around the cleanup deltas, large
	nmJump := func() {
		steps := []int64{1, 1, 2, d1, d2 - 1, d2, d2 + 1, d2 + 2, 10, 1000}
		st := steps[r.Intn(len(steps))]
		if st < 1 {
			st = 1
		}
		nmBy(st)
	}
	extra := func(e *big.Int) *big.Int { // observe the epochs used near the Netmap epoch too
		if !c20HasEpoch(hs.Epochs, e) && len(hs.Epochs) < 7 {
			hs.Epochs = append(hs.Epochs, e)
		}
		return e
	}
	add(0)
	if r.Intn(2) == 0 {
		add(1)
	}
	nm()
	if r.Intn(2) == 0 {
		add(1)
	}
	nm()
	jumpy := r.Intn(2) == 0 // half of the histories live around the Netmap epoch
	deleted := map[int]bool{}
	var lastE *big.Int
	n := 8 + r.Intn(6)
	for k := 0; k < n; k++ {
		switch x := r.Intn(20); {
		case x < 12:
			node := r.Intn(c20NNodes)
			if r.Intn(3) != 0 {
				node = r.Intn(2)
			}
			op := c20EstOp{Kind: "put", E: hs.Epochs[r.Intn(len(hs.Epochs))], Cid: r.Intn(ncid), Pub: node, Signers: []int{node}}
			if lastE != nil && r.Intn(4) == 0 { // near the previous put: the node's own cleanup window
				op.E = new(big.Int).Add(lastE, big.NewInt([]int64{d1, d1 + 1, 1, -1}[r.Intn(4)]))
			}
			if jumpy && r.Intn(3) != 0 { // the current / previous Netmap epoch, as storage nodes report
				op.E = extra(big.NewInt(cur + []int64{0, 0, -1, 1, -d1}[r.Intn(5)]))
			}
			switch r.Intn(8) {
			case 0:
				op.Size = big.NewInt(0)
			case 1:
				op.Size = big.NewInt(-int64(k) - 1)
			case 2:
				op.Size = new(big.Int).Lsh(big.NewInt(1), 62)
			default:
				op.Size = big.NewInt(int64(k + 1))
			}
			switch r.Intn(18) {
			case 0:
				op.Signers = []int{(node + 1) % c20NNodes}
			case 1:
				op.Signers = []int{-1}
			case 2:
				op.Signers = []int{(node + 1) % c20NNodes, node}
			case 3:
				op.Signers = []int{-2}
			case 4:
				op.Signers = []int{-2, (node + 1) % c20NNodes}
			case 5:
				op.Signers = []int{-3}
			case 6:
				op.Signers = [][]int{{-2, node}, {-3, (node + 1) % c20NNodes}, {-2, -1}, {-1, node}}[r.Intn(4)]
			}
			lastE = op.E
			hs.Ops = append(hs.Ops, op)
		case x < 15:
			var nn *big.Int
			if lastE != nil && r.Intn(3) != 0 {
				nn = new(big.Int).Add(lastE, big.NewInt([]int64{d1, d2, d2 + 1, d2 + 2, 0}[r.Intn(5)]))
			} else {
				nn = hs.Epochs[r.Intn(len(hs.Epochs))]
			}
			tk := c20EstOp{Kind: "tick", Alpha: r.Intn(5) != 0, N: nn}
			if !tk.Alpha && r.Intn(2) == 0 {
				tk.Maj = hs.NCmt > 1
			}
			hs.Ops = append(hs.Ops, tk)
		case x < 17:
			if jumpy {
				nmJump()
			} else {
				nm()
			}
		case x < 18:
			add(1 + r.Intn(2))
		case x < 19:
			c := r.Intn(hs.NConts)
			if !deleted[c] {
				deleted[c] = true
				hs.Ops = append(hs.Ops, c20EstOp{Kind: "delete", Cid: c})
			}
		default:
			if added[0] && r.Intn(2) == 0 {
				added[0] = false
				hs.Ops = append(hs.Ops, c20EstOp{Kind: "offline", Pub: 0})
			} else if jumpy {
				nmJump()
			} else {
				nm()
			}
		}
	}
	return hs
}

func c20EstFamily(run *c20Run, batch int) {
	p := c20NewPool("Es")
	var cases []string
	if batch == 0 {
		for _, hs := range c20EstCorpus() {
			cases = append(cases, c20RunEst(run, p, hs, true))
		}
	}
	r := Rng(2005 + int64(batch))
	for i := 0; i < 70; i++ {
		cases = append(cases, c20RunEst(run, p, c20EstRandom(r, batch*1000+i), false))
	}
	f := c20FileName("est", batch)
	run.sizes[f] = c20WriteCases(run.t, f, "Estimations", "echeck_case", p, cases)
}


// ===========================================================================
// Capacity of a node's epoch list ("est"++cid++hash): the same node reports
// for the same (epoch, cid) again and again, so that updateEstimations keeps
// every old entry; the real contract faults when the old and the new list no
// longer fit the VM's live-item limit ("stack is too big").  The measured
// number of accepted estimations is tied to the model's constant cap_limit by
// cases_C20_cap.v (advisory T_cap = [] iff they agree; M = [] iff at least 255 were accepted).
func c20CapacityProbe(run *c20Run) {
	t := run.t
	t0 := time.Now()
	x := c20NewEstEnv(run, 1)
	v := x.Env
	r := v.Invoke([]neotest.Signer{x.auth.alpha, x.nodes[0]}, x.netmap, "addPeer", x.infos[0])
	require.True(t, r.Halt, r.Fault)
	for n := int64(1); n <= 2; n++ {
		r = v.Invoke([]neotest.Signer{x.auth.alpha}, x.netmap, "newEpoch", n)
		require.True(t, r.Halt, r.Fault)
	}
	accepted, fault := 0, ""
	for i := 1; i <= 2100; i++ {
		r = v.Invoke([]neotest.Signer{v.E.Validator, x.nodes[0]}, x.container, "putContainerSize", int64(2), x.cids[0], int64(i), x.pubs[0])
		if !r.Halt {
			fault = r.Fault
			break
		}
		accepted++
	}
	run.st.Evaluations += accepted + 1
	run.st.Histories++
	run.st.OpHistogram["est.put(capacity probe)"] += accepted + 1
	run.st.OutcomeHistogram["est.put(capacity probe)/halt"] += accepted
	if fault != "" {
		run.st.OutcomeHistogram["est.put(capacity probe)/fault"]++
	}
	run.st.Extra["epoch_list_capacity"] = map[string]any{"accepted_estimations_of_one_node_for_one_epoch_and_container": accepted, "then_fault": fault}
	// exactly one entry under the key, whatever the number of reports
	it, err := x.Read(x.container, "iterateContainerSizes", int64(2), x.cids[0])
	require.NoError(t, err)
	arr, _ := it.Value().([]stackitem.Item)
	if len(arr) != 1 {
		run.st.AddViolation(fmt.Sprintf("capacity probe: %d entries under one (epoch, cid, node) after %d reports", len(arr), accepted), []string{"putContainerSize(2, cid0, i, node0) repeated"})
		run.nviol++
	}
	src := "From Verif Require Import Base.Prelude Model.Estimations.\nLocal Open Scope Z_scope.\n" +
		"(* measured on the compiled contract: number of estimations of one node for one (epoch, container) accepted before the call faults *)\n" +
		fmt.Sprintf("Definition measured : Z := %d.\n", accepted) +
		"(* advisory tie (a definition whose name starts with T_): the exact figure depends on how many VM items the compiled code keeps alive, which an\n   equivalent refactoring may shift by a few; a broken tie makes the check search deeper instead of failing *)\n" +
		"Definition T_cap := Eval vm_compute in (if measured =? cap_limit then [] else [(0%nat, (0%nat, VInt measured))]).\nPrint T_cap.\n" +
		"(* hard part: the list does hold many reports of one node before the platform limit is hit *)\n" +
		"Definition M := Eval vm_compute in (if 255 <=? measured then [] else [(0%nat, (0%nat, VInt measured))]).\nPrint M.\n"
	name := "cases_C20_cap.v"
	require.NoError(t, os.WriteFile(filepath.Join(OutDir(), name), []byte(src), 0o644))
	run.sizes[name] = len(src)
	run.times["cap"] = time.Since(t0).Seconds()
}
