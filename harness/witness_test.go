package harness

import (
	"bytes"
	"crypto/elliptic"
	"crypto/sha256"
	"encoding/json"
	"fmt"
	"math/big"
	"math/rand"
	"os"
	"path/filepath"
	"sort"
	"strings"
	"testing"
	"time"

	"github.com/nspcc-dev/neo-go/pkg/config"
	"github.com/nspcc-dev/neo-go/pkg/core/block"
	"github.com/nspcc-dev/neo-go/pkg/core/native/nativenames"
	"github.com/nspcc-dev/neo-go/pkg/core/native/noderoles"
	"github.com/nspcc-dev/neo-go/pkg/core/state"
	"github.com/nspcc-dev/neo-go/pkg/core/transaction"
	"github.com/nspcc-dev/neo-go/pkg/crypto/keys"
	"github.com/nspcc-dev/neo-go/pkg/neotest"
	"github.com/nspcc-dev/neo-go/pkg/neotest/chain"
	"github.com/nspcc-dev/neo-go/pkg/smartcontract/manifest"
	"github.com/nspcc-dev/neo-go/pkg/util"
	"github.com/nspcc-dev/neo-go/pkg/vm/stackitem"
	"github.com/nspcc-dev/neo-go/pkg/wallet"
	"github.com/stretchr/testify/require"
)

// ---------------------------------------------------------------------------
// C03: every mutating contract method is inert without its required
// witnesses.  Model: coq/Model/Witness.v (requirement table), theorems in
// coq/Props/C03.v.  This file is the sweep the property describes; the
// per-method argument builders are in witness_methods_test.go.
//
// Conventions:
//   - every transaction is sent by a dedicated payer whose signer scope is
//     None (fee only): it is never a witness for the contracts, and the only
//     GAS it loses are fees, so all other observed balances move only by
//     what the contracts do;
//   - all other signers sign with Global scope;
//   - keys are derived from fixed seeds; the committee, the key list stored
//     in the NeoFS contract and the designated NeoFSAlphabet role are three
//     DIFFERENT key sets of the same size, so a guard that consults the wrong
//     list is visible.

var w3Contracts = []string{"alphabet", "audit", "balance", "container", "neofs", "neofsid", "netmap", "nns", "processing", "proxy", "reputation"}

var w3CoqContract = map[string]string{
	"alphabet": "KAlphabet", "audit": "KAudit", "balance": "KBalance", "container": "KContainer",
	"alphabet_hi": "KAlphabet", "alphabet_last": "KAlphabet",
	"neofs": "KNeoFS", "neofs_nd": "KNeoFS", "neofsid": "KNeoFSID", "netmap": "KNetmap", "nns": "KNNS",
	"processing": "KProcessing", "proxy": "KProxy", "reputation": "KReputation",
}

// w3Princ is an account that can appear as a witness.
type w3Princ struct {
	Name string
	Hash util.Uint160
	S    neotest.Signer // nil: nobody in the harness can sign for it
	Pub  []byte         // compressed public key of single-key accounts
}

func w3Key(tag string, i int) *wallet.Account {
	h := sha256.Sum256([]byte(fmt.Sprintf("verif-c03-%s-%d", tag, i)))
	pk, err := keys.NewPrivateKeyFromBytes(h[:])
	if err != nil {
		panic(err)
	}
	return wallet.NewAccountFromPrivateKey(pk)
}

func w3SortAccs(ks []*wallet.Account) []*wallet.Account {
	sorted := append([]*wallet.Account{}, ks...)
	sort.Slice(sorted, func(i, j int) bool { return sorted[i].PublicKey().Cmp(sorted[j].PublicKey()) < 0 })
	return sorted
}

// w3Multisig builds the m-of-n account of the given keys (signs with the
// first m keys in key order).
func w3Multisig(m int, ks []*wallet.Account) neotest.Signer {
	sorted := w3SortAccs(ks)
	pubs := make(keys.PublicKeys, len(sorted))
	for i := range sorted {
		pubs[i] = sorted[i].PublicKey()
	}
	accs := make([]*wallet.Account, len(sorted))
	for i := range sorted {
		accs[i] = wallet.NewAccountFromPrivateKey(sorted[i].PrivateKey())
		if err := accs[i].ConvertMultisig(m, pubs.Copy()); err != nil {
			panic(err)
		}
	}
	return neotest.NewMultiSigner(accs...)
}

func w3Single(name string, acc *wallet.Account) *w3Princ {
	s := neotest.NewSingleSigner(wallet.NewAccountFromPrivateKey(acc.PrivateKey()))
	return &w3Princ{Name: name, Hash: s.ScriptHash(), S: s, Pub: acc.PublicKey().Bytes()}
}

func w3Multi(name string, m int, ks []*wallet.Account) *w3Princ {
	s := w3Multisig(m, ks)
	return &w3Princ{Name: name, Hash: s.ScriptHash(), S: s}
}

func w3AlphaM(n int) int { return n*2/3 + 1 }
func w3MajM(n int) int   { return n/2 + 1 }

// w3World is one chain with everything deployed.
type w3World struct {
	*Env
	N         int
	ck        []*wallet.Account // committee keys, in key order (= neo.GetCommittee())
	lk, rk    []*wallet.Account // NeoFS stored list; designated NeoFSAlphabet role
	validator neotest.Signer
	payer     *w3Princ
	P         map[string]*w3Princ // by name
	byHash    map[util.Uint160]*w3Princ
	H         map[string]util.Uint160 // contract instance -> hash ("neofs_nd" is the notary-disabled NeoFS)
	C         map[string]*neotest.Contract
	gas, neo  util.Uint160
	mgmt      util.Uint160
	roles     util.Uint160
	tracked   []util.Uint160 // accounts whose GAS/NEO balances are observed
	trackName []string
	// state the builders need
	cidX, cidX2 []byte // containers (X has meta-on-chain and a committed placement)
	valX, valY  []byte // stored container bodies: X (meta-on-chain), Y (no meta flag); never deleted
	cidGone     []byte // a container that was stored and deleted again
	lockAddr    util.Uint160 // an existing lock account
	cntSeq      int
	rng         *rand.Rand // seeded: random signer subsets
	nRandom     int
	thin        bool // quick tier: the repeat and cross-replay passes skip the peer sets
	rk0, rk2    []*wallet.Account // designated role before / after the re-designation scenario
	irc0, irc2  util.Uint160      // its majority account before / after
	crafted     []*w3Princ // m-of-n accounts over the right keys with a wrong m
	light       bool       // this chain runs the base sweep only
	snapLast    w3Snap
	snapHeight  uint32
	snapOK      bool
}

func (w *w3World) princ(name string) *w3Princ {
	p, ok := w.P[name]
	if !ok {
		panic("no principal " + name)
	}
	return p
}

func (w *w3World) addPrinc(p *w3Princ) *w3Princ {
	w.P[p.Name] = p
	if _, ok := w.byHash[p.Hash]; !ok {
		w.byHash[p.Hash] = p
	}
	return p
}

// w3NewChain creates a chain whose committee has n members (one validator).
func w3NewChain(t testing.TB, n int) *w3World {
	gen := make([]*wallet.Account, n)
	for i := range gen {
		gen[i] = w3Key("committee", i)
	}
	standby := make([]string, n)
	for i := range gen {
		standby[i] = gen[i].PublicKey().StringCompressed()
	}
	bc, _ := chain.NewSingleWithOptions(t, &chain.Options{BlockchainConfigHook: func(c *config.Blockchain) {
		c.StandbyCommittee = standby
		c.ValidatorsCount = 1
	}})
	validator := w3Multisig(1, gen[:1])
	committee := w3Multisig(w3MajM(n), gen)
	e := neotest.NewExecutor(t, bc, validator, committee)
	w := &w3World{Env: &Env{T: t, E: e, BC: bc}, N: n, validator: validator,
		P: map[string]*w3Princ{}, byHash: map[util.Uint160]*w3Princ{}, H: map[string]util.Uint160{}, C: map[string]*neotest.Contract{}}
	w.ck = w3SortAccs(gen)
	w.gas = e.NativeHash(t, nativenames.Gas)
	w.neo = e.NativeHash(t, nativenames.Neo)
	w.mgmt = e.NativeHash(t, nativenames.Management)
	w.roles = e.NativeHash(t, nativenames.Designation)
	// the two key lists have at least three members on every chain, so that
	// "another member of the same list" exists
	nl := n
	if nl < 3 {
		nl = 3
	}
	for i := 0; i < nl; i++ {
		w.lk = append(w.lk, w3Key("neofs-list", i))
		w.rk = append(w.rk, w3Key("inner-ring", i))
	}
	w.lk, w.rk = w3SortAccs(w.lk), w3SortAccs(w.rk)

	w.addPrinc(&w3Princ{Name: "committee", Hash: committee.ScriptHash(), S: committee})
	w.addPrinc(w3Multi("alpha", w3AlphaM(n), w.ck))
	w.addPrinc(w3Multi("ir-committee", w3MajM(nl), w.rk))
	w.addPrinc(w3Multi("ir-alpha", w3AlphaM(nl), w.rk))
	w.addPrinc(w3Multi("neofs-alpha", w3AlphaM(nl), w.lk))
	w.addPrinc(w3Multi("neofs-majority", w3MajM(nl), w.lk))
	// multi-signature accounts over the RIGHT key lists with the WRONG
	// threshold: one below / one above the two real ones, and all keys
	for _, kl := range []struct {
		tag string
		ks  []*wallet.Account
	}{{"committee", w.ck}, {"ir", w.rk}, {"neofs-list", w.lk}} {
		nk := len(kl.ks)
		real := map[int]bool{w3AlphaM(nk): true, w3MajM(nk): true}
		seen := map[int]bool{}
		for _, m := range []int{w3MajM(nk) - 1, w3MajM(nk) + 1, w3AlphaM(nk) - 1, w3AlphaM(nk) + 1, nk} {
			if m < 1 || m > nk || real[m] || seen[m] {
				continue
			}
			seen[m] = true
			p := w3Multi(fmt.Sprintf("%s-%d-of-%d", kl.tag, m, nk), m, kl.ks)
			w.addPrinc(p)
			w.crafted = append(w.crafted, p)
		}
	}
	w.addPrinc(w3Single("member0", w.ck[0]))
	if n > 1 {
		w.addPrinc(w3Single("member1", w.ck[1]))
	}
	w.addPrinc(w3Single("ir-member", w.rk[0]))
	w.addPrinc(w3Single("neofs-member", w.lk[0]))
	for i := 1; i < nl; i++ {
		w.addPrinc(w3Single(fmt.Sprintf("ir-member%d", i+1), w.rk[i]))
		w.addPrinc(w3Single(fmt.Sprintf("neofs-member%d", i+1), w.lk[i]))
	}
	for i := 2; i < n; i++ {
		w.addPrinc(w3Single(fmt.Sprintf("member%d", i), w.ck[i]))
	}
	for _, nm := range []string{"stranger", "O", "A", "U", "P", "cand", "cand2", "CO", "N0", "N1", "N2", "N3", "deployer2"} {
		w.addPrinc(w3Single(nm, w3Key(nm, 0)))
	}
	w.payer = w3Single("payer", w3Key("payer", 0))
	return w
}

// signersOf removes duplicates (the same account under two names).
func w3Dedup(ps []*w3Princ) []*w3Princ {
	seen := map[util.Uint160]bool{}
	var out []*w3Princ
	for _, p := range ps {
		if p == nil || seen[p.Hash] {
			continue
		}
		seen[p.Hash] = true
		out = append(out, p)
	}
	return out
}

// tx builds a transaction paid by the payer (scope None) and witnessed by ps
// (scope Global).
func (w *w3World) tx(ps []*w3Princ, script []byte, sysFee int64, unscoped ...*w3Princ) *transaction.Transaction {
	return w.txE(ps, nil, script, sysFee, unscoped...)
}

func (w *w3World) txE(ps, entry []*w3Princ, script []byte, sysFee int64, unscoped ...*w3Princ) *transaction.Transaction {
	return w.txS(nil, transaction.None, ps, entry, script, sysFee, unscoped...)
}

// txS: sender (nil: the harness's payer) with the given scope first.
func (w *w3World) txS(sender *w3Princ, senderScope transaction.WitnessScope, ps, entry []*w3Princ, script []byte, sysFee int64, unscoped ...*w3Princ) *transaction.Transaction {
	tx := transaction.New(script, 0)
	tx.Nonce = neotest.Nonce()
	tx.ValidUntilBlock = w.BC.BlockHeight() + 1
	first := w.payer
	if sender != nil {
		first = sender
	} else {
		senderScope = transaction.None
	}
	used := map[util.Uint160]bool{first.Hash: true}
	signers := []neotest.Signer{first.S}
	tx.Signers = []transaction.Signer{{Account: first.Hash, Scopes: senderScope}}
	add := func(list []*w3Princ, scope transaction.WitnessScope) {
		for _, p := range w3Dedup(list) {
			if p.Hash == w.payer.Hash {
				panic("payer used as witness")
			}
			if used[p.Hash] {
				continue
			}
			used[p.Hash] = true
			tx.Signers = append(tx.Signers, transaction.Signer{Account: p.Hash, Scopes: scope})
			signers = append(signers, p.S)
		}
	}
	add(ps, transaction.Global)
	add(unscoped, transaction.None)
	add(entry, transaction.CalledByEntry)
	neotest.AddNetworkFee(w.T, w.BC, tx, signers...)
	tx.SystemFee = sysFee
	for _, s := range signers {
		require.NoError(w.T, s.SignTx(w.BC.GetConfig().Magic, tx))
	}
	return tx
}

const w3SysFee = 40_0000_0000

func (w *w3World) send(ps []*w3Princ, h util.Uint160, method string, args ...any) Result {
	return w.sendU(ps, nil, h, method, args...)
}

func (w *w3World) sendU(ps, unscoped []*w3Princ, h util.Uint160, method string, args ...any) Result {
	tx0 := w.E.NewUnsignedTx(w.T, h, method, args...)
	tx := w.tx(ps, tx0.Script, w3SysFee, unscoped...)
	b := w.E.AddNewBlock(w.T, tx)
	return w.ResultOf(tx, b)
}

// god: every privileged account at once (set-up only).
func (w *w3World) god(extra ...*w3Princ) []*w3Princ {
	return append([]*w3Princ{w.princ("committee"), w.princ("alpha")}, extra...)
}

// w3SetupFailure: a set-up invocation carrying every privileged witness was
// refused; the chain cannot be prepared and the refusal itself is reported.
type w3SetupFailure struct{ What, Fault string }

func (w *w3World) must(r Result, what string) Result {
	if !r.Halt {
		panic(w3SetupFailure{what, r.Fault})
	}
	return r
}

func (w *w3World) compile(name string) *neotest.Contract {
	p := filepath.Join(RepoDir, "contracts", name)
	c := neotest.CompileFile(w.T, util.Uint160{}, p, filepath.Join(p, "config.yml"))
	w.C[name] = c
	return c
}

func w3HashFor(c *neotest.Contract, sender util.Uint160) util.Uint160 {
	return state.CreateContractHash(sender, c.NEF.Checksum, c.Manifest.Name)
}

// deploy deploys contract c under instance name inst; the sender (whose hash
// determines the contract hash) is by.
func (w *w3World) deploy(inst string, c *neotest.Contract, by *w3Princ, data any) util.Uint160 {
	rawManifest, err := json.Marshal(c.Manifest)
	require.NoError(w.T, err)
	neb, err := c.NEF.Bytes()
	require.NoError(w.T, err)
	// management.deploy derives the hash from the transaction SENDER, which
	// here is the payer for ordinary invocations; deployments are therefore
	// sent (and paid) by the deployer itself.
	tx0 := w.E.NewUnsignedTx(w.T, w.mgmt, "deploy", neb, rawManifest, data)
	tx := transaction.New(tx0.Script, 0)
	tx.Nonce = neotest.Nonce()
	tx.ValidUntilBlock = w.BC.BlockHeight() + 1
	ps := w3Dedup(append([]*w3Princ{by}, w.god()...))
	var signers []neotest.Signer
	for _, p := range ps {
		tx.Signers = append(tx.Signers, transaction.Signer{Account: p.Hash, Scopes: transaction.Global})
		signers = append(signers, p.S)
	}
	neotest.AddNetworkFee(w.T, w.BC, tx, signers...)
	tx.SystemFee = 200_0000_0000
	for _, s := range signers {
		require.NoError(w.T, s.SignTx(w.BC.GetConfig().Magic, tx))
	}
	b := w.E.AddNewBlock(w.T, tx)
	r := w.ResultOf(tx, b)
	if !r.Halt {
		panic(w3SetupFailure{"deploy " + inst, r.Fault})
	}
	h := w3HashFor(c, by.Hash)
	require.NotNil(w.T, w.BC.GetContractState(h), "deployed %s not found", inst)
	w.H[inst] = h
	return h
}

func (w *w3World) gasTransfer(to util.Uint160, amount int64) {
	tx := w.E.NewUnsignedTx(w.T, w.gas, "transfer", w.validator.ScriptHash(), to, amount, nil)
	w.E.SignTx(w.T, tx, 10_0000_0000, w.validator)
	b := w.E.AddNewBlock(w.T, tx)
	r := w.ResultOf(tx, b)
	require.True(w.T, r.Halt, "fund: %s", r.Fault)
}

func (w *w3World) neoTransfer(to util.Uint160, amount int64) {
	tx := w.E.NewUnsignedTx(w.T, w.neo, "transfer", w.validator.ScriptHash(), to, amount, nil)
	w.E.SignTx(w.T, tx, 10_0000_0000, w.validator)
	b := w.E.AddNewBlock(w.T, tx)
	r := w.ResultOf(tx, b)
	require.True(w.T, r.Halt, "fund NEO: %s", r.Fault)
}

func (w *w3World) regNNS(name string, h util.Uint160) {
	cm := w.princ("committee")
	w.must(w.send(w.god(), w.H["nns"], "register", name+".neofs", cm.Hash, "ops@nspcc.ru", int64(3600), int64(600), int64(10*365*24*3600), int64(3600)), "nns register "+name)
	w.must(w.send(w.god(), w.H["nns"], "addRecord", name+".neofs", int64(16), h.StringLE()), "nns addRecord "+name)
}

func w3Pubs(ks []*wallet.Account) []any {
	out := make([]any, len(ks))
	for i := range ks {
		out[i] = ks[i].PublicKey().Bytes()
	}
	return out
}

const (
	w3ContainerFee = 1000
	w3AliasFee     = 500
)

func w3NodeBlob(pub []byte, tag byte) []byte {
	ni := make([]byte, 66)
	ni[0] = tag
	copy(ni[2:], pub)
	return ni
}

// w3ContainerValue is a well-formed container blob owned by owner.
func w3ContainerValue(owner util.Uint160, seq int) []byte {
	v := make([]byte, 100)
	h := sha256.Sum256([]byte(fmt.Sprintf("verif-c03-container-%d", seq)))
	for i := range v {
		v[i] = h[i%32] ^ byte(i)
	}
	v[1] = 0
	// owner ID: version byte 0x35, script hash, 4-byte checksum (base58check payload)
	id := make([]byte, 25)
	id[0] = 0x35
	copy(id[1:], owner.BytesBE())
	c1 := sha256.Sum256(id[:21])
	c2 := sha256.Sum256(c1[:])
	copy(id[21:], c2[:4])
	copy(v[6:], id)
	return v
}

func w3OwnerID(owner util.Uint160) []byte {
	return w3ContainerValue(owner, 0)[6:31]
}

func w3Fill(n int, b byte) []byte { return bytes.Repeat([]byte{b}, n) }

// setup deploys the eleven contracts (NeoFS twice) and prepares the state the
// argument builders rely on.
func (w *w3World) setup() {
	t := w.T
	cm := w.princ("committee")
	w.gasTransfer(w.payer.Hash, 20_000_000_0000_0000)
	for _, nm := range []string{"committee", "alpha", "deployer2", "stranger", "O", "A", "U", "P", "cand", "cand2", "CO"} {
		w.gasTransfer(w.princ(nm).Hash, 100_000_0000_0000)
	}
	w.neoTransfer(w.princ("U").Hash, 100)
	{
		var nms []string
		for nm, p := range w.P {
			if len(p.Pub) > 0 && w.BC.GetUtilityTokenBalance(p.Hash).Cmp(big.NewInt(10_000_0000_0000)) < 0 {
				nms = append(nms, nm)
			}
		}
		sort.Strings(nms)
		for _, nm := range nms {
			w.gasTransfer(w.princ(nm).Hash, 100_000_0000_0000)
		}
	}

	for _, nm := range w3Contracts {
		w.compile(nm)
	}
	w.deploy("nns", w.C["nns"], cm, []any{[]any{[]any{"neofs", "ops@nspcc.io"}}})
	w.deploy("netmap", w.C["netmap"], cm, []any{false, util.Uint160{}, util.Uint160{}, []any{},
		[]any{"ContainerFee", int64(w3ContainerFee), "ContainerAliasFee", int64(w3AliasFee)}})
	w.regNNS("netmap", w.H["netmap"])
	w.deploy("balance", w.C["balance"], cm, []any{false, util.Uint160{}, util.Uint160{}})
	w.regNNS("balance", w.H["balance"])
	w.deploy("neofsid", w.C["neofsid"], cm, []any{false})
	w.regNNS("neofsid", w.H["neofsid"])
	w.deploy("container", w.C["container"], cm, []any{int64(0), w.H["netmap"], w.H["balance"], w.H["neofsid"], w.H["nns"], ""})
	w.regNNS("container", w.H["container"])
	w.deploy("reputation", w.C["reputation"], cm, []any{false})
	w.deploy("audit", w.C["audit"], cm, []any{false})
	w.deploy("proxy", w.C["proxy"], cm, nil)
	w.regNNS("proxy", w.H["proxy"])
	w.deploy("alphabet", w.C["alphabet"], cm, []any{false, w.H["netmap"], w.H["proxy"], "az", int64(0), int64(w.N)})
	// two more Alphabet contracts: one whose index is NOT below the committee
	// size (nobody may ever emit through it), one with the last valid index
	w.deploy("alphabet_hi", w.C["alphabet"], w.princ("deployer2"), []any{false, w.H["netmap"], w.H["proxy"], "hi", int64(w.N), int64(w.N + 1)})
	if w.N > 1 {
		w.deploy("alphabet_last", w.C["alphabet"], w.princ("A"), []any{false, w.H["netmap"], w.H["proxy"], "last", int64(w.N - 1), int64(w.N)})
	}
	procHash := w3HashFor(w.C["processing"], cm.Hash)
	cfg := []any{"InnerRingCandidateFee", int64(10), "WithdrawFee", int64(7)}
	w.deploy("neofs", w.C["neofs"], cm, []any{false, procHash, w3Pubs(w.lk), cfg})
	w.deploy("neofs_nd", w.C["neofs"], w.princ("deployer2"), []any{true, procHash, w3Pubs(w.lk), cfg})
	w.deploy("processing", w.C["processing"], cm, []any{w.H["neofs"]})
	require.Equal(t, procHash, w.H["processing"])

	w.deploy("caller", w.CompileHelper("c03caller"), w.princ("stranger"), nil)

	// designate the NeoFSAlphabet role (Inner Ring)
	w.must(w.send(w.god(), w.roles, "designateAsRole", int64(noderoles.NeoFSAlphabet), w3Pubs(w.rk)), "designate")

	w.rk0, w.irc0 = w.rk, w.princ("ir-committee").Hash

	// GAS for the contracts that pay out
	for _, inst := range []string{"alphabet", "alphabet_hi", "alphabet_last"} {
		if h, ok := w.H[inst]; ok {
			w.gasTransfer(h, 1000_0000_0000)
		}
	}
	U := w.princ("U")
	for _, inst := range []string{"neofs", "neofs_nd"} {
		w.must(w.send([]*w3Princ{U}, w.gas, "transfer", U.Hash, w.H[inst], int64(100_0000_0000), nil), "deposit")
	}

	// balance: funds for the user and for the container owner
	CO := w.princ("CO")
	w.must(w.send(w.god(), w.H["balance"], "mint", U.Hash, int64(1_000_000), []byte("setup")), "mint U")
	w.must(w.send(w.god(), w.H["balance"], "mint", CO.Hash, int64(1_000_000_000), []byte("setup")), "mint CO")

	// netmap: candidates N0, N1, N3; two epochs so that they are in the previous snapshot
	for i, nm := range []string{"N0", "N1", "N3"} {
		w.must(w.send(w.god(), w.H["netmap"], "addPeerIR", w3NodeBlob(w.princ(nm).Pub, byte(i+1))), "addPeerIR")
	}
	w.must(w.send(w.god(), w.H["netmap"], "newEpoch", int64(1)), "newEpoch 1")
	w.must(w.send(w.god(), w.H["netmap"], "newEpoch", int64(2)), "newEpoch 2")

	// container X: meta-on-chain, placement {N0} with one replica; X2: plain
	w.cidX, w.valX = w.putContainer(true)
	w.cidX2, _ = w.putContainer(false)
	_, w.valY = w.putContainer(false)
	w.cidGone, _ = w.putContainer(false)
	w.must(w.send(w.god(), w.H["container"], "delete", w.cidGone, w3Fill(64, 1), w3Fill(10, 3)), "delete container")
	w.must(w.send(w.god(), w.H["container"], "addNextEpochNodes", w.cidX, int64(0), []any{w.princ("N0").Pub}), "addNextEpochNodes")
	w.must(w.send(w.god(), w.H["container"], "commitContainerListUpdate", w.cidX, []byte{1}), "commit")

	// nns: c03.neofs owned by O with admin A and one TXT record; xfer.neofs owned by O
	O, A := w.princ("O"), w.princ("A")
	year := int64(365 * 24 * 3600)
	for _, nm := range []string{"c03.neofs", "xfer.neofs"} {
		r := w.must(w.send([]*w3Princ{O}, w.H["nns"], "register", nm, O.Hash, "ops@nspcc.ru", int64(3600), int64(600), year, int64(3600)), "register "+nm)
		require.Equal(t, 1, len(r.Stack))
	}
	w.must(w.send([]*w3Princ{O, A}, w.H["nns"], "setAdmin", "c03.neofs", A.Hash), "setAdmin")
	w.must(w.send([]*w3Princ{O}, w.H["nns"], "addRecord", "c03.neofs", int64(16), "rec0"), "addRecord")
	w.must(w.send([]*w3Princ{O}, w.H["nns"], "addRecord", "xfer.neofs", int64(16), "keep"), "addRecord")
	// a third-level zone whose owner (P) differs from the owner of the zone above (O)
	Pp := w.princ("P")
	w.must(w.send([]*w3Princ{O, Pp}, w.H["nns"], "register", "sub.c03.neofs", Pp.Hash, "ops@nspcc.ru", int64(3600), int64(600), year, int64(3600)), "register sub.c03.neofs")

	// neofsid: one bound key; balance: one existing lock account
	w.must(w.send(w.god(), w.H["neofsid"], "addKey", w3OwnerID(U.Hash), []any{w3Fill(33, 5)}), "addKey")
	w.lockAddr, _ = util.Uint160DecodeBytesBE(w3Fill(20, 0x4c))
	w.must(w.send(w.god(), w.H["balance"], "lock", []byte("setup"), U.Hash, w.lockAddr, int64(2), int64(1000)), "lock")

	// neofs: one registered candidate in each instance
	cand := w.princ("cand")
	for _, inst := range []string{"neofs", "neofs_nd"} {
		w.must(w.send([]*w3Princ{cand}, w.H[inst], "innerRingCandidateAdd", cand.Pub), "candidate add")
	}

	// observed token holders: every named account and every contract, except
	// the payer (fees) and the committee members' own accounts (block rewards)
	skip := map[util.Uint160]bool{w.payer.Hash: true, w.validator.ScriptHash(): true}
	for _, k := range w.ck {
		skip[w3Single("x", k).Hash] = true
	}
	var names []string
	for nm := range w.P {
		names = append(names, nm)
	}
	sort.Strings(names)
	seen := map[util.Uint160]bool{}
	for _, nm := range names {
		h := w.P[nm].Hash
		if skip[h] || seen[h] {
			continue
		}
		seen[h] = true
		w.tracked = append(w.tracked, h)
		w.trackName = append(w.trackName, nm)
	}
	for _, k := range append(append([]*wallet.Account{}, w.lk...), w.rk...) {
		h := w3Single("x", k).Hash
		if !seen[h] && !skip[h] {
			seen[h] = true
			w.tracked = append(w.tracked, h)
			w.trackName = append(w.trackName, "key:"+h.StringLE()[:8])
		}
	}
	var insts []string
	for inst := range w.H {
		insts = append(insts, inst)
	}
	sort.Strings(insts)
	for _, inst := range insts {
		w.tracked = append(w.tracked, w.H[inst])
		w.trackName = append(w.trackName, "contract:"+inst)
	}
}

// putContainer stores a fresh container owned by CO (as the Alphabet) and
// returns its ID.
func (w *w3World) putContainer(meta bool) (cid, value []byte) {
	w.cntSeq++
	v := w3ContainerValue(w.princ("CO").Hash, 100000+w.cntSeq)
	id := sha256.Sum256(v)
	w.must(w.send(w.god(), w.H["container"], "put", v, w3Fill(64, 1), w3Fill(33, 2), w3Fill(10, 3), meta), "put container")
	return id[:], v
}

// ---------------------------------------------------------------------------
// Observation

type w3Snap struct {
	store map[string]map[string]string
	gas   []*big.Int
	neo   []*big.Int
}

func (w *w3World) snap() w3Snap {
	// the chain only changes by adding blocks: the snapshot taken after the
	// previous case is still the state before this one
	if w.snapOK && w.snapHeight == w.BC.BlockHeight() {
		return w.snapLast
	}
	s := w.snapNow()
	w.snapLast, w.snapHeight, w.snapOK = s, w.BC.BlockHeight(), true
	return s
}

func (w *w3World) snapNow() w3Snap {
	s := w3Snap{store: map[string]map[string]string{}}
	for inst, h := range w.H {
		s.store[inst] = w.StorageDump(h)
	}
	s.store["native:management"] = w.StorageDump(w.mgmt)
	s.store["native:designation"] = w.StorageDump(w.roles)
	for _, h := range w.tracked {
		s.gas = append(s.gas, w.BC.GetUtilityTokenBalance(h))
		nb, _ := w.BC.GetGoverningTokenBalance(h)
		s.neo = append(s.neo, nb)
	}
	return s
}

type w3Diff struct {
	Storage []string `json:"storage,omitempty"` // "instance: n keys changed"
	Tokens  []string `json:"tokens,omitempty"`
}

func (w *w3World) diff(a, b w3Snap) w3Diff { return w.diffBut(a, b, nil) }

// diffBut: the GAS balance of feePayer (it pays the fees of this transaction) is not compared.
func (w *w3World) diffBut(a, b w3Snap, feePayer *w3Princ) w3Diff {
	var d w3Diff
	var insts []string
	for k := range a.store {
		insts = append(insts, k)
	}
	sort.Strings(insts)
	for _, inst := range insts {
		n := 0
		ma, mb := a.store[inst], b.store[inst]
		for k, v := range ma {
			if v2, ok := mb[k]; !ok || v2 != v {
				n++
			}
		}
		for k := range mb {
			if _, ok := ma[k]; !ok {
				n++
			}
		}
		if n > 0 {
			d.Storage = append(d.Storage, fmt.Sprintf("%s:%d", inst, n))
		}
	}
	for i := range w.tracked {
		if a.gas[i].Cmp(b.gas[i]) != 0 && !(feePayer != nil && w.tracked[i] == feePayer.Hash) {
			d.Tokens = append(d.Tokens, fmt.Sprintf("GAS %s %s", w.trackName[i], new(big.Int).Sub(b.gas[i], a.gas[i])))
		}
		if a.neo[i].Cmp(b.neo[i]) != 0 {
			d.Tokens = append(d.Tokens, fmt.Sprintf("NEO %s %s", w.trackName[i], new(big.Int).Sub(b.neo[i], a.neo[i])))
		}
	}
	return d
}

// ---------------------------------------------------------------------------
// Requirements (the harness's own copy of the table; cases_C03 checks that it
// agrees with Model/Witness.v row by row)

type w3Req struct {
	Op   string
	I, J int
	A, B *w3Req
}

func w3rq(op string) *w3Req             { return &w3Req{Op: op} }
func w3rqI(op string, i int) *w3Req     { return &w3Req{Op: op, I: i} }
func w3rqIJ(op string, i, j int) *w3Req { return &w3Req{Op: op, I: i, J: j} }
func w3rq2(op string, a, b *w3Req) *w3Req {
	return &w3Req{Op: op, A: a, B: b}
}

func (r *w3Req) Coq() string {
	switch r.Op {
	case "RAddr", "RKey", "RIRMember", "RArgNull":
		return fmt.Sprintf("(%s %d)", r.Op, r.I)
	case "RKeyOfBlob", "RKeyField":
		return fmt.Sprintf("(%s %d %d)", r.Op, r.I, r.J)
	case "RCallerGas":
		return "(RCallerIs TGas)"
	case "RCallerNeo":
		return "(RCallerIs TNeo)"
	case "RNotaryOff", "RAnd", "ROr":
		return fmt.Sprintf("(%s %s %s)", r.Op, r.A.Coq(), r.B.Coq())
	}
	return r.Op
}

// w3Call is one concrete invocation prepared by a builder.
type w3Call struct {
	Args     []any
	Princ    []*w3Princ // principal designated by positional argument i (nil: none)
	Nulls    []int
	Owner    *w3Princ // NNS: owner of the NameState the guard reads (nil: committee-owned)
	Admin    *w3Princ
	Shallow  bool
	SigsOK   bool
	Via      string // "", "gas", "neo": invoke through a native token transfer (callbacks)
	ViaFrom  *w3Princ
	ViaAmt   int64
	ViaData  any
	Note     string
	NotaryOf bool
	inst     string // contract instance the call addresses (set by the sweep)
	thinSets bool // repeat / cross-replay call: fewer signer sets in the quick tier
	// Related: principals that are legitimate for an ENCLOSING object (owners
	// of the zones above an NNS name, ...) but not required by this call; they
	// take part in the signer sets like the named ones.
	Related []*w3Princ
	// Refresh re-reads the state-dependent facts (NNS owner/admin) when the
	// same arguments are sent again later.
	Refresh func(w *w3World, c *w3Call)
}

func (c *w3Call) again(w *w3World) *w3Call {
	d := *c
	if d.Refresh != nil {
		d.Refresh(w, &d)
	}
	return &d
}

type w3Ctx struct {
	signers []util.Uint160
	caller  *util.Uint160
}

func (c w3Ctx) witnessed(h *util.Uint160) bool {
	if h == nil {
		return false
	}
	if c.caller != nil && *c.caller == *h {
		return true
	}
	for _, s := range c.signers {
		if s == *h {
			return true
		}
	}
	return false
}

func w3hp(p *w3Princ) *util.Uint160 {
	if p == nil {
		return nil
	}
	return &p.Hash
}

func (r *w3Req) Eval(w *w3World, c w3Ctx, a *w3Call, notaryOff bool) bool {
	argP := func(i int) *w3Princ {
		if i < len(a.Princ) {
			return a.Princ[i]
		}
		return nil
	}
	switch r.Op {
	case "RNever":
		return false
	case "ROpen":
		return true
	case "RAlpha":
		return c.witnessed(w3hp(w.princ("alpha")))
	case "RCommittee":
		return c.witnessed(w3hp(w.princ("committee")))
	case "RIRCommittee":
		return c.witnessed(w3hp(w.princ("ir-committee")))
	case "RNeoFSAlpha":
		return c.witnessed(w3hp(w.princ("neofs-alpha")))
	case "RNeoFSMember":
		for _, k := range w.lk {
			h := w3Single("x", k).Hash
			if c.witnessed(&h) {
				return true
			}
		}
		return false
	case "RAlphaKeyAt":
		return c.witnessed(w3hp(w.alphaKeyAt(a.inst)))
	case "RAddr", "RKey", "RKeyOfBlob", "RKeyField":
		return c.witnessed(w3hp(argP(r.I)))
	case "RIRMember":
		p := argP(r.I)
		if p == nil || !c.witnessed(&p.Hash) {
			return false
		}
		for _, k := range w.rk {
			if w3Single("x", k).Hash == p.Hash {
				return true
			}
		}
		return false
	case "RNameOwner":
		return c.witnessed(w3hp(a.Owner))
	case "RNameAdmin":
		if a.Owner == nil {
			return c.witnessed(w3hp(w.princ("committee")))
		}
		return c.witnessed(w3hp(a.Owner)) || c.witnessed(w3hp(a.Admin))
	case "RArgNull":
		for _, n := range a.Nulls {
			if n == r.I {
				return true
			}
		}
		return false
	case "RShallow":
		return a.Shallow
	case "RArgSigs":
		return a.SigsOK
	case "RCallerGas":
		return c.caller != nil && *c.caller == w.gas
	case "RCallerNeo":
		return c.caller != nil && *c.caller == w.neo
	case "RNotaryOff":
		if notaryOff {
			return r.A.Eval(w, c, a, notaryOff)
		}
		return r.B.Eval(w, c, a, notaryOff)
	case "RAnd":
		return r.A.Eval(w, c, a, notaryOff) && r.B.Eval(w, c, a, notaryOff)
	case "ROr":
		return r.A.Eval(w, c, a, notaryOff) || r.B.Eval(w, c, a, notaryOff)
	}
	panic("unknown requirement " + r.Op)
}

func w3MKey(contract, method string, arity int) string {
	return fmt.Sprintf("%s.%s/%d", w3Src(contract), method, arity)
}

// ---------------------------------------------------------------------------
// Signer sets

type w3SigSet struct {
	Name string
	Ps   []*w3Princ
	// Unscoped signers sign the transaction with scope None: their signature
	// is valid but covers no contract call, so they are no witnesses.
	Unscoped []*w3Princ
	// Entry signers sign with scope CalledByEntry and the call is made through
	// the forwarding helper contract: the scope covers the helper only, not the
	// nested call, so they are no witnesses for the callee either.
	Entry []*w3Princ
	// Sender, when set, is the FIRST signer of the transaction (it pays the
	// fees instead of the harness's payer), with scope None — or CalledByEntry
	// when the call goes through the forwarding helper (Entry non-empty or
	// SenderEntry): being the sender of a transaction is not a witness.
	Sender      *w3Princ
	SenderEntry bool
	// SenderNoneViaHelper: the sender signs with scope None and the call is
	// nevertheless made through the forwarding helper.
	SenderNoneViaHelper bool
}

func (s w3SigSet) viaHelper() bool { return len(s.Entry) > 0 || s.SenderEntry || s.SenderNoneViaHelper }

func (w *w3World) signerSets(call *w3Call, rng *rand.Rand, nRandom int) []w3SigSet {
	var sets []w3SigSet
	add := func(name string, ps ...*w3Princ) { sets = append(sets, w3SigSet{Name: name, Ps: w3Dedup(ps)}) }
	add("nobody")
	add("stranger", w.princ("stranger"))
	add("member", w.princ("member0"))
	if w.N > 1 {
		add("other-member", w.princ("member1"))
	}
	add("committee-majority", w.princ("committee"))
	add("alphabet", w.princ("alpha"))
	add("ir-majority", w.princ("ir-committee"))
	add("ir-2/3", w.princ("ir-alpha"))
	add("neofs-list-2/3", w.princ("neofs-alpha"))
	add("neofs-list-majority", w.princ("neofs-majority"))
	add("ir-member", w.princ("ir-member"))
	add("neofs-list-member", w.princ("neofs-member"))
	for _, p := range w.crafted {
		add("wrong-threshold:"+p.Name, p)
	}
	// another member of the same list alone, and all members but the first
	rest := func(prefix string, from, n int) []*w3Princ {
		var ps []*w3Princ
		for i := from; i < n; i++ {
			ps = append(ps, w.princ(fmt.Sprintf("%s%d", prefix, i)))
		}
		return ps
	}
	add("other-ir-member", w.princ("ir-member2"))
	add("all-ir-members-but-the-first", rest("ir-member", 2, len(w.rk)+1)...)
	add("other-neofs-list-member", w.princ("neofs-member2"))
	add("all-neofs-list-members-but-the-first", rest("neofs-member", 2, len(w.lk)+1)...)
	if w.N > 2 {
		add("all-committee-members-but-the-first", rest("member", 1, w.N)...)
	}
	sets = append(sets, w3SigSet{Name: "alphabet+committee signing with scope None", Unscoped: w3Dedup([]*w3Princ{w.princ("alpha"), w.princ("committee")})})
	var named []*w3Princ
	for _, p := range append(append(append([]*w3Princ{}, call.Princ...), call.Owner, call.Admin), call.Related...) {
		if p != nil && p.S != nil {
			named = append(named, p)
		}
	}
	named = w3Dedup(named)
	for _, p := range named {
		add("named:"+p.Name, p)
		add("alphabet+named:"+p.Name, w.princ("alpha"), p)
		add("committee-majority+named:"+p.Name, w.princ("committee"), p)
	}
	// the named principal signs, but with a scope that covers nothing (None):
	// alone, and next to everybody else who is required
	for _, p := range named {
		var others []*w3Princ
		for _, q := range named {
			if q.Hash != p.Hash {
				others = append(others, q)
			}
		}
		sets = append(sets, w3SigSet{Name: "named:" + p.Name + " with scope None", Unscoped: []*w3Princ{p}})
		sets = append(sets, w3SigSet{Name: "alphabet+committee+other named, named:" + p.Name + " with scope None",
			Ps: w3Dedup(append([]*w3Princ{w.princ("alpha"), w.princ("committee")}, others...)), Unscoped: []*w3Princ{p}})
	}
	for _, nm := range []string{"member0", "ir-member", "neofs-member"} {
		sets = append(sets, w3SigSet{Name: nm + " with scope None", Unscoped: []*w3Princ{w.princ(nm)}})
	}
	// a MEMBER of one of the key lists (committee, Inner Ring, NeoFS stored
	// list) is the SENDER of the transaction, with a scope that does not cover
	// the call: directly with scope None, and through the forwarding helper
	// with scope CalledByEntry / None
	if call.Via == "" {
		for _, nm := range []string{"member0", "ir-member", "neofs-member"} {
			p := w.princ(nm)
			sets = append(sets, w3SigSet{Name: "sender:" + nm + " with scope None, stranger with Global", Sender: p, Ps: []*w3Princ{w.princ("stranger")}})
			sets = append(sets, w3SigSet{Name: "sender:" + nm + " with scope CalledByEntry, through a foreign contract", Sender: p, SenderEntry: true})
			sets = append(sets, w3SigSet{Name: "sender:" + nm + " with scope None, through a foreign contract", Sender: p, SenderNoneViaHelper: true})
		}
	}
	// the named principal is the SENDER of the transaction (first signer, pays
	// the fees) with a scope that covers nothing; somebody else is the caller
	if call.Via == "" {
		for _, p := range named {
			if len(p.Pub) == 0 {
				continue
			}
			var others []*w3Princ
			for _, q := range named {
				if q.Hash != p.Hash {
					others = append(others, q)
				}
			}
			sets = append(sets, w3SigSet{Name: "sender:" + p.Name + " with scope None, stranger with Global", Sender: p, Ps: []*w3Princ{w.princ("stranger")}})
			sets = append(sets, w3SigSet{Name: "sender:" + p.Name + " with scope None, alphabet+committee+other named with Global", Sender: p,
				Ps: w3Dedup(append([]*w3Princ{w.princ("alpha"), w.princ("committee")}, others...))})
			sets = append(sets, w3SigSet{Name: "sender:" + p.Name + " and stranger with scope CalledByEntry, through a foreign contract", Sender: p, SenderEntry: true,
				Entry: []*w3Princ{w.princ("stranger")}})
		}
	}
	// everybody relevant signs with scope CalledByEntry, but the call is
	// nested in a foreign contract
	if call.Via == "" {
		sets = append(sets, w3SigSet{Name: "alphabet+committee+named with scope CalledByEntry, through a foreign contract",
			Entry: w3Dedup(append([]*w3Princ{w.princ("alpha"), w.princ("committee"), w.princ("member0"), w.princ("ir-member"), w.princ("neofs-member")}, named...))})
	}
	// principals that are legitimate ELSEWHERE (another node of the netmap,
	// another container owner, another NNS owner, another candidate, ...):
	// alone and together with the Alphabet
	if !w.thin || !call.thinSets {
		isNamed := map[util.Uint160]bool{}
		for _, p := range named {
			isNamed[p.Hash] = true
		}
		for _, nm := range []string{"N0", "N1", "O", "cand", "CO", "U"} {
			p := w.princ(nm)
			if isNamed[p.Hash] {
				continue
			}
			add("peer:"+nm, p)
			if nm == "N0" || nm == "N1" || !w.thin {
				add("alphabet+peer:"+nm, w.princ("alpha"), p)
			}
		}
	}
	if len(named) > 2 {
		for i := range named {
			for j := i + 1; j < len(named); j++ {
				add("named:"+named[i].Name+"+"+named[j].Name, named[i], named[j])
			}
		}
	}
	if len(named) > 1 {
		add("named:all", named...)
		add("alphabet+named:all", append([]*w3Princ{w.princ("alpha")}, named...)...)
	}
	// seeded random subsets of every account the harness can sign for
	if rng != nil && !(w.thin && call.thinSets) {
		var uni []string
		for nm, p := range w.P {
			if p.S != nil {
				uni = append(uni, nm)
			}
		}
		sort.Strings(uni)
		for k := 0; k < nRandom; k++ {
			sz := 1 + rng.Intn(4)
			perm := rng.Perm(len(uni))[:sz]
			sort.Ints(perm)
			var ps []*w3Princ
			var nms []string
			for _, ix := range perm {
				ps = append(ps, w.P[uni[ix]])
				nms = append(nms, uni[ix])
			}
			add("random:{"+strings.Join(nms, ",")+"}", ps...)
		}
	}
	// drop sets that are the same set of accounts
	seen := map[string]bool{}
	var out []w3SigSet
	for _, s := range sets {
		var hs []string
		for _, p := range s.Ps {
			hs = append(hs, p.Hash.StringLE())
		}
		for _, p := range s.Unscoped {
			hs = append(hs, "none:"+p.Hash.StringLE())
		}
		for _, p := range s.Entry {
			hs = append(hs, "entry:"+p.Hash.StringLE())
		}
		if s.Sender != nil {
			hs = append(hs, fmt.Sprintf("sender:%s:%v:%v", s.Sender.Hash.StringLE(), s.SenderEntry, s.SenderNoneViaHelper))
		}
		sort.Strings(hs)
		k := strings.Join(hs, ",")
		if seen[k] {
			continue
		}
		seen[k] = true
		out = append(out, s)
	}
	return out
}

// ---------------------------------------------------------------------------
// Cases

var w3GuardMsgs = []string{
	"witness check failed", "only committee can update", "only side chain committee", "not witnessed by",
	"invalid invoker", "you should be the owner", "this method must be invoked by", "put access denied",
	"accepts GAS", "only GAS can be accepted", "invalid method name", "(ABORT)", "signature verification failed",
}

func w3Class(r Result) string {
	if !r.Halt {
		for _, m := range w3GuardMsgs {
			if strings.Contains(r.Fault, m) {
				return "OFaultGuard"
			}
		}
		return "OFault"
	}
	if len(r.Stack) == 1 {
		if b, ok := r.Stack[0].(stackitem.Bool); ok && !bool(b) {
			return "OFalse"
		}
	}
	return "OHaltOther"
}

type w3Record struct {
	N        int      `json:"committee"`
	Inst     string   `json:"contract"`
	Method   string   `json:"method"`
	Arity    int      `json:"arity"`
	Variant  string   `json:"variant"`
	Signers  string   `json:"signer_set"`
	Accounts []string `json:"witnesses"`
	Met      bool     `json:"requirement_met"`
	Class    string   `json:"class"`
	Fault    string   `json:"fault,omitempty"`
	Effect   bool     `json:"effect"`
	Diff     w3Diff   `json:"diff"`
	Events   int      `json:"notifications"`
	Args     string   `json:"args,omitempty"`
}

type w3Out struct {
	st        *Stats
	pool      *Pool
	keyNames  map[string]string
	keyDefs   []string
	ctxNames  map[string]string
	ctxDefs   []string
	argNames  map[string]string
	argDefs   []string
	cases     []string
	verify    []string
	reached   map[string]string // method key -> best outcome seen under a met requirement
	distinct  map[string]bool
	unmodel   map[string]bool
	recs      []w3Record
	perMethod map[string]int
	vcount    map[string]int
}

// keyRef interns a method key (the cases file stays small).
func (o *w3Out) keyRef(lit string) string {
	if o.keyNames == nil {
		o.keyNames = map[string]string{}
	}
	if n, ok := o.keyNames[lit]; ok {
		return n
	}
	n := fmt.Sprintf("mk%d", len(o.keyDefs))
	o.keyNames[lit] = n
	o.keyDefs = append(o.keyDefs, fmt.Sprintf("Definition %s : mkey := %s.", n, lit))
	return n
}

func (o *w3Out) ctxRef(ps []*w3Princ, caller *util.Uint160) string {
	var hs []string
	for _, p := range ps {
		hs = append(hs, o.pool.Ref(p.Hash.BytesBE()))
	}
	cl := "[]"
	if caller != nil {
		cl = o.pool.Ref(caller.BytesBE())
	}
	lit := fmt.Sprintf("mkWCtx %s %s", ListLit(hs), cl)
	if n, ok := o.ctxNames[lit]; ok {
		return n
	}
	n := fmt.Sprintf("cx%d", len(o.ctxDefs))
	o.ctxNames[lit] = n
	o.ctxDefs = append(o.ctxDefs, fmt.Sprintf("Definition %s := %s.", n, lit))
	return n
}

func (o *w3Out) argRef(chain string, call *w3Call) string {
	var ps []string
	for _, p := range call.Princ {
		if p == nil {
			ps = append(ps, "[]")
		} else {
			ps = append(ps, o.pool.Ref(p.Hash.BytesBE()))
		}
	}
	for len(ps) > 0 && ps[len(ps)-1] == "[]" {
		ps = ps[:len(ps)-1]
	}
	var nulls []string
	for _, n := range call.Nulls {
		nulls = append(nulls, fmt.Sprintf("%d%%nat", n))
	}
	ref := func(p *w3Princ) string {
		if p == nil {
			return "[]"
		}
		return o.pool.Ref(p.Hash.BytesBE())
	}
	lit := fmt.Sprintf("mkArgs %s %s %s %s %s %s %s", chain, ListLit(ps), ListLit(nulls), ref(call.Owner), ref(call.Admin), BoolLit(call.Shallow), BoolLit(call.SigsOK))
	if n, ok := o.argNames[lit]; ok {
		return n
	}
	n := fmt.Sprintf("ar%d", len(o.argDefs))
	o.argNames[lit] = n
	o.argDefs = append(o.argDefs, fmt.Sprintf("Definition %s := %s.", n, lit))
	return n
}

func (w *w3World) chainLit(o *w3Out, notaryOff bool) string {
	return w.chainLitWith(o, notaryOff, w.rk, w.princ("ir-committee").Hash)
}

func (w *w3World) chainLitWith(o *w3Out, notaryOff bool, rk []*wallet.Account, irc util.Uint160) string {
	return w.chainLitFor(o, "alphabet", notaryOff, rk, irc)
}

func (w *w3World) chainLitFor(o *w3Out, alphaInst string, notaryOff bool, rk []*wallet.Account, irc util.Uint160) string {
	keyAt := "[]"
	if p := w.alphaKeyAt(alphaInst); p != nil {
		keyAt = o.pool.Ref(p.Hash.BytesBE())
	}
	hl := func(ks []*wallet.Account) string {
		var xs []string
		for _, k := range ks {
			xs = append(xs, o.pool.Ref(w3Single("x", k).Hash.BytesBE()))
		}
		return ListLit(xs)
	}
	r := func(name string) string { return o.pool.Ref(w.princ(name).Hash.BytesBE()) }
	return fmt.Sprintf("mkChain %s %s %s %s %s %s %s %s %s %s", r("alpha"), r("committee"), o.pool.Ref(irc.BytesBE()), r("neofs-alpha"),
		hl(w.lk), hl(rk), keyAt, o.pool.Ref(w.gas.BytesBE()), o.pool.Ref(w.neo.BytesBE()), BoolLit(notaryOff))
}

func w3ArgsString(args []any) string {
	var parts []string
	for _, a := range args {
		switch x := a.(type) {
		case []byte:
			if len(x) > 12 {
				parts = append(parts, fmt.Sprintf("0x%x..(%d)", x[:6], len(x)))
			} else {
				parts = append(parts, fmt.Sprintf("0x%x", x))
			}
		case util.Uint160:
			parts = append(parts, "h160:"+x.StringLE()[:8])
		case []any:
			parts = append(parts, fmt.Sprintf("[%d items]", len(x)))
		case nil:
			parts = append(parts, "null")
		case stackitem.Item:
			parts = append(parts, x.Type().String())
		default:
			parts = append(parts, fmt.Sprint(x))
		}
	}
	return strings.Join(parts, ", ")
}

// runCall executes one prepared call under one signer set and records it.
func (w *w3World) runCall(o *w3Out, v *w3Variant, call *w3Call, set w3SigSet, req *w3Req) (succeeded bool) {
	inst := v.C
	notaryOff := inst == "neofs_nd"
	h := w.H[inst]
	before := w.snap()
	var r Result
	var caller *util.Uint160
	ps := set.Ps
	special := call.Via == "" && (set.viaHelper() || set.Sender != nil)
	if special {
		var tx0 *transaction.Transaction
		scope := transaction.None
		if set.viaHelper() {
			fh := w.H["caller"]
			caller = &fh
			tx0 = w.E.NewUnsignedTx(w.T, fh, "call", h, v.M, call.Args)
			if !set.SenderNoneViaHelper {
				scope = transaction.CalledByEntry
			}
		} else {
			tx0 = w.E.NewUnsignedTx(w.T, h, v.M, call.Args...)
		}
		tx := w.txS(set.Sender, scope, ps, set.Entry, tx0.Script, w3SysFee, set.Unscoped...)
		r = w.ResultOf(tx, w.E.AddNewBlock(w.T, tx))
	}
	switch call.Via {
	case "":
		if !special {
			r = w.sendU(ps, set.Unscoped, h, v.M, call.Args...)
		}
	case "contract":
		// through the forwarding helper contract: it is the calling script hash
		fh := w.H["caller"]
		caller = &fh
		r = w.sendU(ps, set.Unscoped, fh, "call", h, v.M, call.Args)
	case "gas", "neo":
		tok := w.gas
		if call.Via == "neo" {
			tok = w.neo
		}
		caller = &tok
		ps = w3Dedup(append([]*w3Princ{call.ViaFrom}, ps...))
		r = w.send(ps, tok, "transfer", call.ViaFrom.Hash, h, call.ViaAmt, call.ViaData)
	}
	after := w.snap()
	d := w.diffBut(before, after, set.Sender)
	effect := len(d.Storage) > 0 || len(d.Tokens) > 0 || len(r.Events) > 0
	class := w3Class(r)
	var hashes []util.Uint160
	var names []string
	var witnessing []*w3Princ
	for _, p := range ps {
		if set.Sender != nil && p.Hash == set.Sender.Hash {
			continue // the sender's own scope wins
		}
		hashes = append(hashes, p.Hash)
		names = append(names, p.Name)
		witnessing = append(witnessing, p)
	}
	ps = witnessing
	for _, p := range set.Unscoped {
		names = append(names, p.Name+"(scope None)")
	}
	for _, p := range set.Entry {
		names = append(names, p.Name+"(scope CalledByEntry, via a foreign contract)")
	}
	if set.Sender != nil {
		sc := "None"
		if set.SenderNoneViaHelper {
			sc = "None, via a foreign contract"
		} else if set.viaHelper() {
			sc = "CalledByEntry, via a foreign contract"
		}
		names = append([]string{set.Sender.Name + "(SENDER, scope " + sc + ")"}, names...)
	}
	ctx := w3Ctx{signers: hashes, caller: caller}
	mkey := w3MKey(inst, v.M, v.Arity)
	o.st.Evaluations++
	o.st.OpHistogram[inst+"."+v.M]++
	rec := w3Record{N: w.N, Inst: inst, Method: v.M, Arity: v.Arity, Variant: v.Label, Signers: set.Name, Accounts: names,
		Class: class, Fault: r.Fault, Effect: effect, Diff: d, Events: len(r.Events), Args: w3ArgsString(call.Args)}
	chainName := "ch_main"
	switch inst {
	case "neofs_nd":
		chainName = "ch_nd"
	case "alphabet_hi", "alphabet_last":
		chainName = "ch_" + inst
	}
	coqKey := o.keyRef(fmt.Sprintf("(%s, %q, %d%%nat)", w3CoqContract[inst], v.M, v.Arity))
	o.cases = append(o.cases, fmt.Sprintf("mkCase %s %s %s %s %s", coqKey, o.ctxRef(ps, caller), o.argRef(chainName, call), class, BoolLit(effect)))
	dk := fmt.Sprintf("%d|%s|%s/%d|%s|%s", w.N, inst, v.M, v.Arity, v.Label, set.Name)
	if req == nil {
		// no row: generic exercise
		if effect {
			o.st.OutcomeHistogram["unmodelled/effect"]++
			o.violate("unmodelled", fmt.Sprintf("method %s has no row in the requirement table and a stranger's call had an effect (%v)", mkey, d), rec)
		} else {
			o.st.OutcomeHistogram["unmodelled/inert"]++
		}
		o.unmodel[mkey] = true
		o.recs = append(o.recs, rec)
		return false
	}
	met := req.Eval(w, ctx, call, notaryOff)
	rec.Met = met
	succeeded = met && class == "OHaltOther"
	silentNoop := mkey == "container.delete/3" || mkey == "neofs.onNEP17Payment/3" // Model/Witness.v silent_noops
	refusingFalse := mkey == "nns.transfer/3" // Model/Witness.v refuses_with_false
	privileged := false
	for _, p := range ps {
		if p.Name != "stranger" {
			privileged = true
		}
	}
	switch {
	case !met && effect:
		o.st.OutcomeHistogram["unmet/EFFECT"]++
		o.violate("effect", fmt.Sprintf("%s (n=%d, %s) witnessed only by {%s}: requirement %s not met, yet the call had an effect: storage %v tokens %v notifications %d",
			mkey, w.N, v.Label, strings.Join(names, ","), req.Coq(), d.Storage, d.Tokens, len(r.Events)), rec)
	case !met && class == "OHaltOther" && silentNoop:
		o.st.OutcomeHistogram["unmet/silent-no-op-by-design"]++
	case !met && class == "OHaltOther":
		o.st.OutcomeHistogram["unmet/halt-without-refusal"]++
		o.violate("not_refused", fmt.Sprintf("%s (n=%d, %s) witnessed only by {%s}: requirement %s not met, the call changed nothing but neither faulted nor returned false",
			mkey, w.N, v.Label, strings.Join(names, ","), req.Coq()), rec)
	case !met:
		o.st.OutcomeHistogram["unmet/"+map[string]string{"OFaultGuard": "fault-at-guard", "OFault": "fault-elsewhere", "OFalse": "false"}[class]]++
		if privileged {
			o.distinct[dk] = true
		}
	case met && class == "OFalse" && !refusingFalse:
		o.st.OutcomeHistogram["met/answered-false"]++
		w3Best(o.reached, mkey, "halt")
	case met && (class == "OFaultGuard" || class == "OFalse"):
		o.st.OutcomeHistogram["met/REFUSED"]++
		o.violate("met_refused", fmt.Sprintf("%s (n=%d, %s) witnessed by {%s}: requirement %s met, yet the call was refused: %s %s",
			mkey, w.N, v.Label, strings.Join(names, ","), req.Coq(), class, r.Fault), rec)
	case met && class == "OFault":
		o.st.OutcomeHistogram["met/fault-after-guard"]++
		w3Best(o.reached, mkey, "guard-passed")
	case met && effect:
		o.st.OutcomeHistogram["met/halt-effect"]++
		w3Best(o.reached, mkey, "effect")
		o.distinct[dk] = true
	default:
		o.st.OutcomeHistogram["met/halt-no-effect"]++
		w3Best(o.reached, mkey, "halt")
	}
	if _, ok := o.reached[mkey]; !ok {
		o.reached[mkey] = "never-enabled"
	}
	o.perMethod[mkey]++
	o.recs = append(o.recs, rec)
	return succeeded
}

// violate records a violation; at most w3MaxViolations replay files per kind
// are written in one run (the rest is only counted).
const w3MaxViolations = 25

func (o *w3Out) violate(kind, what string, replay any) {
	if o.vcount == nil {
		o.vcount = map[string]int{}
	}
	o.vcount[kind]++
	o.st.Extra["violations_total_"+kind] = o.vcount[kind]
	if o.vcount[kind] > w3MaxViolations {
		return
	}
	o.st.AddViolation(what, replay)
}

var w3Rank = map[string]int{"never-enabled": 0, "guard-passed": 1, "halt": 2, "effect": 3}

func w3Best(m map[string]string, k, v string) {
	if w3Rank[v] > w3Rank[m[k]] || m[k] == "" {
		m[k] = v
	}
}

// ---------------------------------------------------------------------------
// The sweep

type w3Variant struct {
	C, M   string
	Arity  int
	Label  string
	Build  func(w *w3World, i int) *w3Call
	Repeat bool // the arguments are those of an earlier successful call
	// Boundary variants run under few signer sets: the unprivileged and
	// wrong-authority ones that do not meet the requirement, plus one that does.
	Boundary bool
}

func w3DefaultArg(w *w3World, p manifest.Parameter) any {
	switch p.Type.String() {
	case "Hash160":
		return w.princ("stranger").Hash
	case "Integer":
		return int64(1)
	case "ByteArray":
		return []byte{1, 2, 3}
	case "String":
		return "x"
	case "Boolean":
		return false
	case "Array":
		return []any{}
	case "PublicKey":
		return w.princ("stranger").Pub
	case "Signature":
		return w3Fill(64, 1)
	case "Hash256":
		return w3Fill(32, 1)
	}
	return nil
}

// runSets executes one variant under every signer set, the sets that do not
// meet the requirement first (so that the state the builder prepared is still
// there when the requirement is finally met); next yields the call of each
// execution.  It returns the last call that succeeded (requirement met, HALT).
func (w *w3World) runSets(o *w3Out, v *w3Variant, req *w3Req, next func() *w3Call) *w3Call {
	probe := next()
	w.fillPrinc(v, probe)
	probe.thinSets = v.Repeat
	sets := w.signerSets(probe, w.rng, w.nRandom)
	type item struct {
		s   w3SigSet
		met bool
	}
	var items []item
	for _, s := range sets {
		var hs []util.Uint160
		ps := s.Ps
		var caller *util.Uint160
		if probe.Via == "contract" || (probe.Via == "" && s.viaHelper()) {
			fh := w.H["caller"]
			caller = &fh
		} else if probe.Via != "" {
			ps = w3Dedup(append([]*w3Princ{probe.ViaFrom}, ps...))
			tok := w.gas
			if probe.Via == "neo" {
				tok = w.neo
			}
			caller = &tok
		}
		for _, p := range ps {
			if s.Sender != nil && p.Hash == s.Sender.Hash {
				continue
			}
			hs = append(hs, p.Hash)
		}
		met := req != nil && req.Eval(w, w3Ctx{signers: hs, caller: caller}, probe, v.C == "neofs_nd")
		items = append(items, item{s, met})
	}
	sort.SliceStable(items, func(i, j int) bool { return !items[i].met && items[j].met })
	if v.Boundary {
		var kept []item
		unmet, met := 0, 0
		for _, it := range items {
			n := it.s.Name
			wanted := n == "nobody" || n == "stranger" || n == "committee-majority" || n == "alphabet" ||
				strings.HasPrefix(n, "wrong-threshold:committee") ||
				(strings.HasPrefix(n, "named:") && !strings.Contains(n, "+") && n != "named:all")
			switch {
			case !it.met && wanted && unmet < 9:
				unmet++
				kept = append(kept, it)
			case it.met && met < 1:
				met++
				kept = append(kept, it)
			}
		}
		items = kept
	}
	if probe.Via == "gas" || probe.Via == "neo" {
		// a token transfer to the contract: the interesting witness is the sender's
		items = []item{{w3SigSet{Name: "token-holder"}, true}}
	}
	if req == nil {
		items = []item{{w3SigSet{Name: "stranger", Ps: []*w3Princ{w.princ("stranger")}}, false}}
	}
	var lastOK *w3Call
	for k, it := range items {
		call := probe
		if k > 0 {
			call = next()
			w.fillPrinc(v, call)
		}
		if w.runCall(o, v, call, it.s, req) {
			lastOK = call
		}
	}
	return lastOK
}

// w3Src: the contract an instance name stands for ("neofs_nd", "alphabet_hi", ...).
func w3Src(inst string) string {
	if i := strings.Index(inst, "_"); i >= 0 {
		return inst[:i]
	}
	return inst
}

func (w *w3World) methodOf(inst, name string, arity int) *manifest.Method {
	ms := w.C[w3Src(inst)].Manifest.ABI.Methods
	for i := range ms {
		if ms[i].Name == name && len(ms[i].Parameters) == arity {
			return &ms[i]
		}
	}
	return nil
}

// fillPrinc completes the principals of a call from its typed arguments: a
// Hash160 argument designates that account, a PublicKey argument the standard
// account of the key (principals set by the builder are kept).
// alphaKeyAt: the committee member an Alphabet contract instance obeys
// (neo.GetCommittee()[index]); nil when its index is not below the committee size.
func (w *w3World) alphaKeyAt(inst string) *w3Princ {
	switch inst {
	case "alphabet_hi":
		return nil
	case "alphabet_last":
		return w.princ(fmt.Sprintf("member%d", w.N-1))
	}
	return w.princ("member0")
}

func (w *w3World) fillPrinc(v *w3Variant, c *w3Call) {
	c.inst = v.C
	m := w.methodOf(v.C, v.M, v.Arity)
	if m == nil {
		return
	}
	for len(c.Princ) < len(c.Args) {
		c.Princ = append(c.Princ, nil)
	}
	known := func(h util.Uint160) *w3Princ {
		if p, ok := w.byHash[h]; ok {
			return p
		}
		return &w3Princ{Name: "unknown:" + h.StringLE()[:8], Hash: h}
	}
	for i := range c.Args {
		if i >= len(m.Parameters) || c.Princ[i] != nil {
			continue
		}
		switch m.Parameters[i].Type.String() {
		case "Hash160":
			switch a := c.Args[i].(type) {
			case util.Uint160:
				c.Princ[i] = known(a)
			case []byte:
				if h, err := util.Uint160DecodeBytesBE(a); err == nil {
					c.Princ[i] = known(h)
				}
			}
		case "PublicKey":
			if b, ok := c.Args[i].([]byte); ok && len(b) == 33 {
				if pk, err := keys.NewPublicKeyFromBytes(b, elliptic.P256()); err == nil {
					c.Princ[i] = known(pk.GetScriptHash())
				}
			}
		}
	}
	if v.C == "nns" {
		w.nnsFacts(v.M, c)
	}
}

type w3OKCall struct {
	v *w3Variant
	c *w3Call
}

func (w *w3World) sweep(o *w3Out, table map[string]*w3Req, variants []*w3Variant) {
	seq := 0
	var oks []w3OKCall
	for _, v := range variants {
		v := v
		if _, deployed := w.H[v.C]; !deployed {
			continue // an instance that does not exist on this chain
		}
		req := table[w3MKey(v.C, v.M, v.Arity)]
		ok := w.runSets(o, v, req, func() *w3Call { c := v.Build(w, seq); seq++; return c })
		if ok == nil || ok.Via != "" || req == nil {
			continue
		}
		if w.light {
			continue
		}
		// the same call once more, now that its target exists / it is a repeat
		oks = append(oks, w3OKCall{v, ok})
		rv := *v
		rv.Label = strings.TrimSpace(v.Label + " [identical arguments again, after the call succeeded]")
		rv.Repeat = true
		w.runSets(o, &rv, req, func() *w3Call { return ok.again(w) })
	}
	if w.light {
		return
	}
	w.crossReplay(o, table, oks)
	w.boundaryPass(o, table, variants)
}

type w3Mutation struct {
	desc string
	val  any
	via  string // "contract": the call is made through the forwarding helper
}

// w3Mutations lists the boundary values tried for one argument.
func w3Mutations(m *manifest.Method, args []any, i int) []w3Mutation {
	var out []w3Mutation
	switch m.Parameters[i].Type.String() {
	case "Integer":
		out = append(out, w3Mutation{desc: "0", val: int64(0)}, w3Mutation{desc: "-1", val: int64(-1)}, w3Mutation{desc: "2^40", val: int64(1) << 40})
	case "ByteArray":
		out = append(out, w3Mutation{desc: "empty", val: []byte{}}, w3Mutation{desc: "Null"})
		if b, ok := args[i].([]byte); ok && len(b) > 1 {
			out = append(out, w3Mutation{desc: "one byte shorter", val: append([]byte{}, b[:len(b)-1]...)})
		}
	case "Hash160":
		out = append(out, w3Mutation{desc: "Null"}, w3Mutation{desc: "19 bytes", val: w3Fill(19, 7)},
			w3Mutation{desc: "the calling contract's own hash, called through that contract", val: "helper", via: "contract"},
			w3Mutation{desc: "the called contract's own hash, called through a foreign contract", val: "callee", via: "contract"})
		for j, p := range m.Parameters {
			if j != i && p.Type.String() == "Hash160" && args[j] != nil {
				out = append(out, w3Mutation{desc: "same as " + p.Name, val: args[j]})
				break
			}
		}
	case "Hash256":
		out = append(out, w3Mutation{desc: "Null"}, w3Mutation{desc: "31 bytes", val: w3Fill(31, 7)})
	case "PublicKey":
		out = append(out, w3Mutation{desc: "Null"}, w3Mutation{desc: "32 bytes", val: w3Fill(32, 7)})
	case "String":
		out = append(out, w3Mutation{desc: "empty", val: ""})
	case "Array":
		out = append(out, w3Mutation{desc: "empty", val: []any{}}, w3Mutation{desc: "Null"})
	case "Boolean":
		if b, ok := args[i].(bool); ok {
			out = append(out, w3Mutation{desc: fmt.Sprint(!b), val: !b})
		}
	}
	return out
}

// boundaryPass re-sends every builder's call with ONE argument replaced by a
// boundary value of its type (0, -1, a huge number; empty, Null or
// wrong-length byte strings; the same account twice; ...), under the signer
// sets that do not meet the requirement and under one that does.  Guards
// that sit behind an argument-dependent shortcut are exposed here.
func (w *w3World) boundaryPass(o *w3Out, table map[string]*w3Req, variants []*w3Variant) {
	seq := 1 << 20
	for _, v := range variants {
		if v.Repeat || v.Boundary || strings.HasPrefix(v.M, "_") || v.M == "update" {
			continue
		}
		if _, deployed := w.H[v.C]; !deployed {
			continue
		}
		req := table[w3MKey(v.C, v.M, v.Arity)]
		m := w.methodOf(v.C, v.M, v.Arity)
		if req == nil || m == nil {
			continue
		}
		seq++
		probe := v.Build(w, seq)
		if probe.Via != "" || len(probe.Args) != len(m.Parameters) {
			continue
		}
		for i := range m.Parameters {
			for _, mu := range w3Mutations(m, probe.Args, i) {
				i, mu := i, mu
				lbl := v.Label
				if lbl != "" {
					lbl += " "
				}
				bv := &w3Variant{C: v.C, M: v.M, Arity: v.Arity, Repeat: true, Boundary: true,
					Label: fmt.Sprintf("%s[boundary: %s = %s]", lbl, m.Parameters[i].Name, mu.desc)}
				mk := func() *w3Call {
					seq++
					c := *v.Build(w, seq)
					c.Args = append([]any{}, c.Args...)
					c.Princ = append([]*w3Princ{}, c.Princ...)
					c.Nulls = append([]int{}, c.Nulls...)
					c.Args[i] = mu.val
					if mu.via != "" {
						c.Via = mu.via
						if mu.val == "helper" {
							c.Args[i] = w.H["caller"]
						} else {
							c.Args[i] = w.H[v.C]
						}
					}
					switch m.Parameters[i].Type.String() {
					case "Hash160", "PublicKey":
						if i < len(c.Princ) {
							c.Princ[i] = nil // re-derived from the new value
						}
					}
					var nulls []int
					for _, n := range c.Nulls {
						if n != i {
							nulls = append(nulls, n)
						}
					}
					c.Nulls = nulls
					if mu.val == nil {
						c.Nulls = append(c.Nulls, i)
					}
					c.SigsOK = false // signatures passed as argument no longer match the mutated call
					return &c
				}
				w.runSets(o, bv, req, mk)
			}
		}
	}
}

func w3TypesCompatible(a, b manifest.Parameter) bool {
	ta, tb := a.Type.String(), b.Type.String()
	return ta == tb || ta == "Any" || tb == "Any"
}

// crossReplay sends the arguments of every call that succeeded to the OTHER
// non-safe methods of the same contract that take the same leading
// parameters (overloads such as put/4, put/5, putNamed/6; pairs such as
// addPeer/addPeerIR, updateState/updateStateIR, mint/burn): the target of
// the call already exists, and whatever one entry point writes before it
// delegates to another is exposed.
func (w *w3World) crossReplay(o *w3Out, table map[string]*w3Req, oks []w3OKCall) {
	seq := 0
	for _, okc := range oks {
		A := okc.v
		if A.Repeat {
			continue
		}
		ma := w.methodOf(A.C, A.M, A.Arity)
		if ma == nil {
			continue
		}
		for _, mb := range w.C[w3Src(A.C)].Manifest.ABI.Methods {
			mb := mb
			if mb.Safe || strings.HasPrefix(mb.Name, "_") || (mb.Name == A.M && len(mb.Parameters) == A.Arity) {
				continue
			}
			pa, pb := ma.Parameters, mb.Parameters
			k := len(pa)
			if len(pb) < k {
				k = len(pb)
			}
			if k == 0 || !(mb.Name == A.M || k >= 2 || len(pa) == len(pb)) {
				continue
			}
			compatible := true
			for i := 0; i < k; i++ {
				if !w3TypesCompatible(pa[i], pb[i]) {
					compatible = false
				}
			}
			if !compatible {
				continue
			}
			modes := []string{""}
			for _, p := range pb[k:] {
				if t := p.Type.String(); t == "Boolean" || t == "String" {
					modes = []string{"extra parameters unset", "extra parameters set"}
				}
			}
			req := table[w3MKey(A.C, mb.Name, len(pb))]
			for _, mode := range modes {
				mode := mode
				lbl := fmt.Sprintf("arguments of a successful %s/%d", A.M, A.Arity)
				if A.Label != "" {
					lbl += " (" + A.Label + ")"
				}
				if mode != "" {
					lbl += ", " + mode
				}
				bv := &w3Variant{C: A.C, M: mb.Name, Arity: len(pb), Label: lbl, Repeat: true, Boundary: w.thin}
				seq++
				sq := seq
				mk := func() *w3Call {
					c := *okc.c
					c.Args = append([]any{}, okc.c.Args[:k]...)
					c.Princ = append([]*w3Princ{}, okc.c.Princ[:k]...)
					firstString := true
					for _, p := range pb[k:] {
						var a any
						switch p.Type.String() {
						case "Boolean":
							a = mode == "extra parameters set"
						case "String":
							a = ""
							if mode == "extra parameters set" && firstString {
								a = fmt.Sprintf("c03x%d", sq)
							}
							firstString = false
						default:
							a = w3DefaultArg(w, p)
						}
						c.Args = append(c.Args, a)
						c.Princ = append(c.Princ, nil)
					}
					return &c
				}
				w.runSets(o, bv, req, mk)
			}
		}
	}
}

// generic exercises the manifest methods for which there is no builder.
func (w *w3World) generic(o *w3Out, table map[string]*w3Req, variants []*w3Variant) []*w3Variant {
	have := map[string]bool{}
	for _, v := range variants {
		have[w3MKey(v.C, v.M, v.Arity)] = true
	}
	var extra []*w3Variant
	for _, name := range w3Contracts {
		for _, m := range w.C[name].Manifest.ABI.Methods {
			if m.Safe || have[w3MKey(name, m.Name, len(m.Parameters))] {
				continue
			}
			m := m
			name := name
			extra = append(extra, &w3Variant{C: name, M: m.Name, Arity: len(m.Parameters), Label: "generic default arguments",
				Build: func(w *w3World, i int) *w3Call {
					c := &w3Call{}
					for _, p := range m.Parameters {
						c.Args = append(c.Args, w3DefaultArg(w, p))
						c.Princ = append(c.Princ, nil)
					}
					return c
				}})
		}
	}
	return extra
}

// redesignation: the NeoFSAlphabet role (Inner Ring) is designated anew in
// block N (one member leaves, one joins).  A designation made in block N is
// effective from block N+1: calls gated by the Inner Ring list in the SAME
// block (after the designation) are still judged by the old list, calls in
// the VERY NEXT block by the new one.  Old-only, new-only and common members
// call audit.put; the old and the new majority accounts call neofs.update and
// processing.update.
func (w *w3World) redesignation(o *w3Out, table map[string]*w3Req) {
	rz := w3Key("inner-ring-new", 0)
	newOnly := w.addPrinc(w3Single("ir-member-new", rz))
	w.gasTransfer(newOnly.Hash, 1000_0000_0000)
	oldKeys := w.rk
	newKeys := w3SortAccs(append(append([]*wallet.Account{}, oldKeys[1:]...), rz))
	oldIRC := w.princ("ir-committee")
	newIRC := w.addPrinc(w3Multi("ir-committee-new", w3MajM(len(newKeys)), newKeys))
	oldOnly := w3Single("ir-member-old-only", oldKeys[0])
	common := w3Single("ir-member-common", oldKeys[1])
	w.rk2, w.irc2 = newKeys, newIRC.Hash

	type planned struct {
		inst, method string
		arity        int
		args         []any
		signer       *w3Princ
		princ        []*w3Princ
		tx           *transaction.Transaction
	}
	seq := 0
	plan := func(withUpdates bool) []*planned {
		var ps []*planned
		for _, who := range []*w3Princ{oldOnly, newOnly, common} {
			seq++
			ps = append(ps, &planned{inst: "audit", method: "put", arity: 1, signer: who, princ: []*w3Princ{who},
				args: []any{w3AuditBlob(int64(900+seq), w3ID("redesignate", seq), who.Pub)}})
		}
		if withUpdates {
			for _, inst := range []string{"neofs", "processing"} {
				nef, m := w.nefManifest(inst)
				for _, who := range []*w3Princ{oldIRC, newIRC} {
					ps = append(ps, &planned{inst: inst, method: "update", arity: 3, signer: who, args: []any{nef, m, nil}})
				}
			}
		}
		for _, p := range ps {
			tx0 := w.E.NewUnsignedTx(w.T, w.H[p.inst], p.method, p.args...)
			p.tx = w.tx([]*w3Princ{p.signer}, tx0.Script, w3SysFee)
		}
		return ps
	}
	judge := func(phase string, chainName string, effective []*wallet.Account, irc util.Uint160, b *block.Block, ps []*planned) {
		for _, p := range ps {
			r := w.ResultOf(p.tx, b)
			class := w3Class(r)
			effect := r.Halt // audit.put stores on HALT; update never halts here (same version)
			met := false
			if p.method == "put" {
				for _, k := range effective {
					if w3Single("x", k).Hash == p.signer.Hash {
						met = true
					}
				}
			} else {
				met = p.signer.Hash == irc
			}
			mkey := w3MKey(p.inst, p.method, p.arity)
			label := "re-designation of the Inner Ring, " + phase
			call := &w3Call{Args: p.args, Princ: p.princ}
			for len(call.Princ) < len(p.args) {
				call.Princ = append(call.Princ, nil)
			}
			o.st.Evaluations++
			o.st.OpHistogram[p.inst+"."+p.method]++
			coqKey := o.keyRef(fmt.Sprintf("(%s, %q, %d%%nat)", w3CoqContract[p.inst], p.method, p.arity))
			o.cases = append(o.cases, fmt.Sprintf("mkCase %s %s %s %s %s", coqKey, o.ctxRef([]*w3Princ{p.signer}, nil), o.argRef(chainName, call), class, BoolLit(effect)))
			rec := w3Record{N: w.N, Inst: p.inst, Method: p.method, Arity: p.arity, Variant: label, Signers: p.signer.Name, Accounts: []string{p.signer.Name},
				Met: met, Class: class, Fault: r.Fault, Effect: effect, Events: len(r.Events), Args: w3ArgsString(p.args)}
			o.recs = append(o.recs, rec)
			req := table[mkey]
			switch {
			case !met && effect:
				o.st.OutcomeHistogram["unmet/EFFECT"]++
				o.violate("effect", fmt.Sprintf("%s (n=%d, %s) witnessed only by {%s}: requirement %s not met (the signer is not in the list effective for that block), yet the call had an effect",
					mkey, w.N, label, p.signer.Name, req.Coq()), rec)
			case met && class == "OFaultGuard":
				o.st.OutcomeHistogram["met/REFUSED"]++
				o.violate("met_refused", fmt.Sprintf("%s (n=%d, %s) witnessed by {%s}: requirement %s met (the signer is in the list effective for that block), yet the call was refused: %s",
					mkey, w.N, label, p.signer.Name, req.Coq(), r.Fault), rec)
			case met:
				o.st.OutcomeHistogram["met/redesignation"]++
				o.distinct[fmt.Sprintf("%d|redesignate|%s|%s|%s", w.N, phase, mkey, p.signer.Name)] = true
			default:
				o.st.OutcomeHistogram["unmet/redesignation-refused"]++
				o.distinct[fmt.Sprintf("%d|redesignate|%s|%s|%s", w.N, phase, mkey, p.signer.Name)] = true
			}
		}
	}
	// block N: the designation, then calls in the same block
	d0 := w.E.NewUnsignedTx(w.T, w.roles, "designateAsRole", int64(noderoles.NeoFSAlphabet), w3Pubs(newKeys))
	dtx := w.tx(w.god(), d0.Script, w3SysFee)
	same := plan(false)
	txs := []*transaction.Transaction{dtx}
	for _, p := range same {
		txs = append(txs, p.tx)
	}
	bN := w.E.AddNewBlock(w.T, txs...)
	if r := w.ResultOf(dtx, bN); !r.Halt {
		panic(w3SetupFailure{"designateAsRole (re-designation)", r.Fault})
	}
	judge("same block as the designation", "ch_main", oldKeys, oldIRC.Hash, bN, same)
	// block N+1
	next := plan(true)
	txs = nil
	for _, p := range next {
		txs = append(txs, p.tx)
	}
	bN1 := w.E.AddNewBlock(w.T, txs...)
	judge("the block right after the designation", "ch_ir2", newKeys, newIRC.Hash, bN1, next)
	w.rk = newKeys
	w.snapOK = false
}

// safeSweep: methods declared safe never modify state, whoever signs.
func (w *w3World) safeSweep(o *w3Out) (int, int) {
	n, faults := 0, 0
	for _, name := range w3Contracts {
		for _, m := range w.C[name].Manifest.ABI.Methods {
			if !m.Safe {
				continue
			}
			var args []any
			for _, p := range m.Parameters {
				args = append(args, w3DefaultArg(w, p))
			}
			before := w.snap()
			r := w.send(w.god(w.princ("ir-committee"), w.princ("neofs-alpha")), w.H[name], m.Name, args...)
			d := w.diff(before, w.snap())
			n++
			if !r.Halt {
				faults++
			}
			if len(d.Storage) > 0 || len(d.Tokens) > 0 || len(r.Events) > 0 {
				o.st.AddViolation(fmt.Sprintf("safe method %s.%s/%d changed state when invoked with every privileged witness: %v", name, m.Name, len(m.Parameters), d),
					map[string]any{"committee": w.N, "contract": name, "method": m.Name, "diff": d, "notifications": len(r.Events)})
			}
		}
	}
	return n, faults
}

// verifySweep: the verify methods of Proxy / Alphabet / Processing.
func (w *w3World) verifySweep(o *w3Out) {
	empty := &w3Call{}
	for _, name := range []string{"proxy", "alphabet", "processing"} {
		for _, s := range w.signerSets(empty, w.rng, w.nRandom) {
			r := w.sendU(s.Ps, s.Unscoped, w.H[name], "verify")
			got := false
			if r.Halt && len(r.Stack) == 1 {
				if b, err := r.Stack[0].TryBool(); err == nil {
					got = b
				}
			}
			var hs []util.Uint160
			for _, p := range s.Ps {
				hs = append(hs, p.Hash)
			}
			c := w3Ctx{signers: hs}
			var want bool
			if name == "processing" {
				want = c.witnessed(w3hp(w.princ("neofs-alpha")))
			} else {
				want = c.witnessed(w3hp(w.princ("alpha"))) || c.witnessed(w3hp(w.princ("committee")))
			}
			o.st.Evaluations++
			o.st.OpHistogram[name+".verify"]++
			o.st.OutcomeHistogram[fmt.Sprintf("verify/%v", got)]++
			if got != want || !r.Halt {
				o.st.AddViolation(fmt.Sprintf("%s.verify (n=%d) with witnesses {%s} returned %v (halt=%v %s), expected %v", name, w.N, s.Name, got, r.Halt, r.Fault, want),
					map[string]any{"committee": w.N, "contract": name, "signer_set": s.Name})
			}
			o.verify = append(o.verify, fmt.Sprintf("(%s, %s, %s, %s)", w3CoqContract[name], o.ctxRef(s.Ps, nil), o.argRef("ch_main", empty), BoolLit(got)))
		}
	}
}

func (o *w3Out) write(w *w3World, path string, nonsafe []string, agree []string, first bool) error {
	var sb strings.Builder
	sb.WriteString("(* generated by harness/witness_test.go — do not edit *)\n")
	sb.WriteString("From Coq Require Import String.\nFrom Verif Require Import Base.Prelude Model.Witness.\nLocal Open Scope string_scope.\n")
	chMain, chND := w.chainLitWith(o, false, w.rk0, w.irc0), w.chainLitWith(o, true, w.rk0, w.irc0)
	chIR2 := ""
	if w.rk2 != nil {
		chIR2 = w.chainLitWith(o, false, w.rk2, w.irc2)
	}
	// force interning of everything before printing the pool
	body := strings.Join(o.cases, ";\n")
	sb.WriteString(o.pool.Defs())
	fmt.Fprintf(&sb, "Definition ch_main : chain := %s.\nDefinition ch_nd : chain := %s.\n", chMain, chND)
	for _, inst := range []string{"alphabet_hi", "alphabet_last"} {
		if _, ok := w.H[inst]; ok {
			fmt.Fprintf(&sb, "(* the Alphabet contract instance %s: another index *)\nDefinition ch_%s : chain := %s.\n", inst, inst,
				w.chainLitFor(o, inst, false, w.rk0, w.irc0))
		}
	}
	if chIR2 != "" {
		fmt.Fprintf(&sb, "(* after the re-designation of the NeoFSAlphabet role *)\nDefinition ch_ir2 : chain := %s.\n", chIR2)
	}
	sb.WriteString(strings.Join(o.keyDefs, "\n") + "\n")
	sb.WriteString(strings.Join(o.ctxDefs, "\n") + "\n")
	sb.WriteString(strings.Join(o.argDefs, "\n") + "\n")
	sb.WriteString("Definition cases : list case := [\n" + body + "\n].\n")
	sb.WriteString("Definition M := Eval vm_compute in failures_from 0 (map check_case cases).\nPrint M.\n")
	sb.WriteString("Definition verify_cases : list (contract * ctx * args * bool) := [\n" + strings.Join(o.verify, ";\n") + "\n].\n")
	sb.WriteString("Definition M_verify := Eval vm_compute in failures_from 0 (map check_verify verify_cases).\nPrint M_verify.\n")
	if first {
		sb.WriteString("(* every non-safe method of the manifests compiled now must have a row *)\n")
		sb.WriteString("Definition nonsafe_methods : list mkey := [\n" + strings.Join(nonsafe, ";\n") + "\n].\n")
		sb.WriteString("Definition M_cover := Eval vm_compute in failures_from 0 (map check_cover nonsafe_methods).\nPrint M_cover.\n")
		sb.WriteString("(* the harness's copy of each row agrees with the table *)\n")
		sb.WriteString("Definition harness_rows : list (mkey * req) := [\n" + strings.Join(agree, ";\n") + "\n].\n")
		sb.WriteString("Definition M_agree := Eval vm_compute in failures_from 0 (map check_agree harness_rows).\nPrint M_agree.\n")
		sb.WriteString("(* how many rows have a proved inertness theorem (Props/C03.v C03_models_cover) *)\n")
		sb.WriteString("Definition proved_vs_table := Eval vm_compute in (length proved_rows, length table).\nPrint proved_vs_table.\n")
		sb.WriteString("(* closed form of the coverage statement: fails to type-check when a method has no row *)\n")
		sb.WriteString("Definition covered : forallb (fun k => match required k with Some _ => true | None => false end) nonsafe_methods = true := eq_refl.\n")
	}
	return os.WriteFile(path, []byte(sb.String()), 0o644)
}

func TestC03(t *testing.T) {
	t0 := time.Now()
	st := NewStats("C03")
	// quick: 1 and 3 in full, plus an even committee (4) with the base sweep only
	sizes := []int{1, 3, 4}
	if Tier() == "thorough" {
		sizes = []int{1, 2, 3, 4, 5, 7}
	}
	table := w3Table()
	reachedAll := map[string]string{}
	distinct := map[string]bool{}
	unmodel := map[string]bool{}
	var samples []any
	var allRecs []w3Record
	perSize := map[string]any{}
	safeN, safeFaults := 0, 0
	for idx, n := range sizes {
		w := w3NewChain(t, n)
		w.rng = Rng(int64(3000 + n))
		w.nRandom = 3
		w.thin = true
		w.light = Tier() != "thorough" && n == 4
		if Tier() == "thorough" {
			w.nRandom = 10
			w.thin = false
		}
		if failed := func() (f *w3SetupFailure) {
			defer func() {
				if x := recover(); x != nil {
					sf, ok := x.(w3SetupFailure)
					if !ok {
						panic(x)
					}
					f = &sf
				}
			}()
			w.setup()
			return nil
		}(); failed != nil {
			st.AddViolation(fmt.Sprintf("set-up on a committee of %d keys: %s, witnessed by the genuine committee-majority AND Alphabet accounts, was refused: %s",
				n, failed.What, failed.Fault), map[string]any{"committee": n, "call": failed.What, "fault": failed.Fault})
			// what can still be swept on this chain: the committee rows of NNS
			// (deployed first), under every signer set
			if _, ok := w.H["nns"]; ok {
				o := &w3Out{st: st, pool: NewPool("b"), ctxNames: map[string]string{}, argNames: map[string]string{},
					reached: map[string]string{}, distinct: distinct, unmodel: unmodel, perMethod: map[string]int{}}
				seq := 0
				for _, v := range w3Variants() {
					v := v
					if v.C == "nns" && (v.M == "registerTLD" || v.M == "setPrice") {
						w.runSets(o, v, table[w3MKey(v.C, v.M, v.Arity)], func() *w3Call { seq++; return v.Build(w, seq) })
					}
				}
			}
			continue
		}
		o := &w3Out{st: st, pool: NewPool("b"), ctxNames: map[string]string{}, argNames: map[string]string{},
			reached: map[string]string{}, distinct: distinct, unmodel: unmodel, perMethod: map[string]int{}}
		// corpus first: the F5 scenario (NeoFS in notary-disabled mode, a stranger calls setConfig)
		vs := w3Variants()
		var corpus, rest []*w3Variant
		for _, v := range vs {
			if v.C == "neofs_nd" && v.M == "setConfig" {
				corpus = append(corpus, v)
			} else {
				rest = append(rest, v)
			}
		}
		ordered := append(corpus, rest...)
		extra := w.generic(o, table, ordered)
		w.sweep(o, table, append(ordered, extra...))
		w.verifySweep(o)
		a, b := w.safeSweep(o)
		safeN += a
		safeFaults += b
		w.redesignation(o, table)
		st.Histories++
		// coverage list and row agreement (first file only)
		var nonsafe, agree []string
		if idx == 0 {
			for _, name := range w3Contracts {
				for _, m := range w.C[name].Manifest.ABI.Methods {
					if !m.Safe {
						nonsafe = append(nonsafe, fmt.Sprintf("(%s, %q, %d%%nat)", w3CoqContract[name], m.Name, len(m.Parameters)))
					}
				}
			}
			var ks []string
			for k := range table {
				ks = append(ks, k)
			}
			sort.Strings(ks)
			for _, k := range ks {
				dot := strings.Index(k, ".")
				slash := strings.LastIndex(k, "/")
				agree = append(agree, fmt.Sprintf("((%s, %q, %s%%nat), %s)", w3CoqContract[k[:dot]], k[dot+1:slash], k[slash+1:], table[k].Coq()))
			}
		}
		require.NoError(t, o.write(w, filepath.Join(OutDir(), fmt.Sprintf("cases_C03_n%d.v", n)), nonsafe, agree, idx == 0))
		for k, v := range o.reached {
			w3Best(reachedAll, k, v)
		}
		perSize[fmt.Sprintf("n=%d", n)] = map[string]any{"cases": len(o.cases), "verify_cases": len(o.verify),
			"alpha_threshold": w3AlphaM(n), "majority_threshold": w3MajM(n), "blocks": w.BC.BlockHeight()}
		allRecs = append(allRecs, o.recs...)
	}
	// samples: the F5 corpus case, one wrong-multisig case, one met case
	pick := func(f func(r w3Record) bool) {
		for _, r := range allRecs {
			if f(r) {
				samples = append(samples, r)
				return
			}
		}
	}
	pick(func(r w3Record) bool { return r.Inst == "neofs_nd" && r.Method == "setConfig" && r.Signers == "stranger" && r.N == 3 })
	pick(func(r w3Record) bool { return r.Inst == "netmap" && r.Method == "newEpoch" && r.Signers == "committee-majority" && r.N == 3 })
	pick(func(r w3Record) bool { return r.Inst == "netmap" && r.Method == "updateState" && r.Met && r.Effect && r.N == 3 })
	st.Samples = samples
	st.DistinctNontrivial = len(distinct)
	st.Rule = "distinct (committee size, contract instance, method/arity, argument variant, signer set) tuples executed where either the requirement was met and the call had an effect, or it was NOT met although the signer set held at least one principal other than a stranger (a member, a multi-signature account, the named key/owner, ...)"
	var notReached, guardOnly, haltOnly []string
	nReached := 0
	for k, v := range reachedAll {
		switch v {
		case "effect":
			nReached++
		case "halt":
			haltOnly = append(haltOnly, k)
		case "guard-passed":
			guardOnly = append(guardOnly, k)
		default:
			notReached = append(notReached, k)
		}
	}
	sort.Strings(notReached)
	sort.Strings(guardOnly)
	sort.Strings(haltOnly)
	var un []string
	for k := range unmodel {
		un = append(un, k)
	}
	sort.Strings(un)
	st.Extra["methods_swept"] = len(reachedAll)
	st.Extra["enabled_reached_effect"] = nReached
	st.Extra["enabled_reached_halt_without_effect"] = haltOnly
	st.Extra["enabled_guard_passed_then_fault"] = guardOnly
	st.Extra["never_enabled_by_design_or_not_reached"] = notReached
	st.Extra["unmodelled_methods"] = un
	st.Extra["per_committee_size"] = perSize
	st.Extra["safe_methods_invoked"] = safeN
	st.Extra["safe_methods_faulted_on_default_arguments"] = safeFaults
	st.Extra["table_rows"] = len(table)
	// rows with a machine-checked inertness theorem: entries of proved_rows in Model/Witness.v
	if src, err := os.ReadFile(filepath.Join(envOr("VERIF_COQ", "/verif/coq"), "Model", "Witness.v")); err == nil {
		txt := string(src)
		if i := strings.Index(txt, "Definition proved_rows"); i >= 0 {
			if j := strings.Index(txt[i:], "]."); j >= 0 {
				proved := strings.Count(txt[i:i+j], "\n  ((K")
				st.Extra["rows_with_proved_inertness"] = proved
				st.Extra["rows_swept_only_or_open"] = len(table) - proved
			}
		}
	}
	st.Extra["seconds"] = time.Since(t0).Seconds()
	st.Extra["corpus"] = "neofs (notary-disabled) setConfig by a stranger runs first on every chain (defect F5, fixed by 13a1b83)"
	// the gravest first: an effect without the required witnesses
	sort.SliceStable(st.Violations, func(i, j int) bool {
		return strings.Contains(st.Violations[i].What, "had an effect") && !strings.Contains(st.Violations[j].What, "had an effect")
	})
	st.Write()
	if rb, err := json.Marshal(allRecs); err == nil {
		_ = os.WriteFile(filepath.Join(OutDir(), "records_C03.json"), rb, 0o644)
	}
	if len(st.Violations) > 0 {
		for _, v := range st.Violations {
			t.Logf("VIOLATION: %s", v.What)
		}
		t.Fail()
	}
}
