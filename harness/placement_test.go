package harness

import (
	"crypto/elliptic"
	"crypto/sha256"
	"encoding/binary"
	"fmt"
	"math"
	"math/big"
	"math/rand"
	"path/filepath"
	"regexp"
	"sort"
	"strings"
	"testing"

	"github.com/mr-tron/base58"
	"github.com/nspcc-dev/neo-go/pkg/crypto/keys"
	"github.com/nspcc-dev/neo-go/pkg/encoding/address"
	"github.com/nspcc-dev/neo-go/pkg/encoding/bigint"
	"github.com/nspcc-dev/neo-go/pkg/neotest"
	"github.com/nspcc-dev/neo-go/pkg/util"
	"github.com/nspcc-dev/neo-go/pkg/vm"
	"github.com/nspcc-dev/neo-go/pkg/vm/stackitem"
	"github.com/nspcc-dev/neofs-contract/contracts/container/containerconst"
	"github.com/stretchr/testify/require"
)

// ---------------------------------------------------------------------------
// C14: placement roster of the container contract (addNextEpochNodes,
// commitContainerListUpdate, nodes, replicasNumbers,
// verifyPlacementSignatures, submitObjectPut) against Model/Placement.v.

const (
	plcContainerFee = 0_0100_0000
	plcAliasFee     = 0_0050_0000
)

type plcEnv struct {
	*Env
	nns, netmap, balance, container util.Uint160
	stranger                        neotest.Signer
	magic                           int64
}

// newPlcEnv deploys exactly what newContainerInvoker(t, false) of
// /repo/tests/container_test.go deploys.
func newPlcEnv(t testing.TB) *plcEnv {
	v := NewEnv(t)
	e := v.E
	p := &plcEnv{Env: v}
	cNm := v.Compile("netmap")
	cBal := v.Compile("balance")
	cCnr := v.Compile("container")
	cNNS := v.Compile("nns")
	e.DeployContract(t, cNNS, []any{[]any{[]any{"neofs", "ops@nspcc.io"}}})
	p.nns = cNNS.Hash
	reg := func(name string, h util.Uint160) {
		inv := e.CommitteeInvoker(p.nns)
		inv.Invoke(t, true, "register", name+".neofs", e.CommitteeHash, "ops@nspcc.ru", int64(3600), int64(600), int64(10*365*24*3600*1000), int64(3600))
		addr := h.StringLE()
		if h[0] > 127 {
			addr = address.Uint160ToString(h)
		}
		inv.Invoke(t, nil, "addRecord", name+".neofs", 16, addr)
	}
	_, pubs, ok := vm.ParseMultiSigContract(e.Committee.Script())
	require.True(t, ok)
	e.DeployContract(t, cNm, []any{false, util.Uint160{}, util.Uint160{}, []any{pubs[0]},
		[]any{containerconst.RegistrationFeeKey, int64(plcContainerFee), containerconst.AliasFeeKey, int64(plcAliasFee)}})
	p.netmap = cNm.Hash
	reg("netmap", cNm.Hash)
	e.DeployContract(t, cBal, []any{false, cNm.Hash, cCnr.Hash})
	p.balance = cBal.Hash
	reg("balance", cBal.Hash)
	e.DeployContract(t, cCnr, []any{int64(0), cNm.Hash, cBal.Hash, util.Uint160{}, p.nns, nil})
	p.container = cCnr.Hash
	reg("container", cCnr.Hash)
	p.magic = int64(v.BC.GetConfig().Magic)
	return p
}

// invoke is Env.Invoke with a system fee that grows with the amount of
// storage work (Env.PrepareTx's fixed 30 GAS does not cover a commit of 300 keys).
func (p *plcEnv) invoke(alpha bool, work int, h util.Uint160, method string, args ...any) Result {
	sg := p.signer(alpha) // may add a block (funding of the stranger): before the tx is built
	tx := p.E.NewUnsignedTx(p.T, h, method, args...)
	tx = p.E.SignTx(p.T, tx, int64(30+work)*1_0000_0000, sg...)
	b := p.E.AddNewBlock(p.T, tx)
	return p.ResultOf(tx, b)
}

func (p *plcEnv) signer(alpha bool) []neotest.Signer {
	if alpha {
		return []neotest.Signer{p.E.Committee}
	}
	if p.stranger == nil {
		p.stranger = p.E.NewAccount(p.T, 2000_0000_0000)
	}
	return []neotest.Signer{p.stranger}
}

// ---------------------------------------------------------------------------
// Keys and signatures (deterministic)

type plcRing struct {
	priv []*keys.PrivateKey
	pub  [][]byte
	sigs map[string][]byte
	r    *rand.Rand
	cids [][]byte
	msgs [][]byte
	cnts []plcCnt
}

const plcRingSize = 330

var plcRingV *plcRing

func plcPriv(r *rand.Rand) *keys.PrivateKey {
	for {
		b := make([]byte, 32)
		r.Read(b)
		k, err := keys.NewPrivateKeyFromBytes(b)
		if err == nil {
			return k
		}
	}
}

func plcGetRing() *plcRing {
	if plcRingV != nil {
		return plcRingV
	}
	r := Rng(140001)
	g := &plcRing{sigs: map[string][]byte{}, r: Rng(140002)}
	for i := 0; i < plcRingSize; i++ {
		k := plcPriv(r)
		g.priv = append(g.priv, k)
		g.pub = append(g.pub, k.PublicKey().Bytes())
	}
	for i := 0; i < 4; i++ {
		c := make([]byte, 32)
		r.Read(c)
		g.cids = append(g.cids, c)
	}
	for i := 0; i < 4; i++ {
		m := make([]byte, 12+4*i)
		r.Read(m)
		g.msgs = append(g.msgs, m)
	}
	for i := 0; i < 4; i++ {
		g.cnts = append(g.cnts, plcMakeCnt(r))
	}
	plcRingV = g
	return g
}

func plcSigBytes(r, s *big.Int) []byte {
	out := make([]byte, 64)
	r.FillBytes(out[:32])
	s.FillBytes(out[32:])
	return out
}

// Signature kinds.
const (
	plcRFC      = iota // priv.Sign (RFC 6979)
	plcAlt             // hand-made ECDSA with a nonce from the PRNG
	plcMallRFC         // (r, n-s) of plcRFC
	plcMallAlt         // (r, n-s) of plcAlt
	plcNumKinds = 4
)

// sig returns the signature of msg by ring key i of the given kind (cached:
// the same request returns the same bytes in every history).
func (g *plcRing) sig(kind, i int, msg []byte) []byte {
	ck := fmt.Sprintf("%d|%d|%x", kind, i, msg)
	if s, ok := g.sigs[ck]; ok {
		return s
	}
	var out []byte
	n := elliptic.P256().Params().N
	switch kind {
	case plcRFC:
		out = g.priv[i].Sign(msg)
	case plcAlt:
		c := elliptic.P256()
		d := g.priv[i].D
		zh := sha256.Sum256(msg)
		z := new(big.Int).SetBytes(zh[:])
		for {
			kb := make([]byte, 32)
			g.r.Read(kb)
			k := new(big.Int).SetBytes(kb)
			k.Mod(k, n)
			if k.Sign() == 0 {
				continue
			}
			x, _ := c.ScalarBaseMult(k.Bytes())
			rr := new(big.Int).Mod(x, n)
			if rr.Sign() == 0 {
				continue
			}
			s := new(big.Int).Mul(rr, d)
			s.Add(s, z)
			s.Mul(s, new(big.Int).ModInverse(k, n))
			s.Mod(s, n)
			if s.Sign() == 0 {
				continue
			}
			out = plcSigBytes(rr, s)
			break
		}
		if !plcVerify(msg, g.pub[i], out) {
			panic("hand-made ECDSA signature does not verify")
		}
	case plcMallRFC, plcMallAlt:
		base := g.sig(kind-2, i, msg)
		rr := new(big.Int).SetBytes(base[:32])
		s := new(big.Int).SetBytes(base[32:])
		s.Sub(n, s)
		out = plcSigBytes(rr, s)
	}
	g.sigs[ck] = out
	return out
}

func (g *plcRing) junk(n, tag int) []byte {
	ck := fmt.Sprintf("junk|%d|%d", n, tag)
	if s, ok := g.sigs[ck]; ok {
		return s
	}
	out := make([]byte, n)
	g.r.Read(out)
	g.sigs[ck] = out
	return out
}

var plcPubCache = map[string]*keys.PublicKey{}
var plcVerCache = map[[32]byte]bool{}

func plcDecode(key []byte) *keys.PublicKey {
	if p, ok := plcPubCache[string(key)]; ok {
		return p
	}
	p, err := keys.NewPublicKeyFromBytes(key, elliptic.P256())
	if err != nil {
		p = nil
	}
	plcPubCache[string(key)] = p
	return p
}

// plcVerify is neo-go's verifier (what crypto.VerifyWithECDsa runs), false
// for a key that does not decode.
func plcVerify(msg, key, sig []byte) bool {
	var lb [12]byte
	binary.LittleEndian.PutUint32(lb[0:], uint32(len(msg)))
	binary.LittleEndian.PutUint32(lb[4:], uint32(len(key)))
	binary.LittleEndian.PutUint32(lb[8:], uint32(len(sig)))
	hh := sha256.New()
	hh.Write(lb[:])
	hh.Write(msg)
	hh.Write(key)
	hh.Write(sig)
	var ck [32]byte
	copy(ck[:], hh.Sum(nil))
	if v, ok := plcVerCache[ck]; ok {
		return v
	}
	p := plcDecode(key)
	res := false
	if p != nil {
		d := sha256.Sum256(msg)
		res = p.Verify(sig, d[:])
	}
	plcVerCache[ck] = res
	return res
}

// ---------------------------------------------------------------------------
// Containers (as dummyContainer of /repo/tests, but from the PRNG)

type plcCnt struct {
	id                     []byte
	value, sig, pub, token []byte
	owner                  util.Uint160
}

func plcMakeCnt(r *rand.Rand) plcCnt {
	rb := func(n int) []byte { b := make([]byte, n); r.Read(b); return b }
	value := rb(100)
	value[1] = 0
	owner := plcPriv(r).GetScriptHash()
	ob, _ := base58.Decode(address.Uint160ToString(owner))
	copy(value[6:], ob)
	id := sha256.Sum256(value)
	return plcCnt{id: id[:], value: value, sig: rb(64), pub: rb(33), token: rb(42), owner: owner}
}

// ---------------------------------------------------------------------------
// Metas

type plcKV struct {
	k string
	v stackitem.Item
}

func plcIDs(ids ...[]byte) stackitem.Item {
	var a []stackitem.Item
	for _, x := range ids {
		a = append(a, stackitem.NewByteArray(x))
	}
	return stackitem.NewArray(a)
}

// plcMeta is testMeta of /repo/tests/container_test.go with fixed ids.
func plcMeta(magic int64, cid, oid []byte, vub stackitem.Item) []plcKV {
	g := plcGetRing()
	return []plcKV{
		{"network", stackitem.Make(magic)},
		{"cid", stackitem.NewByteArray(cid)},
		{"oid", stackitem.NewByteArray(oid)},
		{"size", stackitem.Make(123)},
		{"deleted", plcIDs(g.cids[2])},
		{"locked", plcIDs(g.cids[3])},
		{"validuntil", vub},
	}
}

func plcSet(m []plcKV, k string, v stackitem.Item) []plcKV {
	out := append([]plcKV{}, m...)
	for i := range out {
		if out[i].k == k {
			out[i].v = v
			return out
		}
	}
	return append(out, plcKV{k, v})
}

func plcDrop(m []plcKV, k string) []plcKV {
	var out []plcKV
	for _, e := range m {
		if e.k != k {
			out = append(out, e)
		}
	}
	return out
}

func plcMap(m []plcKV) *stackitem.Map {
	var es []stackitem.MapElement
	for _, e := range m {
		es = append(es, stackitem.MapElement{Key: stackitem.Make(e.k), Value: e.v})
	}
	return stackitem.NewMapWithValue(es)
}

func plcRaw(t testing.TB, m []plcKV) []byte {
	b, err := stackitem.Serialize(plcMap(m))
	require.NoError(t, err)
	return b
}

// ---------------------------------------------------------------------------
// One history: executor + recorder + monitor

type plcRun struct {
	t          *testing.T
	st         *Stats
	cf         *CasesFile
	distinct   map[string]bool
	maxKeys    int
	verTrue    int
	verFalse   int
	f6Tried    int
	crossTried int
	notes      map[string]string // boundary behaviours observed (Extra)
	hcount     int
}

type plcHist struct {
	run  *plcRun
	name string
	env  *plcEnv
	pool *Pool
	g    *plcRing

	steps []string
	lines []string // literal history, one "op => obs" per step (pool names)
	canon strings.Builder

	msgs, keys, sigs, raws [][]byte
	seen                   map[string]bool

	// reference roster (monitor)
	pend, comm map[string]map[byte][][]byte
	reps       map[string][]int64

	acceptedCommit, checkedOrRefused bool
	fault                            string // fault text of the last persisted invocation

	// ring indices of the members of ANOTHER container's committed roster
	// (signature class "member of another container")
	alien []int
}

func (r *plcRun) newHist(name string) *plcHist {
	h := &plcHist{run: r, name: name, env: newPlcEnv(r.t), pool: r.cf.Pool, g: plcGetRing(),
		seen: map[string]bool{}, pend: map[string]map[byte][][]byte{}, comm: map[string]map[byte][][]byte{},
		reps: map[string][]int64{}}
	return h
}

func (h *plcHist) note(list *[][]byte, tag string, b []byte) {
	k := tag + string(b)
	if h.seen[k] {
		return
	}
	h.seen[k] = true
	*list = append(*list, b)
}

func (h *plcHist) ref(b []byte) string { return h.pool.Ref(b) }

func (h *plcHist) refs(bs [][]byte) string {
	out := make([]string, len(bs))
	for i, b := range bs {
		out[i] = h.ref(b)
	}
	return ListLit(out)
}

func (h *plcHist) sigsLit(sigs [][][]byte) string {
	out := make([]string, len(sigs))
	for i, v := range sigs {
		out[i] = h.refs(v)
	}
	return ListLit(out)
}

func (h *plcHist) vbl(bs [][]byte) string {
	out := make([]string, len(bs))
	for i, b := range bs {
		out[i] = VBytesRef(h.ref(b))
	}
	return VList(out)
}

var plcObsFault = VList([]string{VFault, VList(nil)})
var plcObsNull = VList([]string{VNull, VList(nil)})

func (h *plcHist) record(kind, op, obs, outcome string) {
	h.steps = append(h.steps, fmt.Sprintf("(%s, %s)", op, obs))
	h.lines = append(h.lines, op+" => "+obs)
	fmt.Fprintf(&h.canon, "%s:%s;", op, outcome)
	st := h.run.st
	st.Evaluations++
	st.OpHistogram[kind]++
	st.OutcomeHistogram[kind+"/"+outcome]++
}

func (h *plcHist) violate(what string) {
	h.run.st.AddViolation(what, h.literal(0))
}

var plcNameRe = regexp.MustCompile(`\bp[0-9]+\b`)

// literal is the history so far as a JSON-able value: the ops and observed
// results in the notation of the cases file plus the bytes behind every name.
func (h *plcHist) literal(max int) any {
	lines := h.lines
	if max > 0 && len(lines) > max {
		lines = append(append([]string{}, lines[:max]...), "...")
	}
	legend := map[string]string{}
	for _, l := range lines {
		for _, n := range plcNameRe.FindAllString(l, -1) {
			var idx int
			fmt.Sscanf(n, "p%d", &idx)
			if idx < len(h.pool.order) {
				legend[n] = Hex([]byte(h.pool.order[idx]))
			}
		}
	}
	return map[string]any{"history": h.name, "network": h.env.magic, "steps": lines, "bytes": legend}
}

func plcVecByte(v int64) byte { return byte(((v % 256) + 256) % 256) }

func (h *plcHist) vecs(m map[string]map[byte][][]byte, cid []byte) map[byte][][]byte {
	if m[string(cid)] == nil {
		m[string(cid)] = map[byte][][]byte{}
	}
	return m[string(cid)]
}

func plcArgKeys(ks [][]byte) []any {
	out := make([]any, len(ks))
	for i, k := range ks {
		out[i] = k
	}
	return out
}

func plcArgSigs(sigs [][][]byte) []any {
	out := make([]any, len(sigs))
	for i, v := range sigs {
		out[i] = plcArgKeys(v)
	}
	return out
}

func plcShort(s string) string {
	if i := strings.Index(s, "error encountered at instruction"); i >= 0 {
		if j := strings.Index(s[i:], "): "); j >= 0 {
			s = s[i+j+3:]
		}
	}
	if len(s) > 110 {
		s = s[:110]
	}
	return s
}

func plcHF(halt bool) string {
	if halt {
		return "halt"
	}
	return "fault"
}

// Add: addNextEpochNodes.
func (h *plcHist) Add(alpha bool, cid []byte, vec int64, ks [][]byte) bool {
	r := h.env.invoke(alpha, len(ks), h.env.container, "addNextEpochNodes", cid, vec, plcArgKeys(ks))
	h.fault = r.Fault
	for _, k := range ks {
		if len(k) == 33 {
			h.note(&h.keys, "k", k)
		}
	}
	obs := plcObsFault
	if r.Halt {
		obs = plcObsNull
	}
	h.record("add", fmt.Sprintf("OAdd %s %s %s %s", BoolLit(alpha), h.ref(cid), ZI(vec), h.refs(ks)), obs, plcHF(r.Halt))
	// reference
	ok := alpha && len(cid) == 32 && vec > -128 && vec < 255
	if ok && vec != 0 && len(h.vecs(h.pend, cid)[plcVecByte(vec-1)]) == 0 {
		ok = false
	}
	for _, k := range ks {
		if len(k) != 33 {
			ok = false
		}
	}
	if ok != r.Halt {
		h.violate(fmt.Sprintf("roster: addNextEpochNodes %s although the reference rule says accept=%v (%s)", plcHF(r.Halt), ok, r.Fault))
	}
	if r.Halt {
		p := h.vecs(h.pend, cid)
		b := plcVecByte(vec)
		p[b] = append(p[b], ks...)
		if len(p[b]) > h.run.maxKeys {
			h.run.maxKeys = len(p[b])
		}
		h.checkPending(cid)
	} else {
		h.checkedOrRefused = true
	}
	return r.Halt
}

// storedValues reads the values stored under a prefix of the container
// contract, in key order (what a Find over that prefix yields).
func (h *plcHist) storedValues(pfx []byte) [][]byte {
	cs := h.env.BC.GetContractState(h.env.container)
	var out [][]byte
	h.env.BC.SeekStorage(cs.ID, pfx, func(_, v []byte) bool {
		out = append(out, append([]byte{}, v...))
		return true
	})
	return out
}

// checkPending (monitor): the pending roster in storage must be, vector by
// vector and in key order, exactly the concatenation of the accepted
// addNextEpochNodes batches since the last commit — nothing lost, nothing
// overwritten, nothing under other vectors.
func (h *plcHist) checkPending(cid []byte) {
	if len(cid) != 32 {
		return
	}
	ref := h.vecs(h.pend, cid)
	total := 0
	for bi := 0; bi < 256; bi++ {
		b := byte(bi)
		want, touched := ref[b]
		if !touched {
			continue
		}
		total += len(want)
		if got := h.storedValues(plcPfx('u', cid, b)); !plcEqLists(got, want) {
			h.violate(fmt.Sprintf("roster: pending nodes of vector %d in storage (%d keys) differ from the concatenation of the accepted batches (%d keys)", b, len(got), len(want)))
			return
		}
	}
	if got := len(h.storedValues(plcPfx('u', cid))); got != total {
		h.violate(fmt.Sprintf("roster: %d pending records in storage, %d keys accepted since the last commit", got, total))
	}
}

// Commit: commitContainerListUpdate. reps == nil: Null. asBytes: the list is
// passed as a ByteString (what a []uint8 argument becomes in neo-go clients).
func (h *plcHist) Commit(alpha bool, cid []byte, reps []int64, asBytes bool) bool {
	var arg any
	lit := "None"
	if reps != nil {
		zs := make([]string, len(reps))
		if asBytes {
			b := make([]byte, len(reps))
			for i, x := range reps {
				b[i] = byte(x)
				zs[i] = ZI(int64(byte(x)))
			}
			arg = b
		} else {
			a := make([]any, len(reps))
			for i, x := range reps {
				a[i] = x
				zs[i] = ZI(x)
			}
			arg = a
		}
		lit = "(Some " + ListLit(zs) + ")"
	}
	work := len(reps)
	for _, l := range h.pend[string(cid)] {
		work += len(l)
	}
	for _, l := range h.comm[string(cid)] {
		work += len(l)
	}
	r := h.env.invoke(alpha, work, h.env.container, "commitContainerListUpdate", cid, arg)
	h.fault = r.Fault
	obs := plcObsFault
	if r.Halt {
		var evs []string
		for _, ev := range r.Events {
			if ev.ScriptHash == h.env.container && ev.Name == "NodesUpdate" {
				items := ev.Item.Value().([]stackitem.Item)
				evs = append(evs, VList([]string{VIntI(0), VBytesRef(h.ref(ItemBytes(items[0])))}))
			}
		}
		obs = VList([]string{VNull, VList(evs)})
	}
	h.record("commit", fmt.Sprintf("OCommit %s %s %s", BoolLit(alpha), h.ref(cid), lit), obs, plcHF(r.Halt))
	ok := alpha && len(cid) == 32 && len(reps) <= 256
	eff := make([]int64, len(reps))
	for i, x := range reps {
		if asBytes {
			x = int64(byte(x))
		}
		eff[i] = x
		if x > 255 {
			ok = false
		}
	}
	if ok != r.Halt {
		h.violate(fmt.Sprintf("roster: commitContainerListUpdate %s although the reference rule says accept=%v (%s)", plcHF(r.Halt), ok, r.Fault))
	}
	if r.Halt {
		h.comm[string(cid)] = h.pend[string(cid)]
		h.pend[string(cid)] = nil
		h.reps[string(cid)] = eff
		h.acceptedCommit = true
	} else {
		h.checkedOrRefused = true
	}
	return r.Halt
}

func plcItemList(it stackitem.Item) [][]byte {
	arr, ok := it.Value().([]stackitem.Item)
	if !ok {
		return [][]byte{[]byte("?" + it.String())}
	}
	out := make([][]byte, len(arr))
	for i, x := range arr {
		out[i] = ItemBytes(x)
	}
	return out
}

func plcEqLists(a, b [][]byte) bool {
	if len(a) != len(b) {
		return false
	}
	for i := range a {
		if string(a[i]) != string(b[i]) {
			return false
		}
	}
	return true
}

// Nodes: nodes(cid, vec), iterator expanded.
func (h *plcHist) Nodes(cid []byte, vec int64) ([][]byte, bool) {
	items, err := h.env.ReadAll(nil, h.env.container, "nodes", cid, vec)
	op := fmt.Sprintf("ONodes %s %s", h.ref(cid), ZI(vec))
	expOK := len(cid) == 32 && vec >= -128 && vec <= 255
	if err != nil || len(items) != 1 {
		h.record("nodes", op, plcObsFault, "fault")
		if expOK {
			h.violate("roster: nodes faulted on a well-formed request")
		}
		return nil, false
	}
	l := plcItemList(items[0])
	h.record("nodes", op, VList([]string{h.vbl(l), VList(nil)}), "halt")
	if !expOK {
		h.violate("roster: nodes answered a malformed request")
	} else if !plcEqLists(l, h.vecs(h.comm, cid)[plcVecByte(vec)]) {
		h.violate(fmt.Sprintf("roster: nodes(cid, %d) differs from the committed list of the reference roster (got %d keys, want %d)", vec, len(l), len(h.vecs(h.comm, cid)[plcVecByte(vec)])))
	}
	return l, true
}

// Reps: replicasNumbers(cid), raw bytes of every element.
func (h *plcHist) Reps(cid []byte) ([][]byte, bool) {
	items, err := h.env.ReadAll(nil, h.env.container, "replicasNumbers", cid)
	op := fmt.Sprintf("OReps %s", h.ref(cid))
	if err != nil || len(items) != 1 {
		h.record("reps", op, plcObsFault, "fault")
		if len(cid) == 32 {
			h.violate("roster: replicasNumbers faulted on a well-formed request")
		}
		return nil, false
	}
	l := plcItemList(items[0])
	h.record("reps", op, VList([]string{h.vbl(l), VList(nil)}), "halt")
	var want [][]byte
	for _, x := range h.reps[string(cid)] {
		want = append(want, bigint.ToBytes(big.NewInt(x)))
	}
	if len(cid) != 32 {
		h.violate("roster: replicasNumbers answered a malformed request")
	} else if !plcEqLists(l, want) {
		h.violate("roster: replicasNumbers differs from the committed REP numbers of the reference roster")
	}
	return l, true
}

// sound: the Go-side check that an accepted (cid, msg, sigs) is backed by
// REP_i distinct members of committed vector i for every REP.
func (h *plcHist) sound(cid, msg []byte, sigs [][][]byte) (bool, string) {
	reps := h.reps[string(cid)]
	if len(sigs) < len(reps) {
		return false, fmt.Sprintf("accepted with %d signature vectors for %d REP vectors", len(sigs), len(reps))
	}
	for i, m := range reps {
		distinct := map[string]bool{}
		for _, k := range h.vecs(h.comm, cid)[byte(i)] {
			if distinct[string(k)] {
				continue
			}
			for _, s := range sigs[i] {
				if plcVerify(msg, k, s) {
					distinct[string(k)] = true
					break
				}
			}
		}
		if int64(len(distinct)) < m {
			return false, fmt.Sprintf("verify accepted with fewer than REP distinct signers (vector %d: REP %d, distinct members with a valid signature: %d)", i, m, len(distinct))
		}
	}
	return true, ""
}

func (h *plcHist) noteSigs(sigs [][][]byte) {
	for _, v := range sigs {
		for _, s := range v {
			h.note(&h.sigs, "s", s)
		}
	}
}

// Verify: verifyPlacementSignatures (test invocation). nullSigs: Null is
// passed instead of an empty list (len(Null) = 0 in compiled Go).
func (h *plcHist) Verify(cid, msg []byte, sigs [][][]byte, nullSigs bool) (res, ok bool) {
	var arg any = plcArgSigs(sigs)
	if nullSigs && len(sigs) == 0 {
		arg = nil
	}
	h.note(&h.msgs, "m", msg)
	h.noteSigs(sigs)
	items, err := h.env.ReadAll(nil, h.env.container, "verifyPlacementSignatures", cid, msg, arg)
	op := fmt.Sprintf("OVerify %s %s %s", h.ref(cid), h.ref(msg), h.sigsLit(sigs))
	h.checkedOrRefused = true
	if err != nil || len(items) != 1 {
		h.record("verify", op, plcObsFault, "fault")
		return false, false
	}
	b, berr := items[0].TryBool()
	if _, isBool := items[0].(stackitem.Bool); berr != nil || !isBool {
		h.record("verify", op, VList([]string{"VBytes " + h.ref([]byte("?"+items[0].String())), VList(nil)}), "odd")
		return false, false
	}
	h.record("verify", op, VList([]string{VBool(b), VList(nil)}), BoolLit(b))
	if b {
		h.run.verTrue++
		if good, why := h.sound(cid, msg, sigs); !good {
			h.violate("verifyPlacementSignatures: " + why)
		}
	} else {
		h.run.verFalse++
	}
	return b, true
}

// Submit: submitObjectPut (persisted).
func (h *plcHist) Submit(raw []byte, sigs [][][]byte, nullSigs bool) bool {
	var arg any = plcArgSigs(sigs)
	if nullSigs && len(sigs) == 0 {
		arg = nil
	}
	h.note(&h.msgs, "m", raw)
	h.note(&h.raws, "r", raw)
	h.noteSigs(sigs)
	r := h.env.invoke(true, 0, h.env.container, "submitObjectPut", raw, arg)
	h.fault = r.Fault
	cur := int64(r.Height) - 1
	op := fmt.Sprintf("OSubmit %s %s %s", h.ref(raw), h.sigsLit(sigs), ZI(cur))
	h.checkedOrRefused = true
	if !r.Halt {
		h.record("submit", op, plcObsFault, "fault")
		return false
	}
	var evs []string
	var cid []byte
	for _, ev := range r.Events {
		if ev.ScriptHash == h.env.container && ev.Name == "ObjectPut" {
			items := ev.Item.Value().([]stackitem.Item)
			cid = ItemBytes(items[0])
			evs = append(evs, VList([]string{VIntI(1), VBytesRef(h.ref(cid)), VBytesRef(h.ref(ItemBytes(items[1])))}))
		}
	}
	h.record("submit", op, VList([]string{VNull, VList(evs)}), "halt")
	if len(evs) != 1 {
		h.violate("submitObjectPut halted without exactly one ObjectPut event")
	} else if good, why := h.sound(cid, raw, sigs); !good {
		h.violate("submitObjectPut: " + why)
	}
	return true
}

// other wraps a real call of another method: storage diff of the container
// contract.
func (h *plcHist) other(kind string, f func() bool) bool {
	before := h.env.StorageDump(h.env.container)
	halt := f()
	after := h.env.StorageDump(h.env.container)
	ks := map[string]bool{}
	for k := range before {
		ks[k] = true
	}
	for k := range after {
		ks[k] = true
	}
	var sorted []string
	for k := range ks {
		sorted = append(sorted, k)
	}
	sort.Strings(sorted)
	var ws []string
	for _, k := range sorted {
		b, inB := before[k]
		a, inA := after[k]
		switch {
		case inA && (!inB || a != b):
			ws = append(ws, fmt.Sprintf("(%s, Some %s)", h.ref([]byte(k)), h.ref([]byte(a))))
		case inB && !inA:
			ws = append(ws, fmt.Sprintf("(%s, None)", h.ref([]byte(k))))
		}
	}
	if !halt && len(ws) != 0 {
		h.violate("a faulted " + kind + " changed the container contract's storage")
	}
	h.record(kind, "OOther "+ListLit(ws), plcObsNull, plcHF(halt))
	return halt
}

// Put: balance.mint + container.put(..., metaOnChain) as addContainer/TestPutMeta.
func (h *plcHist) Put(c plcCnt, meta bool) bool {
	return h.other("put", func() bool {
		r := h.env.Invoke(h.env.signer(true), h.env.balance, "mint", c.owner, int64(plcContainerFee), []byte{})
		require.True(h.run.t, r.Halt, r.Fault)
		r = h.env.Invoke(h.env.signer(true), h.env.container, "put", c.value, c.sig, c.pub, c.token, meta)
		return r.Halt
	})
}

func (h *plcHist) Delete(c plcCnt, alpha bool) bool {
	return h.other("delete", func() bool {
		r := h.env.Invoke(h.env.signer(alpha), h.env.container, "delete", c.id, c.sig, c.token)
		return r.Halt
	})
}

// Keys: raw storage keys under a prefix, prefix stripped.
func (h *plcHist) Keys(pfx []byte) [][]byte {
	ks := h.env.StorageKeys(h.env.container, pfx)
	out := make([][]byte, len(ks))
	for i, k := range ks {
		out[i] = k[len(pfx):]
	}
	h.record("keys", "OKeys "+h.ref(pfx), VList([]string{h.vbl(out), VList(nil)}), "halt")
	return out
}

func plcPfx(p byte, cid []byte, vec ...byte) []byte {
	out := append([]byte{p}, cid...)
	return append(out, vec...)
}

// ---------------------------------------------------------------------------
// Tables and the case term

func (h *plcHist) valOf(it stackitem.Item) (string, bool) {
	switch x := it.(type) {
	case *stackitem.BigInteger:
		return "VInt " + ZLit(x.Big()), true
	case *stackitem.ByteArray, *stackitem.Buffer:
		return VBytesRef(h.ref(ItemBytes(it))), true
	case stackitem.Bool:
		b, _ := x.TryBool()
		return VBool(b), true
	case stackitem.Null:
		return VNull, true
	case *stackitem.Array:
		var out []string
		for _, e := range x.Value().([]stackitem.Item) {
			s, ok := h.valOf(e)
			if !ok {
				return "", false
			}
			out = append(out, s)
		}
		return VList(out), true
	}
	return "", false
}

func (h *plcHist) finish() {
	t := h.run.t
	// signature table
	var trip []string
	var bad []string
	for _, k := range h.keys {
		if plcDecode(k) == nil {
			bad = append(bad, h.ref(k))
			continue
		}
		for _, m := range h.msgs {
			for _, s := range h.sigs {
				if plcVerify(m, k, s) {
					trip = append(trip, fmt.Sprintf("(%s, %s, %s)", h.ref(m), h.ref(k), h.ref(s)))
				}
			}
		}
	}
	var des, nofit []string
	for _, raw := range h.raws {
		it, err := stackitem.Deserialize(raw)
		mp, isMap := it.(*stackitem.Map)
		if err != nil || !isMap {
			des = append(des, fmt.Sprintf("(%s, None)", h.ref(raw)))
			continue
		}
		var ents []string
		var cidIt, oidIt stackitem.Item
		for _, e := range mp.Value().([]stackitem.MapElement) {
			kb, kerr := e.Key.TryBytes()
			if _, isBS := e.Key.(*stackitem.ByteArray); kerr != nil || !isBS {
				t.Fatalf("meta with a non-ByteString key generated")
			}
			vs, ok := h.valOf(e.Value)
			if !ok {
				t.Fatalf("meta with a value outside the val fragment generated: %s", e.Value)
			}
			ents = append(ents, fmt.Sprintf("(%s, %s)", h.ref(kb), vs))
			if string(kb) == "cid" && cidIt == nil {
				cidIt = e.Value
			}
			if string(kb) == "oid" && oidIt == nil {
				oidIt = e.Value
			}
		}
		des = append(des, fmt.Sprintf("(%s, Some %s)", h.ref(raw), ListLit(ents)))
		conv := func(x stackitem.Item) []byte {
			if x == nil {
				return nil
			}
			switch x.(type) {
			case *stackitem.ByteArray, *stackitem.Buffer, *stackitem.BigInteger:
				b, err := x.TryBytes()
				if err == nil && len(b) == 32 {
					return b
				}
			}
			return nil
		}
		c, o := conv(cidIt), conv(oidIt)
		if c != nil && o != nil {
			ev := stackitem.NewArray([]stackitem.Item{stackitem.NewByteArray(c), stackitem.NewByteArray(o), mp})
			b, err := stackitem.Serialize(ev)
			if err != nil || len(b) > 1024 {
				nofit = append(nofit, h.ref(raw))
			}
		}
	}
	tables := fmt.Sprintf("mkTables %s %s %s %s %s", ListLit(trip), ListLit(bad), ListLit(des), ListLit(nofit), ZI(h.env.magic))
	h.run.cf.Cases = append(h.run.cf.Cases, fmt.Sprintf("(* %d: %s *)\n(%s,\n %s)", h.run.hcount, h.name, tables, "["+strings.Join(h.steps, ";\n  ")+"]"))
	h.run.hcount++
	h.run.st.Histories++
	if h.acceptedCommit && h.checkedOrRefused {
		h.run.distinct[h.canon.String()] = true
	}
}

var _ = math.MaxInt64
var _ = filepath.Join

// ---------------------------------------------------------------------------
// Corpus (hand-written, run first)

func (g *plcRing) pubs(idx ...int) [][]byte {
	out := make([][]byte, len(idx))
	for i, x := range idx {
		out[i] = g.pub[x]
	}
	return out
}

func plcRange(a, b int) []int {
	var out []int
	for i := a; i < b; i++ {
		out = append(out, i)
	}
	return out
}

type plcM = [][][]byte // a signature matrix

func plcRev(v [][]byte) [][]byte {
	out := make([][]byte, len(v))
	for i := range v {
		out[len(v)-1-i] = v[i]
	}
	return out
}

func (h *plcHist) noteB(k string, format string, a ...any) {
	if _, ok := h.run.notes[k]; !ok {
		h.run.notes[k] = fmt.Sprintf(format, a...)
	}
}

// F6 witnesses: 4 members, REP 3.
func plcCorpusF6(h *plcHist) {
	g := h.g
	cid, m0, m1 := g.cids[0], g.msgs[0], g.msgs[1]
	h.Add(true, cid, 0, g.pubs(0, 1, 2, 3))
	h.Commit(true, cid, []int64{3}, false)
	h.Nodes(cid, 0)
	h.Reps(cid)
	a := func(i int) []byte { return g.sig(plcRFC, i, m0) }
	b := func(i int) []byte { return g.sig(plcAlt, i, m0) }
	ml := func(i int) []byte { return g.sig(plcMallRFC, i, m0) }
	foreign := g.sig(plcRFC, 9, m0)
	exp := map[string]bool{}
	try := func(name string, want bool, m plcM, f6 bool) {
		if f6 {
			h.run.f6Tried++
		}
		res, ok := h.Verify(cid, m0, m, false)
		exp[name] = ok && res == want
		h.noteB("corpus_f6_"+name, "result=%v fault=%v (expected %v)", res, !ok, want)
	}
	try("i_same_signature_x3", false, plcM{{a(0), a(0), a(0)}}, true)
	try("ii_three_signatures_one_member", false, plcM{{a(0), b(0), ml(0)}}, true)
	try("iii_two_members_plus_foreign", false, plcM{{a(0), a(1), foreign}}, true)
	try("iv_honest", true, plcM{{a(0), a(1), a(2)}}, false)
	try("v_honest_reversed", true, plcM{{a(2), a(1), a(0)}}, false)
	try("vi_honest_junk_interleaved", true, plcM{{g.junk(64, 0), a(0), g.junk(64, 1), a(1), g.junk(63, 0), a(2), g.junk(65, 0)}}, false)
	// variations
	try("two_members_two_sigs_each", false, plcM{{a(0), b(0), a(1), b(1)}}, true)
	try("alt_signatures_honest", true, plcM{{b(3), ml(1), a(2)}}, false)
	try("no_vectors", false, plcM{}, false)
	h.Verify(cid, m0, plcM{}, true)
	try("more_vectors_than_reps", true, plcM{{a(0), a(1), a(2)}, {a(3)}, {}}, false)
	try("empty_inner", false, plcM{{}}, false)
	try("other_message", false, plcM{{g.sig(plcRFC, 0, m1), g.sig(plcRFC, 1, m1), g.sig(plcRFC, 2, m1)}}, false)
	res, ok := h.Verify(cid, m1, plcM{{g.sig(plcRFC, 0, m1), g.sig(plcRFC, 1, m1), g.sig(plcRFC, 2, m1)}}, false)
	h.noteB("corpus_f6_other_message_signed", "result=%v fault=%v", res, !ok)
	try("two_valid_only", false, plcM{{a(0), a(1), g.junk(64, 2)}}, false)
	// second vector with an overlapping member and a duplicated key
	h.Add(true, cid, 0, g.pubs(0, 1, 2, 3))
	h.Add(true, cid, 1, g.pubs(3, 4, 4, 5))
	// pending only: the old committed roster still decides
	try("pending_not_used", true, plcM{{a(0), a(1), a(2)}}, false)
	h.Commit(true, cid, []int64{3, 2}, true)
	try("two_vectors_honest", true, plcM{{a(0), a(1), a(2)}, {a(3), a(4)}}, false)
	try("two_vectors_swapped", false, plcM{{a(3), a(4)}, {a(0), a(1), a(2)}}, false)
	try("dup_key_counted_once", false, plcM{{a(0), a(1), a(2)}, {a(4), b(4)}}, true)
	try("second_vector_missing", false, plcM{{a(0), a(1), a(2)}}, false)
	try("overlap_member_in_both", true, plcM{{a(3), a(1), a(2)}, {a(3), a(5)}}, false)
	h.Nodes(cid, 1)
	h.Reps(cid)
}

// Signers that are members of a DIFFERENT vector of the same container
// (earlier and later) or of another container's roster must not count.
// The first two matrices are the witness of seeded change C14-a (members of
// earlier vectors kept in the candidate list of later vectors).
func plcCorpusCross(h *plcHist) {
	g := h.g
	cid, ocid, m0 := g.cids[0], g.cids[1], g.msgs[0]
	A := func(i int) []byte { return g.sig(plcRFC, i, m0) }    // vector 0 = ring 0,1,2
	B := func(i int) []byte { return g.sig(plcRFC, 3+i, m0) }  // vector 1 = ring 3,4,5
	D := func(i int) []byte { return g.sig(plcRFC, 9+i, m0) }  // vector 2 = ring 9..12
	E := func(i int) []byte { return g.sig(plcRFC, 13+i, m0) } // vector 3 = ring 13,14
	C := func(i int) []byte { return g.sig(plcRFC, 6+i, m0) }  // other container: ring 6,7,8
	try := func(name string, want bool, m plcM) {
		h.run.crossTried++
		res, ok := h.Verify(cid, m0, m, false)
		h.noteB("corpus_cross_"+name, "result=%v fault=%v (expected %v)", res, !ok, want)
	}
	h.Add(true, ocid, 0, g.pubs(6, 7, 8))
	h.Commit(true, ocid, []int64{1}, false)
	h.alien = []int{6, 7, 8}
	h.Add(true, cid, 0, g.pubs(0, 1, 2))
	h.Add(true, cid, 1, g.pubs(3, 4, 5))
	h.Commit(true, cid, []int64{1, 2}, false)
	try("honest", true, plcM{{A(0)}, {B(0), B(1)}})
	try("earlier_member_completes_later_vector", false, plcM{{A(0)}, {B(0), A(1)}})
	try("later_vector_signed_by_earlier_members_only", false, plcM{{A(0)}, {A(1), A(2)}})
	try("later_vector_signed_by_same_earlier_member", false, plcM{{A(0)}, {B(0), A(0)}})
	try("honest_plus_earlier_member", true, plcM{{A(0)}, {A(1), B(2), B(1)}})
	try("other_container_member_in_vector1", false, plcM{{A(0)}, {B(0), C(0)}})
	try("other_container_member_in_vector0", false, plcM{{C(1)}, {B(0), B(1)}})
	res, ok := h.Verify(ocid, m0, plcM{{A(0)}}, false)
	h.noteB("corpus_cross_other_container_checked_with_this_member", "result=%v fault=%v (expected false)", res, !ok)
	// REPs the other way round: a member of the LATER vector in the earlier one
	h.Add(true, cid, 0, g.pubs(0, 1, 2))
	h.Add(true, cid, 1, g.pubs(3, 4, 5))
	h.Commit(true, cid, []int64{2, 1}, true)
	try("later_member_completes_earlier_vector", false, plcM{{A(0), B(0)}, {B(1)}})
	try("earlier_vector_signed_by_later_members_only", false, plcM{{B(0), B(1)}, {B(2)}})
	try("honest_2_1", true, plcM{{A(2), A(0)}, {B(1)}})
	// four vectors with different REP numbers
	h.Add(true, cid, 0, g.pubs(0, 1, 2))
	h.Add(true, cid, 1, g.pubs(3, 4, 5))
	h.Add(true, cid, 2, g.pubs(9, 10, 11, 12))
	h.Add(true, cid, 3, g.pubs(13, 14))
	h.Commit(true, cid, []int64{1, 2, 3, 1}, false)
	try("four_honest", true, plcM{{A(1)}, {B(2), B(0)}, {D(3), D(0), D(1)}, {E(1)}})
	try("four_vector2_completed_by_vector0_member", false, plcM{{A(1)}, {B(2), B(0)}, {D(3), D(0), A(2)}, {E(1)}})
	try("four_vector2_completed_by_vector1_member", false, plcM{{A(1)}, {B(2), B(0)}, {D(3), B(1), D(1)}, {E(1)}})
	try("four_vector2_completed_by_vector3_member", false, plcM{{A(1)}, {B(2), B(0)}, {D(3), D(0), E(0)}, {E(1)}})
	try("four_vector3_signed_by_vector0_member", false, plcM{{A(1)}, {B(2), B(0)}, {D(3), D(0), D(1)}, {A(0)}})
	try("four_vector1_completed_by_other_container", false, plcM{{A(1)}, {B(2), C(2)}, {D(3), D(0), D(1)}, {E(1)}})
	try("four_vectors_rotated", false, plcM{{E(1)}, {A(1), A(0)}, {B(2), B(0), B(1)}, {D(0)}})
	h.Reps(cid)
	h.Nodes(cid, 2)
}

// Roster life cycle and malformed requests.
func plcCorpusRoster(h *plcHist) {
	g := h.g
	A, B := g.cids[0], g.cids[1]
	c31, c33 := A[:31], append(append([]byte{}, A...), 7)
	h.Commit(true, A, []int64{1}, false) // empty commit
	h.Nodes(A, 0)
	h.Reps(A)
	h.Add(true, A, 2, g.pubs(0)) // non-contiguous
	h.Add(true, A, 1, g.pubs(0))
	h.Add(true, A, 0, nil) // empty list: accepted, nothing pending
	h.Add(true, A, 1, g.pubs(0))
	h.Add(false, A, 0, g.pubs(0)) // not the Alphabet
	h.Add(true, c31, 0, g.pubs(0))
	h.Add(true, c33, 0, g.pubs(0))
	h.Add(true, A, 0, g.pubs(0, 1))
	h.Add(true, B, 0, g.pubs(5))
	h.Add(true, A, 0, g.pubs(2))
	h.Add(true, A, 1, g.pubs(3, 4))
	h.Add(true, A, 0, [][]byte{g.pub[6], g.pub[7][:32], g.pub[8]}) // rolled back as a whole
	h.Add(true, A, 0, [][]byte{g.pub[6], append(append([]byte{}, g.pub[7]...), 1), g.pub[8]})
	h.Add(true, A, 3, g.pubs(9)) // vector 2 has nothing pending
	h.Add(true, A, 2, g.pubs(9))
	h.Add(true, A, 3, g.pubs(10))
	h.Keys(plcPfx('u', A))
	h.Nodes(A, 0) // nothing committed yet
	h.Commit(false, A, []int64{1, 1, 1, 1}, false)
	h.Commit(true, c31, []int64{1}, false)
	h.Commit(true, A, []int64{2, 1}, false) // fewer REPs than vectors
	for v := int64(0); v < 5; v++ {
		h.Nodes(A, v)
	}
	h.Reps(A)
	h.Nodes(B, 0)
	h.Keys(plcPfx('u', A))
	h.Keys(plcPfx('n', A))
	h.Keys(plcPfx('r', A))
	h.Add(true, A, 0, g.pubs(11, 12)) // after the commit: invisible until the next one
	h.Nodes(A, 0)
	h.Add(true, A, 1, g.pubs(13)) // vector 0 pending again
	h.Commit(true, B, nil, false) // Null replicas, other cid
	h.Nodes(B, 0)
	h.Reps(B)
	h.Nodes(A, 0)
	h.Commit(true, A, []int64{1, 1, 1}, true) // more REPs than vectors
	h.Nodes(A, 0)
	h.Nodes(A, 1)
	h.Nodes(A, 2)
	h.Reps(A)
	h.Commit(true, A, nil, false) // commit twice in a row: clears
	h.Nodes(A, 0)
	h.Reps(A)
	h.Commit(true, A, []int64{}, false)
	h.Reps(A)
	h.Nodes(c31, 0)
	h.Reps(c31)
	h.Reps(c33)
	h.Verify(c31, g.msgs[0], plcM{}, false)
	h.Keys(plcPfx('n', A))
	h.Keys(plcPfx('u', A))
}

// Batches of several vectors interleaved in every order: each vector's list
// must be the concatenation of ITS batches in submission order, whatever was
// added to other vectors (or another container) in between. The first
// history is the witness of seeded change C14-i.
func plcCorpusInterleave(h *plcHist) {
	g := h.g
	A, B := g.cids[0], g.cids[1]
	next := 0
	ks := func(n int) [][]byte {
		out := g.pubs(plcRange(next, next+n)...)
		next += n
		return out
	}
	all := func(cid []byte, nv int64) {
		for v := int64(0); v < nv; v++ {
			h.Nodes(cid, v)
		}
		h.Reps(cid)
	}
	// add(0,[a,b]); add(1,[x]); add(0,[d]); commit -> nodes(0) = [a,b,d]
	h.Add(true, A, 0, ks(2))
	h.Add(true, A, 1, ks(1))
	h.Add(true, A, 0, ks(1))
	h.Keys(plcPfx('u', A))
	h.Commit(true, A, []int64{2, 1}, false)
	all(A, 2)
	// 0,1,0,1 then 1,0,1 with sizes 1, 0, 3
	h.Add(true, A, 0, ks(1))
	h.Add(true, A, 1, ks(3))
	h.Add(true, A, 0, ks(3))
	h.Add(true, A, 1, ks(1))
	h.Add(true, A, 1, nil)
	h.Add(true, A, 0, nil)
	h.Add(true, A, 1, ks(2))
	h.Keys(plcPfx('u', A, 0))
	h.Keys(plcPfx('u', A, 1))
	h.Nodes(A, 0) // still the previous commit
	h.Commit(true, A, []int64{1, 3}, true)
	all(A, 3)
	// 0,1,2,1,0,2,0 and a second container in between
	h.Add(true, A, 0, ks(2))
	h.Add(true, B, 0, ks(2))
	h.Add(true, A, 1, ks(1))
	h.Add(true, A, 2, ks(4))
	h.Add(true, B, 1, ks(1))
	h.Add(true, A, 1, ks(2))
	h.Add(true, B, 0, ks(3))
	h.Add(true, A, 0, ks(1))
	h.Add(true, A, 2, ks(1))
	h.Add(true, B, 1, ks(1))
	h.Add(true, A, 0, ks(5))
	h.Add(true, B, 0, ks(1))
	h.Keys(plcPfx('u', A))
	h.Keys(plcPfx('u', B))
	h.Commit(true, B, []int64{2, 1}, false)
	all(B, 2)
	all(A, 3) // A not committed yet
	h.Add(true, A, 3, ks(1))
	h.Add(true, A, 1, ks(1))
	h.Commit(true, A, []int64{1, 2, 3, 1}, false)
	all(A, 4)
	all(B, 2)
	// B again: highest vector first filled late, then back twice
	h.Add(true, B, 0, ks(1))
	h.Add(true, B, 1, ks(1))
	h.Add(true, B, 2, ks(1))
	h.Add(true, B, 3, ks(2))
	h.Add(true, B, 0, ks(1))
	h.Add(true, B, 3, ks(1))
	h.Add(true, B, 1, ks(2))
	h.Add(true, B, 0, ks(2))
	h.Commit(true, B, []int64{1, 1, 1, 1}, false)
	all(B, 4)
	h.Keys(plcPfx('n', B))
}

// Vector and REP number boundaries on a short roster.
func plcCorpusBounds(h *plcHist) {
	g := h.g
	A := g.cids[0]
	for _, v := range []int64{-1, -127, -128, -129, 254, 255, 256, 1 << 40, -(1 << 40)} {
		halt := h.Add(true, A, v, g.pubs(0))
		h.noteB(fmt.Sprintf("add_vec_%d_no_ladder", v), "%s", plcHF(halt))
	}
	h.Add(true, A, 0, g.pubs(0, 1))
	h.Add(true, A, 1, g.pubs(2))
	for _, v := range []int64{-1, -128, 255, 256} {
		h.Add(true, A, v, g.pubs(3))
	}
	for _, rs := range [][]int64{{0}, {255}, {256}, {-1}, {1, 256}, {-129}, {1 << 40}, {1, 0, 255, -1, -128}} {
		halt := h.Commit(true, A, rs, false)
		h.noteB(fmt.Sprintf("commit_reps_%v", rs), "%s", plcHF(halt))
		if halt {
			l, _ := h.Reps(A)
			h.noteB(fmt.Sprintf("reps_after_%v", rs), "%x", l)
			h.Add(true, A, 0, g.pubs(0, 1))
			h.Add(true, A, 1, g.pubs(2))
		}
	}
	h.Commit(true, A, []int64{1, 1}, false)
	for _, v := range []int64{0, 1, 2, 254, 255, 256, -1, -128, -129, 1 << 40} {
		_, ok := h.Nodes(A, v)
		h.noteB(fmt.Sprintf("nodes_vec_%d", v), "%s", plcHF(ok))
	}
	// REP 0 / 255 / -1 and verification
	m0 := g.msgs[0]
	a := func(i int) []byte { return g.sig(plcRFC, i, m0) }
	for _, rs := range [][]int64{{0}, {-1}, {255}, {0, 1}} {
		h.Add(true, A, 0, g.pubs(0, 1))
		h.Add(true, A, 1, g.pubs(2))
		h.Commit(true, A, rs, false)
		for _, nm := range []struct {
			n string
			m plcM
		}{{"empty", plcM{{}, {}}}, {"one_valid", plcM{{a(0)}, {a(2)}}}, {"junk_first", plcM{{g.junk(64, 0), a(0)}, {a(2)}}}, {"two_valid", plcM{{a(0), a(1)}, {a(2)}}}} {
			res, ok := h.Verify(A, m0, nm.m, false)
			h.noteB(fmt.Sprintf("verify_reps_%v_%s", rs, nm.n), "result=%v fault=%v", res, !ok)
		}
	}
}

// REP lists of length 256 and 257.
func plcCorpusLongReps(h *plcHist) {
	g := h.g
	A := g.cids[1]
	mk := func(n int) []int64 {
		out := make([]int64, n)
		for i := range out {
			out[i] = int64(i%3 + 1)
		}
		return out
	}
	h.Add(true, A, 0, g.pubs(0))
	halt := h.Commit(true, A, mk(256), false)
	h.noteB("commit_reps_len_256", "%s", plcHF(halt))
	l, _ := h.Reps(A)
	h.noteB("reps_len_after_256", "%d", len(l))
	h.Nodes(A, 0)
	h.Add(true, A, 0, g.pubs(1))
	halt = h.Commit(true, A, mk(257), false)
	h.noteB("commit_reps_len_257", "%s", plcHF(halt))
	l, _ = h.Reps(A)
	h.noteB("reps_len_after_257", "%d", len(l))
	h.Nodes(A, 0)
	halt = h.Commit(true, A, mk(257), true)
	h.noteB("commit_reps_len_257_bytestring", "%s", plcHF(halt))
	h.Commit(true, A, mk(3), true)
	h.Reps(A)
	h.Nodes(A, 0)
}

// One key in each of the vectors 0..254, then the negative vector numbers.
func plcCorpusLadder(h *plcHist) {
	g := h.g
	A := g.cids[0]
	top := 255
	if Tier() != "thorough" {
		top = 40 // the model's cost is quadratic in the number of vectors (129 vectors: 6 s, 255: 23 s of coqc): the full ladder is for the thorough tier
	}
	for v := 0; v < top; v++ {
		if !h.Add(true, A, int64(v), g.pubs(v%7)) {
			break
		}
	}
	for _, v := range []int64{255, 256, -1, -127, -128, -129, 254, -2} {
		halt := h.Add(true, A, v, g.pubs(8, 9))
		h.noteB(fmt.Sprintf("add_vec_%d_with_ladder", v), "%s", plcHF(halt))
	}
	ks := h.Keys(plcPfx('u', A, 255))
	h.noteB("pending_under_vector_byte_255_after_vec_-1", "%d keys", len(ks))
	h.Keys(plcPfx('u', A, 129))
	h.Keys(plcPfx('u', A, 128))
	h.Commit(true, A, []int64{1, 2}, false)
	for _, v := range []int64{0, 127, 128, 129, 254, 255, -1, -2, -127, -128, 256} {
		l, ok := h.Nodes(A, v)
		h.noteB(fmt.Sprintf("nodes_vec_%d_after_ladder", v), "%s %d keys", plcHF(ok), len(l))
	}
}

// A 33-byte key that is not a curve point.
func plcCorpusBadKey(h *plcHist) {
	g := h.g
	A, m0 := g.cids[0], g.msgs[0]
	bad := append([]byte{2}, make([]byte, 32)...)
	for i := 1; i < 33; i++ {
		bad[i] = 0xFF
	}
	bad0 := append([]byte{0}, g.pub[1][1:]...)
	bad4 := append([]byte{4}, g.pub[1][1:]...)
	a := func(i int) []byte { return g.sig(plcRFC, i, m0) }
	halt := h.Add(true, A, 0, [][]byte{g.pub[0], bad, g.pub[1]})
	h.noteB("add_non_point_key", "%s", plcHF(halt))
	h.Commit(true, A, []int64{1}, false)
	h.Nodes(A, 0)
	res, ok := h.Verify(A, m0, plcM{{a(0)}}, false)
	h.noteB("verify_satisfied_before_non_point_key", "result=%v fault=%v", res, !ok)
	res, ok = h.Verify(A, m0, plcM{{a(1)}}, false)
	h.noteB("verify_reaches_non_point_key", "result=%v fault=%v", res, !ok)
	h.Verify(A, m0, plcM{{g.junk(64, 0)}}, false)
	h.Verify(A, m0, plcM{{g.junk(10, 0)}}, false)
	h.Add(true, A, 0, [][]byte{g.pub[0], bad, g.pub[1]})
	h.Commit(true, A, []int64{2}, false)
	res, ok = h.Verify(A, m0, plcM{{a(0), a(1)}}, false)
	h.noteB("verify_second_signature_reaches_non_point_key", "result=%v fault=%v", res, !ok)
	h.Verify(A, m0, plcM{{a(0)}}, false)
	h.Add(true, A, 0, [][]byte{g.pub[0], g.pub[1], bad0, bad4})
	h.Commit(true, A, []int64{2}, false)
	res, ok = h.Verify(A, m0, plcM{{a(0), a(1)}}, false)
	h.noteB("verify_non_point_key_after_quorum", "result=%v fault=%v", res, !ok)
	res, ok = h.Verify(A, m0, plcM{{a(0), g.junk(64, 1)}}, false)
	h.noteB("verify_prefix_00_04_keys_reached", "result=%v fault=%v", res, !ok)
}

// One vector through 126,127,128 and 254..257 keys.
func plcCorpusBig(h *plcHist) {
	g := h.g
	A, m0 := g.cids[0], g.msgs[0]
	next := 0
	batch := func(n int) {
		h.Add(true, A, 0, g.pubs(plcRange(next, next+n)...))
		next += n
	}
	u0 := plcPfx('u', A, 0)
	batch(126)
	batch(1)
	batch(1) // 128
	h.Keys(u0)
	batch(126) // 254
	batch(1)   // 255
	batch(1)   // 256
	h.Keys(u0)
	batch(1) // 257
	batch(43)
	h.Add(true, A, 1, g.pubs(0, 299))
	h.Keys(u0)
	h.Commit(true, A, []int64{2, 1}, false)
	h.Nodes(A, 0)
	h.Nodes(A, 1)
	h.Keys(plcPfx('n', A, 0))
	h.Keys(u0)
	h.Verify(A, m0, plcM{{g.sig(plcRFC, 299, m0), g.sig(plcRFC, 128, m0)}, {g.sig(plcRFC, 299, m0)}}, false)
	// next epoch: a short list replaces the long one
	h.Add(true, A, 0, g.pubs(7, 8, 9))
	h.Keys(u0)
	h.Commit(true, A, []int64{1}, false)
	h.Nodes(A, 0)
	h.Nodes(A, 1)
	h.Keys(plcPfx('n', A))
}

// ---------------------------------------------------------------------------
// SubmitObjectPut

func (h *plcHist) signAll(raw []byte, idx ...int) [][]byte {
	out := make([][]byte, len(idx))
	for i, x := range idx {
		out[i] = h.g.sig(plcRFC, x, raw)
	}
	return out
}

func (h *plcHist) height() int64 { return int64(h.env.BC.BlockHeight()) }

func plcCorpusSubmit(h *plcHist) {
	g := h.g
	t := h.run.t
	c := g.cnts[0]
	oid := g.cids[1]
	maxVub := stackitem.Make(int64(math.MaxInt64))
	h.Put(c, true)
	h.Add(true, c.id, 0, g.pubs(0, 1, 2))
	base := plcMeta(h.env.magic, c.id, oid, maxVub)
	raw0 := plcRaw(t, base)
	halt := h.Submit(raw0, plcM{h.signAll(raw0, 0, 1)}, false) // no roster committed yet: nothing to check
	h.noteB("submit_before_any_commit", "%s", plcHF(halt))
	h.Commit(true, c.id, []int64{2}, false)
	honest := plcM{h.signAll(raw0, 0, 1)}
	halt = h.Submit(raw0, honest, false)
	h.noteB("submit_honest", "%s", plcHF(halt))
	h.Submit(raw0, plcM{plcRev(h.signAll(raw0, 0, 1, 2))}, false)
	h.Submit(raw0, plcM{}, true)
	h.Submit(raw0, plcM{{g.sig(plcRFC, 0, raw0), g.sig(plcAlt, 0, raw0)}}, false) // F6 style
	h.run.f6Tried++
	h.Submit(raw0, plcM{{g.sig(plcRFC, 0, raw0), g.sig(plcMallRFC, 0, raw0)}}, false)
	h.run.f6Tried++
	h.Submit(raw0, plcM{{g.sig(plcRFC, 0, raw0), g.sig(plcRFC, 9, raw0)}}, false)
	variant := func(name string, m []plcKV, signed bool) bool {
		raw := plcRaw(t, m)
		sigs := honest
		if signed {
			sigs = plcM{h.signAll(raw, 0, 1)}
		}
		halt := h.Submit(raw, sigs, false)
		h.noteB("submit_"+name, "%s %s", plcHF(halt), plcShort(h.fault))
		return halt
	}
	for _, k := range []string{"cid", "oid", "network", "size", "deleted", "locked", "validuntil"} {
		variant("missing_"+k, plcDrop(base, k), false)
	}
	variant("wrong_network", plcSet(base, "network", stackitem.Make(h.env.magic+1)), true)
	variant("network_null", plcSet(base, "network", stackitem.Null{}), true)
	variant("deleted_null", plcSet(base, "deleted", stackitem.Null{}), true)
	variant("locked_null", plcSet(base, "locked", stackitem.Null{}), true)
	variant("size_null", plcSet(base, "size", stackitem.Null{}), true)
	variant("size_bool", plcSet(base, "size", stackitem.NewBool(true)), true)
	variant("size_33_bytes", plcSet(base, "size", stackitem.NewByteArray(g.pub[0])), true)
	variant("size_32_bytes", plcSet(base, "size", stackitem.NewByteArray(g.cids[2])), true)
	variant("size_array", plcSet(base, "size", plcIDs()), true)
	variant("deleted_empty", plcSet(base, "deleted", plcIDs()), true)
	variant("deleted_31_byte_id", plcSet(base, "deleted", plcIDs(g.cids[2], g.cids[3][:31])), true)
	variant("deleted_bytes_not_list", plcSet(base, "deleted", stackitem.NewByteArray(g.cids[2])), true)
	variant("locked_int_element", plcSet(base, "locked", stackitem.NewArray([]stackitem.Item{stackitem.Make(5)})), true)
	variant("cid_short", plcSet(base, "cid", stackitem.NewByteArray(c.id[:31])), false)
	variant("oid_short", plcSet(base, "oid", stackitem.NewByteArray(oid[:31])), false)
	variant("oid_null", plcSet(base, "oid", stackitem.Null{}), false)
	variant("cid_bool", plcSet(base, "cid", stackitem.NewBool(true)), false)
	variant("cid_unknown_container", plcSet(base, "cid", stackitem.NewByteArray(g.cids[3])), true)
	if z := bigint.FromBytes(c.id); len(bigint.ToBytes(z)) == 32 {
		variant("cid_as_integer", plcSet(base, "cid", stackitem.NewBigInteger(z)), true)
	}
	if z := bigint.FromBytes(oid); len(bigint.ToBytes(z)) == 32 {
		variant("oid_as_integer", plcSet(base, "oid", stackitem.NewBigInteger(z)), true)
	}
	variant("duplicate_extra_key", append(append([]plcKV{}, base...), plcKV{"extra", stackitem.Make(1)}), true)
	// vub boundaries: the tx lands in block height+1, ledger.CurrentIndex() = height
	cur := h.height()
	variant("vub_eq_current_index", plcSet(base, "validuntil", stackitem.Make(cur)), true)
	cur = h.height()
	variant("vub_eq_current_index_plus_1", plcSet(base, "validuntil", stackitem.Make(cur+1)), true)
	variant("vub_zero", plcSet(base, "validuntil", stackitem.Make(0)), true)
	variant("vub_negative", plcSet(base, "validuntil", stackitem.Make(-1)), true)
	variant("vub_bytes", plcSet(base, "validuntil", stackitem.NewByteArray([]byte{0xff, 0xff, 0x00})), true)
	// not a map
	for i, raw := range [][]byte{{1}, {}, mustSer(t, stackitem.Make(5)), mustSer(t, plcIDs(c.id)), append(append([]byte{}, raw0...), 0)} {
		halt := h.Submit(raw, honest, false)
		h.noteB(fmt.Sprintf("submit_not_a_map_%d", i), "%s", plcHF(halt))
	}
	// event size: pad so that the serialized event is exactly 1024 / 1025 bytes
	evLen := func(m []plcKV) int {
		b, err := stackitem.Serialize(stackitem.NewArray([]stackitem.Item{stackitem.NewByteArray(c.id), stackitem.NewByteArray(oid), plcMap(m)}))
		require.NoError(t, err)
		return len(b)
	}
	many := make([][]byte, 20)
	for i := range many {
		many[i] = g.cids[2]
	}
	big0 := plcSet(base, "deleted", plcIDs(many...))
	pad := func(n int) []plcKV { return plcSet(big0, "pad", stackitem.NewByteArray(make([]byte, n))) }
	n := 0
	for evLen(pad(n+1)) <= 1024 {
		n++
	}
	h.noteB("event_len_fit", "%d", evLen(pad(n)))
	h.noteB("event_len_nofit", "%d", evLen(pad(n+1)))
	variant("event_1024_bytes", pad(n), true)
	variant("event_1025_bytes", pad(n+1), true)
	// the container goes away
	h.Delete(c, false)
	h.Delete(c, true)
	halt = h.Submit(raw0, honest, false)
	h.noteB("submit_after_delete", "%s", plcHF(halt))
	h.Nodes(c.id, 0)
	h.Put(c, true) // replay of a deleted container
	// a container without the meta flag
	c2 := g.cnts[1]
	h.Put(c2, false)
	h.Add(true, c2.id, 0, g.pubs(0, 1, 2))
	h.Commit(true, c2.id, []int64{2}, false)
	raw2 := plcRaw(t, plcMeta(h.env.magic, c2.id, oid, maxVub))
	halt = h.Submit(raw2, plcM{h.signAll(raw2, 0, 1)}, false)
	h.noteB("submit_container_without_meta_flag", "%s", plcHF(halt))
	h.Verify(c2.id, raw2, plcM{h.signAll(raw2, 0, 1)}, false)
}

// The Null-valued fields; "validuntil": Null is last (see the report: the
// contract faults in the comparison, JMPGT on Null).
func plcCorpusSubmitNull(h *plcHist) {
	g := h.g
	t := h.run.t
	c := g.cnts[2]
	oid := g.cids[1]
	h.Put(c, true)
	h.Add(true, c.id, 0, g.pubs(0, 1))
	h.Commit(true, c.id, []int64{1}, false)
	base := plcMeta(h.env.magic, c.id, oid, stackitem.Make(int64(math.MaxInt64)))
	for _, k := range []string{"", "size", "deleted", "network", "locked", "cid", "validuntil", ""} {
		m := base
		if k != "" {
			m = plcSet(base, k, stackitem.Null{})
		}
		raw := plcRaw(t, m)
		halt := h.Submit(raw, plcM{h.signAll(raw, 1)}, false)
		h.noteB("submit_null_"+k, "%s %s", plcHF(halt), plcShort(h.fault))
	}
}

func mustSer(t testing.TB, it stackitem.Item) []byte {
	b, err := stackitem.Serialize(it)
	require.NoError(t, err)
	return b
}

// ---------------------------------------------------------------------------
// Generators

// randVector builds one signature vector for a roster vector (ring indices)
// and a REP number.
//
// cross: ring indices of members of the OTHER vectors of the same container
// that are not members of this vector; h.alien: members of another
// container's roster. Their valid signatures must never count here.
func (h *plcHist) randVector(r *rand.Rand, members, cross []int, m int, msg, other []byte) [][]byte {
	g := h.g
	notMember := func(xs []int) []int {
		var out []int
		for _, x := range xs {
			in := false
			for _, y := range members {
				if x == y {
					in = true
				}
			}
			if !in {
				out = append(out, x)
			}
		}
		return out
	}
	cross = notMember(cross)
	alien := notMember(h.alien)
	pick := func(xs []int) int { return xs[r.Intn(len(xs))] }
	uniq := []int{}
	seen := map[int]bool{}
	for _, x := range members {
		if !seen[x] {
			seen[x] = true
			uniq = append(uniq, x)
		}
	}
	r.Shuffle(len(uniq), func(i, j int) { uniq[i], uniq[j] = uniq[j], uniq[i] })
	if m < 0 {
		m = 0
	}
	take := func(n int) []int {
		if n < 0 {
			n = 0
		}
		if n > len(uniq) {
			n = len(uniq)
		}
		return uniq[:n]
	}
	honest := func(n int) [][]byte {
		var out [][]byte
		for _, x := range take(n) {
			out = append(out, g.sig(r.Intn(2), x, msg))
		}
		return out
	}
	foreign := 24 + r.Intn(6)
	var out [][]byte
	class := r.Intn(17)
	if class >= 12 && class <= 15 && len(cross) == 0 || class == 16 && len(alien) == 0 {
		class = r.Intn(12)
	}
	switch class {
	case 12: // m-1 honest + a valid signature by a member of a DIFFERENT vector
		h.run.crossTried++
		out = append(honest(m-1), g.sig(r.Intn(2), pick(cross), msg))
	case 13: // only members of different vectors sign (m distinct of them when there are)
		h.run.crossTried++
		for i, x := range cross {
			if i < m {
				out = append(out, g.sig(r.Intn(2), x, msg))
			}
		}
		if len(out) < m {
			out = append(out, honest(m-len(out))...)
		}
	case 14: // a member of a different vector first, then m-1 honest
		h.run.crossTried++
		out = append([][]byte{g.sig(plcRFC, pick(cross), msg)}, honest(m-1)...)
	case 15: // honest quorum plus a different vector's member (must stay true)
		h.run.crossTried++
		out = append(honest(m), g.sig(plcRFC, pick(cross), msg))
	case 16: // m-1 honest + a valid signature by a member of ANOTHER container's roster
		h.run.crossTried++
		out = append(honest(m-1), g.sig(r.Intn(2), pick(alien), msg))
	case 0, 1, 2:
		out = honest(m)
	case 3: // honest + junk interleaved
		for _, s := range honest(m) {
			if r.Intn(2) == 0 {
				out = append(out, g.junk(64, r.Intn(3)))
			}
			out = append(out, s)
			if r.Intn(3) == 0 {
				out = append(out, g.junk([]int{0, 1, 63, 65}[r.Intn(4)], 0))
			}
		}
	case 4: // F6: one member, several signatures
		h.run.f6Tried++
		kinds := r.Perm(plcNumKinds)
		for i := 0; i < m && i < plcNumKinds; i++ {
			out = append(out, g.sig(kinds[i], uniq[0], msg))
		}
	case 5: // m-1 honest + foreign
		out = append(honest(m-1), g.sig(plcRFC, foreign, msg))
	case 6: // m-1 honest + a member's signature of another message
		out = append(honest(m-1), g.sig(plcRFC, uniq[0], other))
	case 7: // the same signature m times
		h.run.f6Tried++
		s := g.sig(plcRFC, uniq[0], msg)
		for i := 0; i < m; i++ {
			out = append(out, s)
		}
	case 8: // m-1 honest, one of them twice (second time with another nonce / malleated)
		h.run.f6Tried++
		out = honest(m - 1)
		if len(out) > 0 {
			x := take(1)[0]
			out = append(out, g.sig(2+r.Intn(2), x, msg))
		}
	case 9: // more than needed, reversed
		out = plcRev(honest(m + 1 + r.Intn(2)))
	case 10: // m-1 honest
		out = honest(m - 1)
	case 11: // junk only
		for i := 0; i < m; i++ {
			out = append(out, g.junk(64, i%3))
		}
	}
	if r.Intn(4) == 0 {
		r.Shuffle(len(out), func(i, j int) { out[i], out[j] = out[j], out[i] })
	}
	return out
}

func (h *plcHist) randMatrix(r *rand.Rand, roster [][]int, reps []int64, msg, other []byte) plcM {
	var m plcM
	for i, rep := range reps {
		var members []int
		if i < len(roster) {
			members = roster[i]
		}
		if len(members) == 0 {
			members = []int{0}
		}
		var cross []int
		for j, v := range roster {
			if j != i {
				cross = append(cross, v...)
			}
		}
		m = append(m, h.randVector(r, members, cross, int(rep), msg, other))
	}
	switch r.Intn(10) {
	case 0:
		if len(m) > 0 {
			m = m[:len(m)-1] // fewer vectors than REPs
		}
	case 1:
		m = append(m, [][]byte{h.g.sig(plcRFC, 0, msg)}) // more vectors than REPs
	case 2:
		if len(m) > 0 {
			m[r.Intn(len(m))] = [][]byte{} // empty inner vector
		}
	case 3: // order of the vectors reversed
		for i, j := 0, len(m)-1; i < j; i, j = i+1, j-1 {
			m[i], m[j] = m[j], m[i]
		}
	}
	return m
}

// honestMatrix: REP_i distinct members of vector i sign (when there are that many).
func (h *plcHist) honestMatrix(r *rand.Rand, roster [][]int, reps []int64, msg []byte) plcM {
	var m plcM
	for i, rep := range reps {
		seen := map[int]bool{}
		var v [][]byte
		if i < len(roster) {
			for _, x := range roster[i] {
				if !seen[x] && int64(len(v)) < rep {
					seen[x] = true
					v = append(v, h.g.sig(r.Intn(2), x, msg))
				}
			}
		}
		r.Shuffle(len(v), func(a, b int) { v[a], v[b] = v[b], v[a] })
		m = append(m, v)
	}
	return m
}

// randRosterIdx draws 1..4 vectors (mostly 2..4) of 1..8 members from the
// first 24 ring keys.
func plcRandRoster(r *rand.Rand) [][]int {
	nv := 2 + r.Intn(3)
	if r.Intn(4) == 0 {
		nv = 1
	}
	out := make([][]int, nv)
	for v := range out {
		n := 1 + r.Intn(8)
		for i := 0; i < n; i++ {
			switch {
			case i > 0 && r.Intn(10) == 0:
				out[v] = append(out[v], out[v][r.Intn(i)]) // same key twice in one vector
			case v > 0 && r.Intn(5) == 0:
				out[v] = append(out[v], out[v-1][r.Intn(len(out[v-1]))]) // overlap
			default:
				out[v] = append(out[v], r.Intn(24))
			}
		}
	}
	return out
}

func (h *plcHist) installRoster(r *rand.Rand, cid []byte, roster [][]int) {
	for v, mem := range roster {
		// several batches
		for len(mem) > 0 {
			n := 1 + r.Intn(len(mem))
			h.Add(true, cid, int64(v), h.g.pubs(mem[:n]...))
			mem = mem[n:]
		}
	}
}

func plcRandReps(r *rand.Rand, nv int) []int64 {
	n := nv
	switch r.Intn(8) {
	case 0:
		n = nv + 1
	case 1:
		if nv > 1 {
			n = nv - 1
		}
	}
	out := make([]int64, n)
	for i := range out {
		out[i] = int64(1 + r.Intn(4))
		if r.Intn(25) == 0 {
			out[i] = 0
		}
	}
	return out
}

func plcGenVerify(h *plcHist, r *rand.Rand, nver int) {
	g := h.g
	ci := r.Intn(2)
	cid := g.cids[ci]
	msg, other := g.msgs[r.Intn(2)], g.msgs[2]
	// another container with its own committed roster: its members' valid
	// signatures must not count for cid
	{
		oc := g.cids[1-ci]
		n := 2 + r.Intn(2)
		var al []int
		for i := 0; i < n; i++ {
			al = append(al, 12+r.Intn(18))
		}
		h.Add(true, oc, 0, g.pubs(al...))
		if h.Commit(true, oc, []int64{1}, false) {
			h.alien = al
		}
	}
	var roster [][]int
	var reps []int64
	epochs := 1 + r.Intn(2)
	for e := 0; e < epochs; e++ {
		nr := plcRandRoster(r)
		h.installRoster(r, cid, nr)
		if e > 0 && r.Intn(2) == 0 {
			// pending roster must not influence verification
			h.Verify(cid, msg, h.randMatrix(r, roster, reps, msg, other), false)
			h.Verify(cid, msg, h.randMatrix(r, nr, reps, msg, other), false)
		}
		nreps := plcRandReps(r, len(nr))
		if h.Commit(true, cid, nreps, r.Intn(2) == 0) {
			roster, reps = nr, nreps
		}
		if r.Intn(3) == 0 {
			h.Reps(cid)
			h.Nodes(cid, int64(r.Intn(len(roster))))
		}
		for i := 0; i < nver; i++ {
			h.Verify(cid, msg, h.randMatrix(r, roster, reps, msg, other), false)
		}
	}
}

// plcGenRoster: roster life cycle without signatures.
func plcGenRoster(h *plcHist, r *rand.Rand, nops, maxBatch, totalCap int) {
	g := h.g
	cids := [][]byte{g.cids[0], g.cids[1]}
	nextKey := r.Intn(plcRingSize)
	draw := func(n int) [][]byte {
		out := make([][]byte, n)
		for i := range out {
			out[i] = g.pub[nextKey%plcRingSize]
			nextKey++
			if r.Intn(12) == 0 {
				nextKey = r.Intn(plcRingSize)
			}
		}
		return out
	}
	npend := func(cid []byte) int64 {
		n := int64(0)
		for len(h.vecs(h.pend, cid)[byte(n)]) > 0 {
			n++
		}
		return n
	}
	for i := 0; i < nops; i++ {
		cid := cids[0]
		if r.Intn(4) == 0 {
			cid = cids[1]
		}
		if r.Intn(40) == 0 {
			cid = cid[:31]
		}
		alpha := r.Intn(14) != 0
		w := r.Intn(100)
		switch {
		case w < 45:
			np := npend(cid)
			vec := np
			if np > 0 && r.Intn(2) == 0 {
				vec = int64(r.Intn(int(np)))
			}
			if vec > 3 {
				vec = int64(r.Intn(4))
			}
			switch r.Intn(16) {
			case 0:
				vec = np + 1
			case 1:
				vec = []int64{-1, -127, -128, -129, 254, 255, 256}[r.Intn(7)]
			}
			n := 1 + r.Intn(maxBatch)
			if have := len(h.vecs(h.pend, cid)[plcVecByte(vec)]); have+n > totalCap {
				n = 1
			}
			ks := draw(n)
			switch r.Intn(25) {
			case 0:
				ks = nil
			case 1:
				j := r.Intn(len(ks))
				ks[j] = ks[j][:32]
			case 2:
				j := r.Intn(len(ks))
				ks[j] = append(append([]byte{}, ks[j]...), 0)
			}
			h.Add(alpha, cid, vec, ks)
		case w < 62:
			var reps []int64
			if r.Intn(6) != 0 {
				reps = plcRandReps(r, int(npend(cid)))
				if r.Intn(12) == 0 && len(reps) > 0 {
					reps[r.Intn(len(reps))] = []int64{0, 255, 256, -1}[r.Intn(4)]
				}
			}
			np := npend(cid)
			if h.Commit(alpha, cid, reps, r.Intn(3) == 0) {
				for v := int64(0); v < np && v < 4; v++ {
					h.Nodes(cid, v)
				}
			}
			if r.Intn(5) == 0 {
				h.Commit(true, cid, nil, false)
			}
		case w < 82:
			vec := int64(r.Intn(4))
			if r.Intn(15) == 0 {
				vec = []int64{255, 256, -1, 4}[r.Intn(4)]
			}
			h.Nodes(cid, vec)
		case w < 90:
			h.Reps(cid)
		default:
			if len(cid) != 32 {
				continue
			}
			p := []byte{'u', 'n', 'r'}[r.Intn(3)]
			if r.Intn(2) == 0 {
				h.Keys(plcPfx(p, cid))
			} else {
				h.Keys(plcPfx(p, cid, byte(r.Intn(3))))
			}
		}
	}
	for _, cid := range cids {
		for v := int64(0); v < 4; v++ {
			h.Nodes(cid, v)
		}
		h.Reps(cid)
	}
}

// plcGenInterleave: batches for 2..4 vectors of two containers in random
// interleaved order (sizes 0, 1, several), several commits; after every
// commit all vectors are read back.
func plcGenInterleave(h *plcHist, r *rand.Rand, epochs int) {
	g := h.g
	cids := [][]byte{g.cids[0], g.cids[1]}
	nextKey := r.Intn(plcRingSize)
	draw := func(n int) [][]byte {
		out := make([][]byte, n)
		for i := range out {
			out[i] = g.pub[nextKey%plcRingSize]
			nextKey++
		}
		return out
	}
	size := func() int {
		switch r.Intn(6) {
		case 0:
			return 0
		case 1, 2:
			return 1
		default:
			return 2 + r.Intn(4)
		}
	}
	nvs := []int{2 + r.Intn(3), 1 + r.Intn(3)}
	for e := 0; e < epochs; e++ {
		// a plan of batches per container, shuffled, made contiguous on the fly
		type batch struct{ c, v int }
		var plan []batch
		for c, nv := range nvs {
			if c == 1 && r.Intn(3) == 0 {
				continue
			}
			for v := 0; v < nv; v++ {
				for k := 1 + r.Intn(3); k > 0; k-- {
					plan = append(plan, batch{c, v})
				}
			}
		}
		r.Shuffle(len(plan), func(i, j int) { plan[i], plan[j] = plan[j], plan[i] })
		for len(plan) > 0 {
			// first batch of the plan whose vector may be filled now
			pick := -1
			for i, b := range plan {
				if b.v == 0 || len(h.vecs(h.pend, cids[b.c])[byte(b.v-1)]) > 0 {
					pick = i
					break
				}
			}
			if pick < 0 {
				break
			}
			b := plan[pick]
			plan = append(plan[:pick], plan[pick+1:]...)
			n := size()
			if b.v+1 < nvs[b.c] && len(h.vecs(h.pend, cids[b.c])[byte(b.v)]) == 0 && n == 0 {
				n = 1 // keep later vectors reachable
			}
			h.Add(true, cids[b.c], int64(b.v), draw(n))
			if r.Intn(9) == 0 {
				h.Keys(plcPfx('u', cids[b.c], byte(b.v)))
			}
			if r.Intn(12) == 0 { // a commit of the other container in the middle
				oc := cids[1-b.c]
				if h.Commit(true, oc, plcRandReps(r, nvs[1-b.c]), false) {
					for v := 0; v < nvs[1-b.c]; v++ {
						h.Nodes(oc, int64(v))
					}
				}
			}
		}
		for c, cid := range cids {
			if c == 1 && r.Intn(3) == 0 {
				continue // stays pending over the next epoch
			}
			if h.Commit(true, cid, plcRandReps(r, nvs[c]), r.Intn(2) == 0) {
				for v := 0; v < nvs[c]; v++ {
					h.Nodes(cid, int64(v))
				}
				h.Reps(cid)
			}
		}
	}
	h.Keys(plcPfx('u', cids[1]))
}

// plcGenSubmit: a container with the meta flag, a small roster, a few metas.
func plcGenSubmit(h *plcHist, r *rand.Rand, nsub int) {
	g := h.g
	t := h.run.t
	c := g.cnts[r.Intn(3)]
	oid := g.cids[1+r.Intn(2)]
	withMeta := r.Intn(8) != 0
	h.Put(c, withMeta)
	roster := plcRandRoster(r)
	for v := range roster {
		if len(roster[v]) > 5 {
			roster[v] = roster[v][:5]
		}
	}
	if len(roster) > 2 {
		roster = roster[:2]
	}
	h.installRoster(r, c.id, roster)
	reps := make([]int64, len(roster))
	for i := range reps {
		reps[i] = int64(1 + r.Intn(3))
	}
	h.Commit(true, c.id, reps, false)
	deleted := false
	for i := 0; i < nsub; i++ {
		cur := h.height()
		var vub stackitem.Item = stackitem.Make(int64(math.MaxInt64))
		switch r.Intn(8) {
		case 0:
			vub = stackitem.Make(cur)
		case 1:
			vub = stackitem.Make(cur + 1)
		case 2:
			vub = stackitem.Null{}
		}
		m := plcMeta(h.env.magic, c.id, oid, vub)
		switch r.Intn(14) {
		case 0:
			m = plcDrop(m, []string{"cid", "oid", "network", "size", "deleted", "locked", "validuntil"}[r.Intn(7)])
		case 1:
			m = plcSet(m, "network", stackitem.Make(h.env.magic+int64(r.Intn(3))-1))
		case 2:
			m = plcSet(m, []string{"size", "deleted", "locked"}[r.Intn(3)], stackitem.Null{})
		case 3:
			m = plcSet(m, "deleted", plcIDs(g.cids[2], g.cids[3], g.cids[0]))
		case 4:
			m = plcSet(m, "locked", plcIDs())
		}
		raw := plcRaw(t, m)
		other := g.msgs[2]
		if r.Intn(5) < 2 {
			h.Submit(raw, h.honestMatrix(r, roster, reps, raw), false)
		} else {
			h.Submit(raw, h.randMatrix(r, roster, reps, raw, other), false)
		}
		if !deleted && r.Intn(10) == 0 {
			h.Delete(c, true)
			deleted = true
		}
	}
	h.Nodes(c.id, 0)
}

// plcGenBig (thorough): totals 1..300 per vector in batches that cross
// 127/255/256.
func plcGenBig(h *plcHist, r *rand.Rand) {
	g := h.g
	A := g.cids[r.Intn(2)]
	nv := 1 + r.Intn(2)
	for v := 0; v < nv; v++ {
		total := []int{126 + r.Intn(5), 253 + r.Intn(6), 1 + r.Intn(300), 257 + r.Intn(43)}[r.Intn(4)]
		start := r.Intn(plcRingSize)
		done := 0
		for done < total {
			n := 1 + r.Intn(130)
			if r.Intn(3) == 0 {
				n = 1
			}
			if done+n > total {
				n = total - done
			}
			idx := make([]int, n)
			for i := range idx {
				idx[i] = (start + done + i) % plcRingSize
			}
			h.Add(true, A, int64(v), g.pubs(idx...))
			done += n
			if r.Intn(6) == 0 {
				h.Keys(plcPfx('u', A, byte(v)))
			}
		}
	}
	h.Keys(plcPfx('u', A, 0))
	h.Commit(true, A, plcRandReps(r, nv), false)
	for v := 0; v < nv; v++ {
		h.Nodes(A, int64(v))
	}
	h.Keys(plcPfx('n', A, 0))
	h.Add(true, A, 0, g.pubs(plcRange(0, 1+r.Intn(5))...))
	h.Keys(plcPfx('u', A, 0))
	h.Commit(true, A, []int64{1}, false)
	h.Nodes(A, 0)
	h.Nodes(A, 1)
}

// ---------------------------------------------------------------------------

func TestC14(t *testing.T) {
	st := NewStats("C14")
	st.Rule = "histories = hand-written corpus (F6 matrices, signers from a different vector / another container (C14-a witnesses), roster life cycle, vector/REP boundaries, 255-vector ladder, non-point key, 300-key vector, submitObjectPut variants) + seeded generation " +
		"(roster life cycles over 2 container ids; batches of 2..4 vectors of two containers in shuffled interleaved order with sizes 0/1/2..5, several commits, every vector read back after every commit; verification matrices for rosters of 1..4 vectors x 1..8 members with different REP numbers, built from {member, non-member, member of a different vector of the same container, member of another container's roster, duplicate, second signature by the same member, wrong message, malleated, junk}; submitObjectPut on containers created by a real put); " +
		"non-trivial = the history contains at least one accepted commitContainerListUpdate and at least one OVerify/OSubmit evaluation or refused (faulted) operation; " +
		"distinct = by the canonical string of all ops (arguments by interned byte strings) and outcomes"
	thorough := Tier() == "thorough"
	run := &plcRun{t: t, st: st, distinct: map[string]bool{}, notes: map[string]string{}}
	fileIdx := 0
	var files []string
	newFile := func() {
		run.cf = &CasesFile{Pool: NewPool("p"),
			Header: "From Verif Require Import Base.Prelude Model.Placement.\nLocal Open Scope Z_scope.\n",
			Footer: "Definition M := Eval vm_compute in failures_from 0 (map check_case cases).\nPrint M.\n"}
		run.hcount = 0
	}
	flush := func() {
		if run.cf == nil || len(run.cf.Cases) == 0 {
			return
		}
		name := "cases_C14.v"
		if fileIdx > 0 {
			name = fmt.Sprintf("cases_C14_%d.v", fileIdx)
		}
		require.NoError(t, run.cf.Write(filepath.Join(OutDir(), name)))
		files = append(files, name)
		fileIdx++
	}
	approxSize := func() int {
		n := 0
		for _, c := range run.cf.Cases {
			n += len(c)
		}
		for _, s := range run.cf.Pool.order {
			n += 30 + 4*len(s)
		}
		return n
	}
	limit := 450_000
	do := func(name string, f func(h *plcHist)) {
		if approxSize() > limit {
			flush()
			newFile()
		}
		h := run.newHist(name)
		f(h)
		h.finish()
		if len(st.Samples) < 3 && (name == "corpus/F6" || name == "corpus/badkey" || name == "verify/0") {
			st.Samples = append(st.Samples, h.literal(9))
		}
	}
	newFile()
	do("corpus/F6", plcCorpusF6)
	do("corpus/cross", plcCorpusCross)
	do("corpus/roster", plcCorpusRoster)
	do("corpus/interleave", plcCorpusInterleave)
	do("corpus/bounds", plcCorpusBounds)
	do("corpus/longreps", plcCorpusLongReps)
	do("corpus/badkey", plcCorpusBadKey)
	do("corpus/big300", plcCorpusBig)
	do("corpus/submit", plcCorpusSubmit)
	do("corpus/submit-null", plcCorpusSubmitNull)
	do("corpus/ladder", plcCorpusLadder)

	nRoster, nVerify, nSubmit, nBig := 9, 14, 6, 0
	rosterOps, maxBatch, totalCap, nver, nsub := 22, 12, 40, 5, 4
	if thorough {
		nRoster, nVerify, nSubmit, nBig = 120, 120, 50, 24
		rosterOps, nver, nsub = 34, 7, 6
	}
	for i := 0; i < nVerify; i++ {
		r := Rng(1410000 + int64(i))
		do(fmt.Sprintf("verify/%d", i), func(h *plcHist) { plcGenVerify(h, r, nver) })
	}
	for i := 0; i < nRoster; i++ {
		r := Rng(1420000 + int64(i))
		do(fmt.Sprintf("roster/%d", i), func(h *plcHist) { plcGenRoster(h, r, rosterOps, maxBatch, totalCap) })
	}
	nInter, interEpochs := 8, 2
	if thorough {
		nInter, interEpochs = 60, 3
	}
	for i := 0; i < nInter; i++ {
		r := Rng(1450000 + int64(i))
		do(fmt.Sprintf("interleave/%d", i), func(h *plcHist) { plcGenInterleave(h, r, interEpochs) })
	}
	for i := 0; i < nSubmit; i++ {
		r := Rng(1430000 + int64(i))
		do(fmt.Sprintf("submit/%d", i), func(h *plcHist) { plcGenSubmit(h, r, nsub) })
	}
	for i := 0; i < nBig; i++ {
		r := Rng(1440000 + int64(i))
		do(fmt.Sprintf("big/%d", i), func(h *plcHist) { plcGenBig(h, r) })
	}
	flush()
	st.DistinctNontrivial = len(run.distinct)
	st.Extra["max_keys_per_vector"] = run.maxKeys
	st.Extra["verify_true"] = run.verTrue
	st.Extra["verify_false"] = run.verFalse
	st.Extra["f6_style_matrices_tried"] = run.f6Tried
	st.Extra["cross_vector_or_container_signer_matrices_tried"] = run.crossTried
	st.Extra["cases_files"] = files
	st.Extra["observed"] = run.notes
	st.Write()
	for _, v := range st.Violations {
		t.Logf("monitor violation: %s (%s)", v.What, v.Replay)
	}
}
