//go:build verif_c18

package harness

import (
	"fmt"
	"strings"
	"testing"
	"time"

	"github.com/nspcc-dev/neo-go/pkg/core/transaction"
	"github.com/nspcc-dev/neo-go/pkg/neotest"
	"github.com/nspcc-dev/neo-go/pkg/smartcontract/callflag"
	"github.com/nspcc-dev/neo-go/pkg/smartcontract/trigger"
	"github.com/nspcc-dev/neo-go/pkg/util"
	"github.com/nspcc-dev/neo-go/pkg/vm/stackitem"
	"github.com/stretchr/testify/require"
)

// nnsEnv is a chain with the NNS contract of the working tree, TLD "com",
// domain "test.com" owned by the validator, and one record of every data type
// at id 0 (so that setRecord has something to replace).
type nnsEnv struct {
	*Env
	nns    util.Uint160
	owner  neotest.Signer
	domain string
}

func newNNSEnv(t testing.TB) *nnsEnv {
	v := NewEnv(t)
	ctr := v.Compile("nns")
	v.E.DeployContract(t, ctr, nil)
	n := &nnsEnv{Env: v, nns: ctr.Hash, owner: v.E.Validator, domain: "test.com"}
	year := int64(365 * 24 * 3600)
	r := v.Invoke([]neotest.Signer{v.E.Committee}, n.nns, "registerTLD", "com", "a@b.c", int64(101), int64(102), 100*year, int64(104))
	require.True(t, r.Halt, r.Fault)
	r = v.Invoke([]neotest.Signer{n.owner}, n.nns, "register", n.domain, n.owner.ScriptHash(), "a@b.c", int64(101), int64(102), 100*year, int64(104))
	require.True(t, r.Halt, r.Fault)
	for _, rec := range []struct {
		typ  int64
		data string
	}{{1, "8.8.8.8"}, {5, "alias.com"}, {16, "text"}, {28, "2001:4860:4860::8888"}} {
		r = v.Invoke([]neotest.Signer{n.owner}, n.nns, "addRecord", n.domain, rec.typ, rec.data)
		require.True(t, r.Halt, r.Fault)
	}
	return n
}

// try runs a test invocation (nothing is persisted) signed by the owner and
// returns "" on HALT, the fault text otherwise.
func (n *nnsEnv) try(method string, args ...any) string {
	tx := n.E.NewUnsignedTx(n.T, n.nns, method, args...)
	tx.Signers = []transaction.Signer{{Account: n.owner.ScriptHash(), Scopes: transaction.Global}}
	b := n.E.NewUnsignedBlock(n.T, tx)
	ic, err := n.BC.GetTestVM(trigger.Application, tx, b)
	require.NoError(n.T, err)
	defer ic.Finalize()
	ic.VM.LoadWithFlags(tx.Script, callflag.All)
	if err = ic.VM.Run(); err != nil {
		return "FAULT: " + err.Error()
	}
	if method == "isAvailable" {
		if bl, e := ic.VM.Estack().Pop().Item().TryBool(); e == nil && !bl {
			return "" // not available, but a well-formed name
		}
	}
	return ""
}

var _ = stackitem.Null{}

func TestC18Probe(t *testing.T) {
	n := newNNSEnv(t)
	show := func(kind string, typ int64, ss ...string) {
		for _, s := range ss {
			var f string
			if kind == "name" {
				f = n.try("isAvailable", []byte(s))
			} else {
				f = n.try("addRecord", n.domain, typ, []byte(s))
			}
			if i := strings.Index(f, "error encountered"); i >= 0 {
				f = f[i:]
			}
			if len(f) > 90 {
				f = f[len(f)-90:]
			}
			fmt.Printf("%-5s %-44q %s\n", kind, s, f)
		}
	}
	show("A", 1, "1.2.3.4", "+1.2.3.4", "1.+2.3.4", "1.2.3.256", "1.2.3.999", "01.2.3.4", "1.2.3.00", "1.2.3.0", "1.2.3.x", "1.2.3.4x", "1.2.3.4_", "1.2.3.1_0",
		"100.100.100.100", "100.100.100.1000", "1.2.3", "1.2.3.4.5", "1.2.3.", "223.255.255.254", "224.1.1.1", "1.2.3.-4", "1.2.3.4 ", "1.2.3.\xff", "9.9.9.0009", "9.9.9.9e0")
	show("AAAA", 28, "2001:4860::8888", "2003:1:2:3:4:5:6::", "::2003:1:2:3:4:5:6", "2003::1:2:3:4:5:6", "2003:1:2:3:4:5::6", "2003:1:2:3:4:5:6:7", "2003:1:2:3:4:5:6:7:8",
		"::", ":::", "2003::", "2003:::", "2003::1::2", ":2003::1", "2003::1:", "2003:0000::1", "2003:00000::1", "2003:DB8::A", "2003:g::1", "2003:-1::1", "2003:+1::1",
		"2001:800::1", "2001:8000::1", "2001:db9::1", "2001:db8::1", "2001:1ff::1", "2001:200::1", "2002::1", "3ffe::1", "3fff::1", "4000::1", "2000::", "1fff::1",
		"2003::1.2.3.4", "2003:1:2:3:4:5:1.2.3.4", "2003", "2003:1", "", "2003:1:2:3:4:5:6:", ":2003:1:2:3:4:5:6", "2003:\xff::1", "2003: 1::1", "2003:0x1::1", "2003:1:2:3::5:6:7:8", "2003:1:2:3:4::5:6:7:8")
	show("TXT", 16, "", strings.Repeat("x", 255), strings.Repeat("x", 256), "\xff\xfe", strings.Repeat("\xff", 255))
	show("CNAME", 5, "a.b", "ab", "abc", "a-b.com", "-ab.com", "ab-.com", "a--b.com", "a.com.", ".a.com", "a..com", "A.com", "a_b.com", "a.1om", "a.c-m", "a.c0", "a.co-",
		strings.Repeat("a", 63)+".com", strings.Repeat("a", 64)+".com", "a."+strings.Repeat("c", 16), "a."+strings.Repeat("c", 17), "\xff\xfe.com", "1.2")
	show("name", 0, "a.b", "ab", "abc", "com", "x.com", "test.com", "a.test.com", "zz.zz", "A.com", "a.com.", "\xffa.com")
	long := strings.Repeat(strings.Repeat("a", 63)+".", 3) + strings.Repeat("a", 59) + ".com"
	fmt.Println(len(long))
	show("CNAME", 5, long, "a"+long, long[1:])
	show("other", 6, "x")
	show("other", 0, "x")
	show("other", 2, "1.2.3.4")

	t0 := time.Now()
	for i := 0; i < 2000; i++ {
		n.try("addRecord", n.domain, int64(28), []byte(fmt.Sprintf("2003:%x::1", i)))
	}
	fmt.Println("addRecord test invocation:", time.Since(t0)/2000)
	t0 = time.Now()
	for i := 0; i < 2000; i++ {
		n.try("isAvailable", []byte(fmt.Sprintf("a%d.com", i)))
	}
	fmt.Println("isAvailable test invocation:", time.Since(t0)/2000)
}
