package harness

// C18 — NNS accepts exactly well-formed names and record data.
//
// Every string is shown to the NNS contract compiled from the working tree
// through test invocations (nothing is persisted, so every string meets the
// same prepared state).
//
// Core observation, two-valued and independent of fault texts: HALT =
// accepted, FAULT = rejected, on entry points and inputs where nothing but
// the syntactic check can fault:
//   - record data (A, AAAA, TXT, CNAME, other types) through addRecord on the
//     domain "add.com" (owned by the signer, no records) and through setRecord
//     of id 0 on "set.com" (one record of every type); CNAME data is exactly
//     the name grammar, so names are covered through it;
//   - isAvailable on names without a dot or under a registered TLD;
//   - register on names whose parent (everything after the first dot) is a
//     registered TLD or a domain of the signer (a chain of three 63-byte
//     labels is registered to reach the 255-byte bound);
//   - registerTLD (committee) on names without a dot that are not registered.
// Refinement, used only while every fault text seen is one of the known
// ones (Extra["messages_recognised"]): FAULT splits into the check's own
// panic ('F') and a fault raised inside the check ('X': a native refusing its
// input, "not a byte", "unsupported record type"), and the name entry points
// are also compared outside the prepared subsets ("TLD not found" & co. come
// after the check).  An unknown text is not a violation: the run falls back
// to the two-valued comparison.
//
// cases_C18*.v let Coq compare (1) the implementation with the model
// (definitions M*), and (2) the implementation with the boolean version of
// the grammar, which Proofs/NNSSyntaxBool.v proves equivalent to the
// declarative one (definitions MG*).  The Go monitors compare HALT/FAULT
// between entry points on the same string (addRecord vs setRecord; name entry
// points vs CNAME data) and report the signature of the repaired finding F12.

import (
	"bytes"
	"fmt"
	"math/rand"
	"os"
	"path/filepath"
	"regexp"
	"sort"
	"strconv"
	"strings"
	"testing"

	"github.com/nspcc-dev/neo-go/pkg/core/transaction"
	"github.com/nspcc-dev/neo-go/pkg/neotest"
	"github.com/nspcc-dev/neo-go/pkg/smartcontract/callflag"
	"github.com/nspcc-dev/neo-go/pkg/smartcontract/trigger"
	"github.com/nspcc-dev/neo-go/pkg/util"
	"github.com/stretchr/testify/require"
)

// c18Env is a chain with the NNS contract of the working tree, TLD "com",
// domain "add.com" without records, domain "set.com" with one record of every
// data type at id 0, and the chain a63.com, a63.a63.com, a63.a63.a63.com plus
// a 255-byte domain below it, all owned by the validator.
type c18Env struct {
	*Env
	nns     util.Uint160
	owner   neotest.Signer
	tlds    map[string]bool // registered TLDs
	domains map[string]bool // registered domains of the owner
	chain3  string          // 195-byte domain
	unknown map[string]int  // fault texts outside the known classes
	faults  map[string]int  // recognised faults raised inside the check
}

func newC18Env(t testing.TB) *c18Env {
	v := NewEnv(t)
	ctr := v.Compile("nns")
	v.E.DeployContract(t, ctr, nil)
	n := &c18Env{Env: v, nns: ctr.Hash, owner: v.E.Validator, tlds: map[string]bool{}, domains: map[string]bool{},
		unknown: map[string]int{}, faults: map[string]int{}}
	year := int64(365 * 24 * 3600)
	r := v.Invoke([]neotest.Signer{v.E.Committee}, n.nns, "registerTLD", "com", "a@b.c", int64(101), int64(102), 100*year, int64(104))
	require.True(t, r.Halt, r.Fault)
	n.tlds["com"] = true
	lab := strings.Repeat("a", 63)
	d1 := lab + ".com"
	d2 := lab + "." + d1
	n.chain3 = lab + "." + d2
	d4 := strings.Repeat("b", 59) + "." + n.chain3 // 255 bytes
	for _, d := range []string{"add.com", "set.com", d1, d2, n.chain3, d4} {
		r = v.Invoke([]neotest.Signer{n.owner}, n.nns, "register", d, n.owner.ScriptHash(), "a@b.c", int64(101), int64(102), 100*year, int64(104))
		require.True(t, r.Halt, r.Fault)
		n.domains[d] = true
	}
	for _, rec := range []struct {
		typ  int64
		data string
	}{{1, "8.8.8.8"}, {5, "alias.com"}, {16, "text"}, {28, "2001:4860:4860::8888"}} {
		r = v.Invoke([]neotest.Signer{n.owner}, n.nns, "setRecord", "set.com", rec.typ, int64(0), rec.data)
		require.False(t, r.Halt) // nothing to replace yet
		r = v.Invoke([]neotest.Signer{n.owner}, n.nns, "addRecord", "set.com", rec.typ, rec.data)
		require.True(t, r.Halt, r.Fault)
	}
	return n
}

// try runs a test invocation signed (Global) by signer; "" on HALT, the fault
// text otherwise.
func (n *c18Env) try(signer util.Uint160, method string, args ...any) string {
	tx := n.E.NewUnsignedTx(n.T, n.nns, method, args...)
	tx.Signers = []transaction.Signer{{Account: signer, Scopes: transaction.Global}}
	b := n.E.NewUnsignedBlock(n.T, tx)
	ic, err := n.BC.GetTestVM(trigger.Application, tx, b)
	require.NoError(n.T, err)
	defer ic.Finalize()
	ic.VM.LoadWithFlags(tx.Script, callflag.All)
	if err = ic.VM.Run(); err != nil {
		return "FAULT: " + err.Error()
	}
	return ""
}

// Entry points, as the type code of the Coq side.
const (
	c18IsAvailable = int64(0)
	c18Register    = int64(-1)
	c18RegisterTLD = int64(-2)
)

// c18Obs is what one invocation showed. halt is the core observation.  class
// refines it with the help of the fault text: 'T' HALT or a fault that can
// only come after the check, 'F' the check's own panic, 'X' a fault inside the
// check, '?' a text outside the known classes.  sound says that in the
// prepared state nothing but the syntactic check can fault for this input.
type c18Obs struct {
	halt  bool
	class byte
	sound bool
}

var c18Quoted = regexp.MustCompile(`unhandled exception: "([^"]*)"`)

func (n *c18Env) classify(fault string, checkMsgs, laterMsgs, insideMsgs []string) byte {
	if fault == "" {
		return 'T'
	}
	msg := fault
	if m := c18Quoted.FindStringSubmatch(fault); m != nil {
		msg = m[1]
	} else if i := strings.LastIndex(fault, "): "); i >= 0 {
		msg = "native: " + fault[i+3:]
	}
	for _, m := range checkMsgs {
		if msg == m {
			return 'F'
		}
	}
	for _, m := range laterMsgs {
		if msg == m {
			return 'T'
		}
	}
	for _, m := range insideMsgs {
		if msg == m {
			n.faults[msg]++
			return 'X'
		}
	}
	n.unknown[msg]++
	return '?'
}

var (
	c18NameCheck   = []string{"invalid domain name length", "invalid domain fragment"}
	c18NameInside  = []string{"native: invalid value: not UTF-8"}
	c18RecCheck    = []string{"invalid record data"}
	c18RecInside   = []string{"native: invalid value: not UTF-8", "native: invalid format", "not a byte", "unsupported record type"}
	c18AvailLater  = []string{"TLD not found"}
	c18RegLater    = []string{"TLD denied", "TLD not found", "one of the parent domains is not registered", "not witnessed by admin"}
	c18RegTLDLater = []string{"not a TLD", "TLD already exists"}
)

// call shows s to the entry point typ (a name entry point, or addRecord for a
// record type).
func (n *c18Env) call(typ int64, s []byte) c18Obs {
	var f string
	var o c18Obs
	dot := bytes.IndexByte(s, '.')
	switch typ {
	case c18IsAvailable:
		f = n.try(n.owner.ScriptHash(), "isAvailable", s)
		o.class = n.classify(f, c18NameCheck, c18AvailLater, c18NameInside)
		o.sound = dot < 0 || n.tlds[string(s[bytes.LastIndexByte(s, '.')+1:])]
	case c18Register:
		f = n.try(n.owner.ScriptHash(), "register", s, n.owner.ScriptHash(), "a@b.c", int64(1), int64(2), int64(3000000), int64(4))
		o.class = n.classify(f, c18NameCheck, c18RegLater, c18NameInside)
		o.sound = dot >= 0 && (n.tlds[string(s[dot+1:])] || n.domains[string(s[dot+1:])])
	case c18RegisterTLD:
		f = n.try(n.E.CommitteeHash, "registerTLD", s, "a@b.c", int64(1), int64(2), int64(3000000), int64(4))
		o.class = n.classify(f, c18NameCheck, c18RegTLDLater, c18NameInside)
		o.sound = dot < 0 && !n.tlds[string(s)]
	default:
		f = n.try(n.owner.ScriptHash(), "addRecord", "add.com", typ, s)
		o.class = n.classify(f, c18RecCheck, nil, c18RecInside)
		o.sound = true
	}
	o.halt = f == ""
	return o
}

// setRecord replaces record 0 of set.com (a type without a record there
// faults after the check, as the model says it faults in the check).
func (n *c18Env) setRecord(typ int64, s []byte) c18Obs {
	f := n.try(n.owner.ScriptHash(), "setRecord", "set.com", typ, int64(0), s)
	return c18Obs{halt: f == "", sound: true,
		class: n.classify(f, c18RecCheck, []string{"invalid record id", "record already exists"}, c18RecInside)}
}

// ---------------------------------------------------------------------------
// Coq output

func c18Pack(s []byte) string {
	if len(s) == 0 {
		return "[]"
	}
	var ws []string
	for i := 0; i < len(s); i += 7 {
		c := s[i:min(i+7, len(s))]
		var w uint64
		for j := len(c) - 1; j >= 0; j-- {
			w = w<<8 | uint64(c[j])
		}
		w |= 1 << (8 * uint(len(c)))
		ws = append(ws, strconv.FormatUint(w, 10))
	}
	return "[" + strings.Join(ws, ";") + "]"
}

// c18Rows emits packed strings as named rows of at most 200 strings.
type c18Rows struct {
	sb   strings.Builder
	next int
}

func (w *c18Rows) rows(ss [][]byte) string {
	var names []string
	for i := 0; i < len(ss); i += 200 {
		name := fmt.Sprintf("r%d", w.next)
		w.next++
		parts := make([]string, 0, 200)
		for _, s := range ss[i:min(i+200, len(ss))] {
			parts = append(parts, c18Pack(s))
		}
		fmt.Fprintf(&w.sb, "Definition %s : list (list int) := [%s].\n", name, strings.Join(parts, ";\n"))
		names = append(names, name)
	}
	return "[" + strings.Join(names, "; ") + "]"
}

const c18Header = "From Verif Require Import Base.Prelude Model.NNSSyntax Spec.Grammar Model.NNSSyntaxRun.\nFrom Coq Require Import Uint63.\nLocal Open Scope uint63_scope.\n"

func c18ObsLit(o byte) string {
	switch o {
	case 'T':
		return "VBool true"
	case 'F':
		return "VBool false"
	case 'R':
		return "VNull"
	default:
		return "VFault"
	}
}

// ---------------------------------------------------------------------------
// Families (exhaustive)

type c18Family struct {
	name   string
	typ    int64 // entry point or record type
	sep    int   // -1 = none
	tokens []string
	n      int
	suffix string
	refine bool // needs fault texts to tell acceptance: written only while they are recognised
}

func (f c18Family) enumerate(visit func(s []byte)) {
	var sepS string
	if f.sep >= 0 {
		sepS = string([]byte{byte(f.sep)})
	}
	idx := make([]int, 0, f.n)
	var rec func(k int)
	parts := make([]string, f.n)
	rec = func(k int) {
		if len(idx) == k {
			for i, x := range idx {
				parts[i] = f.tokens[x]
			}
			visit([]byte(strings.Join(parts[:k], sepS) + f.suffix))
			return
		}
		for t := range f.tokens {
			idx = append(idx, t)
			rec(k)
			idx = idx[:len(idx)-1]
		}
	}
	for k := 1; k <= f.n; k++ {
		rec(k)
	}
}

func (f c18Family) coq(acc, flt string) string {
	sep := "None"
	if f.sep >= 0 {
		sep = fmt.Sprintf("(Some %d%%N)", f.sep)
	}
	toks := make([]string, len(f.tokens))
	for i, t := range f.tokens {
		toks[i] = BytesLit([]byte(t))
	}
	return fmt.Sprintf("(%s%%Z, %s, %s, %d%%nat, %s, %s, %s)", c18ParenNeg(strconv.FormatInt(f.typ, 10)), sep, ListLit(toks), f.n, BytesLit([]byte(f.suffix)), acc, flt)
}

// ---------------------------------------------------------------------------
// Listed strings

type c18Case struct {
	typ int64
	s   string
}

func c18IPv4Mutations() []string {
	var out []string
	add := func(s string) { out = append(out, s) }
	vals := []int{0, 1, 9, 10, 99, 100, 126, 127, 128, 169, 172, 192, 223, 224, 255, 256, 999}
	for _, a := range vals {
		for _, b := range []int{0, 15, 16, 31, 32, 167, 168, 253, 254, 255} {
			for _, d := range []int{0, 1, 254, 255} {
				add(fmt.Sprintf("%d.%d.8.%d", a, b, d))
			}
		}
	}
	for p := 0; p < 4; p++ {
		for _, v := range vals {
			o := []string{"8", "8", "8", "8"}
			o[p] = strconv.Itoa(v)
			add(strings.Join(o, "."))
		}
		for _, v := range []string{"+8", "-8", "08", "008", "0008", "00", "000", " 8", "8 ", "8x", "x8", "x", "0x8", "8e0", "8_0", "1_0",
			"", "+", "-", "+0", "-0", "８", "٨", "8\x00", "\x008", "8\n", "256", "0256", "300", "1000", "99999999", "+256", "-1", "2 5", "0.8"} {
			o := []string{"8", "9", "7", "6"}
			o[p] = v
			add(strings.Join(o, "."))
		}
	}
	for _, s := range []string{"", ".", "...", "....", "1.1.1.1", "1.1.1", "1.1.1.", ".1.1.1", "1.1.1.1.", ".1.1.1.1", "1..1.1", "1.1.1.1.1", "1.1.1.10",
		"100.100.100.100", "100.100.100.1000", "1.1.1.1000000000", "1.1.1.000000001", "1.1.1.0000000001", "255.255.255.255", "223.255.255.254",
		"1.1.1.1 ", " 1.1.1.1", "1.1.1.1\x00", "1,1,1,1", "1:1:1:1", "+1.2.3.4", "1.+2.3.4", "+1.+2.+3.+4", "1.2.3.+4", "-1.2.3.4", "1.2.3.-4",
		"1.2.3.4\xff", "\xff.2.3.4", "1.2.3.\xc3\xa9", "0x1.2.3.4", "1.2.3.4/8", "01.02.03.04", "001.2.3.4", "1.2.3.04", "1.2.3.40", "1.2.3.004",
		"172.16.0.1", "172.15.255.1", "172.31.255.1", "172.32.0.1", "169.254.1.1", "169.253.1.1", "192.168.1.1", "192.167.1.1", "192.169.1.1",
		"10.0.0.1", "11.0.0.1", "9.255.255.1", "127.0.0.1", "126.0.0.1", "128.0.0.1", "0.0.0.1", "224.0.0.1", "223.0.0.1", "239.1.1.1", "240.1.1.1", "255.1.1.1",
		"8.8.8.0", "8.8.8.255", "8.8.0.8", "8.8.255.8", "8.0.0.8", "8.255.255.8"} {
		add(s)
	}
	return out
}

func c18IPv6Mutations() []string {
	var out []string
	add := func(s string) { out = append(out, s) }
	groups := []string{"0", "1", "1ff", "200", "db8", "db9", "7fff", "8000", "ffff", "10000", "2000", "2001", "2002", "2003", "3ffe", "3fff", "4000", "1fff",
		"0000", "00000", "0200", "01ff", "0db8", "DB8", "Db9", "FFFF", "aBcD", "g", "-1", "+1", "", " 1", "1 ", "0x1", "1_", "２", "\xff", "1.2.3.4", "fffff", "1e1"}
	for _, g0 := range []string{"2000", "2001", "2002", "2003", "3ffe", "3fff", "4000", "1fff", "0", "ffff", "02001", "2A03", "3FFE", "3fFf", "200", "20010"} {
		for _, g1 := range groups {
			add(g0 + ":" + g1 + "::1")
		}
	}
	base := []string{"2003", "1", "2", "3", "4", "5", "6", "7"}
	for p := 0; p < 8; p++ {
		for _, g := range groups {
			o := append([]string{}, base...)
			o[p] = g
			add(strings.Join(o, ":"))
		}
	}
	gs := []string{"2003", "a", "b", "c", "d", "e", "f", "9", "8", "7"}
	for k := 0; k <= 9; k++ { // k groups, "::" after the first p of them
		for p := 0; p <= k; p++ {
			add(strings.Join(gs[:p], ":") + "::" + strings.Join(gs[p:k], ":"))
			add(strings.Join(gs[:p], ":") + ":::" + strings.Join(gs[p:k], ":"))
			add(strings.Join(gs[:p], ":") + "::" + strings.Join(gs[p:k], ":") + ":")
			add(":" + strings.Join(gs[:p], ":") + "::" + strings.Join(gs[p:k], ":"))
			add(strings.Join(gs[:p], ":") + "::" + strings.Join(gs[p:k], ":") + "::")
			for q := p + 1; q < k; q++ {
				add(strings.Join(gs[:p], ":") + "::" + strings.Join(gs[p:q], ":") + "::" + strings.Join(gs[q:k], ":"))
			}
		}
		if k >= 1 {
			add(strings.Join(gs[:k], ":")) // 1..9 plain groups
			add(strings.Join(gs[:k], ":") + ":")
			add(":" + strings.Join(gs[:k], ":"))
		}
	}
	// seven groups and a compression at either end, several first groups
	for _, g0 := range []string{"2003", "2001", "2002", "3ffe", "3fff", "2000", "1fff", "4000", "0", "FFFF"} {
		for _, g1 := range []string{"1", "1ff", "200", "db8", "db9"} {
			add(g0 + ":" + g1 + ":2:3:4:5:6::")
			add("::" + g0 + ":" + g1 + ":2:3:4:5:6")
			add(g0 + ":" + g1 + ":2:3:4:5::")
			add(g0 + ":" + g1 + ":2:3:4:5::6")
			add(g0 + ":" + g1 + ":2:3:4:5:6:7")
		}
	}
	for _, s := range []string{"", ":", "::", ":::", "::::", "1", "::1", "1::", "2003::", "::2003", "2003::1", "2003:0:0:0:0:0:0:1", "2003:0::0:1",
		"2003:ABCD::EF", "2003:abcd::ef", "2003:AbCd::eF", "2003::1.2.3.4", "::ffff:1.2.3.4", "2003:1:2:3:4:5:1.2.3.4", "2003::1%eth0", "2003::1/64", "[2003::1]",
		"2003:1111:2222:3333:4444:5555:6666:7777", "2003:1111:2222:3333:4444:5555:6666:77777", "2003:1111:2222:3333:4444:5555:6666::", "02003:1111:2222:3333:4444:5555:6666:7777",
		"2003:1111:2222:3333:4444:5555::7777", "2003::1 ", " 2003::1", "2003::1\x00", "2003::\xff", "2003::\xc3\xa9", "2003-1::1", "2003.1::1", "2003:1:2:3:4:5:6:7:8", "2003:1:2:3:4:5:6:7:8:9",
		"2001:800::1", "2001:8000::1", "2001:db9::1", "2001:500::1", "2001:200::1", "2001:1ff::1", "2001:db8::1", "2001::1", "2001:0::1", "2001:0db8::", "2001:DB8::", "2001:0DB9::"} {
		add(s)
	}
	return out
}

func c18NameMutations() []string {
	var out []string
	add := func(s string) { out = append(out, s) }
	rep := strings.Repeat
	for _, s := range []string{"", "a", "ab", "abc", "a.b", "a.", ".a", ".", "..", "...", "a..b", "a.b.", ".a.b", "a.b.c", "com", "x.com", "test.com", "a.test.com",
		"A.com", "a.Com", "a.coM", "aB.com", "a_b.com", "_a.com", "a_.com", "a.c_m", "a-b.com", "-ab.com", "ab-.com", "a--b.com", "a.c-m", "a.-cm", "a.cm-", "a.c--m",
		"xn--e1afmkfd.com", "1a.com", "a1.com", "1.com", "0.com", "a.1om", "a.c0m", "a.c0", "a.0", "a.9a", "9.a", "9", "999", "a9", "9a9", "a.b9", "1.2", "1.2.3.4",
		"a b.com", " a.com", "a.com ", "a.com\x00", "a\x00.com", "a+b.com", "a.com.", "a,com", "a/b.com", "a@b.com", "a:b.com", "a.co:m",
		"\xffa.com", "a.\xffom", "\xc3\xa9.com", "a.\xc3\xa9", "é.com", "пример.com", "a.中", "-.com", "a.-", "-", "---", "a-", "-a", "a-a", "a.a-a", "a-a.a",
		"z.z", "z9.z9", "zz.zz", "a.zzzzzzzzzzzzzzzz", "a.zzzzzzzzzzzzzzzzz"} {
		add(s)
	}
	for _, l := range []int{1, 2, 15, 16, 17, 62, 63, 64, 65, 100} {
		add(rep("a", l))              // a TLD alone
		add(rep("a", l) + ".com")     // a label
		add("x." + rep("c", l))       // a TLD after a label
		add("x." + rep("a", l) + ".b") // an inner label
		if l >= 3 {
			add("a" + rep("-", l-2) + "b.com")
			add("1" + rep("a", l-1))
			add("x.1" + rep("a", l-1))
			add("x." + rep("a", l-1) + "-")
			add("x." + rep("a", l-1) + "1")
		}
	}
	// total length 2, 3, 254, 255, 256 with legal labels
	lab := rep("a", 63)
	full := lab + "." + lab + "." + lab + "." // 192
	for _, tail := range []int{57, 58, 59, 60, 61, 62, 63} {
		add(full + rep("b", tail) + ".com") // 192+tail+4
		add(full + rep("b", tail-13) + "." + rep("c", 16))
	}
	add(rep("a.", 126) + "b")   // 253
	add(rep("a.", 127) + "b")   // 255
	add(rep("a.", 127) + "bb")  // 256
	add(rep("a.", 128) + "b")   // 257
	add(rep("a.", 127) + "1")   // 255, numeric TLD
	add(rep("a.", 127))         // 254, trailing dot
	add(rep("a", 255))
	add(rep("a", 256))
	add(rep("ab.", 400))
	add(rep("a", 1024))
	add(rep("a", 1025))
	add(rep("\xc3\xa9", 100))
	return out
}

func c18TXTMutations() []string {
	rep := strings.Repeat
	return []string{"", "x", rep("x", 254), rep("x", 255), rep("x", 256), rep("x", 257), rep("x", 1024), rep("x", 1025), rep("x", 2000),
		"\xff\xfe", rep("\xff", 255), rep("\xff", 256), rep("\x00", 255), rep("\x00", 256), rep("é", 127), rep("é", 128), "v=spf1 include:_spf.example.com ~all"}
}

func c18Random(rng *rand.Rand, count int) []c18Case {
	var out []c18Case
	pick := func(a string) byte { return a[rng.Intn(len(a))] }
	mutate := func(s string, alpha string) string {
		b := []byte(s)
		for k := rng.Intn(3); k > 0; k-- {
			switch rng.Intn(3) {
			case 0:
				if len(b) > 0 {
					b[rng.Intn(len(b))] = pick(alpha)
				}
			case 1:
				i := rng.Intn(len(b) + 1)
				b = append(b[:i], append([]byte{pick(alpha)}, b[i:]...)...)
			default:
				if len(b) > 0 {
					i := rng.Intn(len(b))
					b = append(b[:i], b[i+1:]...)
				}
			}
		}
		return string(b)
	}
	for i := 0; i < count; i++ {
		// A: four octet-like tokens
		var o []string
		for k := 0; k < 4; k++ {
			switch rng.Intn(10) {
			case 0:
				o = append(o, strconv.Itoa(rng.Intn(1200)))
			case 1:
				o = append(o, "0"+strconv.Itoa(rng.Intn(256)))
			case 2:
				o = append(o, []string{"0", "10", "127", "169", "172", "192", "224", "254", "255", "168", "16", "31"}[rng.Intn(12)])
			default:
				o = append(o, strconv.Itoa(rng.Intn(256)))
			}
		}
		s := strings.Join(o, ".")
		if rng.Intn(3) == 0 {
			s = mutate(s, "0123456789.+- x")
		}
		out = append(out, c18Case{1, s})
		// AAAA: hex-like tokens with an optional compression
		ng := 1 + rng.Intn(9)
		var g []string
		for k := 0; k < ng; k++ {
			switch {
			case k == 0 && rng.Intn(4) != 0:
				g = append(g, []string{"2000", "2001", "2002", "2003", "2a02", "3ffe", "3fff", "3000", "2A00", "1fff", "4000"}[rng.Intn(11)])
			case k == 1 && rng.Intn(3) == 0:
				g = append(g, []string{"0", "1ff", "200", "db8", "db9", "8000", "ffff"}[rng.Intn(7)])
			default:
				l := 1 + rng.Intn(4)
				if rng.Intn(12) == 0 {
					l = rng.Intn(7)
				}
				tok := make([]byte, l)
				for j := range tok {
					tok[j] = pick("0123456789abcdefABCDEF")
					if rng.Intn(60) == 0 {
						tok[j] = pick("gG-+ .xz")
					}
				}
				g = append(g, string(tok))
			}
		}
		switch rng.Intn(4) {
		case 0:
			s = strings.Join(g, ":")
		default:
			p := rng.Intn(len(g) + 1)
			s = strings.Join(g[:p], ":") + "::" + strings.Join(g[p:], ":")
		}
		if rng.Intn(4) == 0 {
			s = mutate(s, "0123456789abcdefABCDEF:::g. ")
		}
		out = append(out, c18Case{28, s})
		// names
		nl := 1 + rng.Intn(4)
		var ls []string
		for k := 0; k < nl; k++ {
			l := 1 + rng.Intn(6)
			if rng.Intn(10) == 0 {
				l = []int{15, 16, 17, 62, 63, 64}[rng.Intn(6)]
			}
			lb := make([]byte, l)
			for j := range lb {
				lb[j] = pick("abcxyz0189")
				if rng.Intn(8) == 0 {
					lb[j] = pick("-__AZ+ .")
				}
			}
			ls = append(ls, string(lb))
		}
		s = strings.Join(ls, ".")
		typ := int64(0)
		if rng.Intn(3) == 0 {
			typ = 5
		}
		out = append(out, c18Case{typ, s})
	}
	return out
}

// ---------------------------------------------------------------------------
// Signature of the repaired finding F12 (the only grammar knowledge on the Go
// side): seven hexadecimal groups followed by "::", global unicast.

var c18SevenGroups = regexp.MustCompile(`^([0-9a-fA-F]{1,4}:){6}[0-9a-fA-F]{1,4}::$`)

func c18IsF12(s string) bool {
	if !c18SevenGroups.MatchString(s) {
		return false
	}
	p := strings.Split(s, ":")
	g0, _ := strconv.ParseUint(p[0], 16, 32)
	g1, _ := strconv.ParseUint(p[1], 16, 32)
	if g0 < 0x2000 || g0 > 0x3fff || g0 == 0x2002 || g0 == 0x3ffe {
		return false
	}
	return g0 != 0x2001 || (g1 >= 0x200 && g1 != 0xdb8)
}

// ---------------------------------------------------------------------------

func TestC18(t *testing.T) {
	n := newC18Env(t)
	st := NewStats("C18")
	out := OutDir()
	thorough := Tier() == "thorough"

	entryName := func(typ int64) string {
		switch typ {
		case c18IsAvailable:
			return "isAvailable"
		case c18Register:
			return "register"
		case c18RegisterTLD:
			return "registerTLD"
		}
		return "addRecord"
	}
	kindName := func(typ int64) string {
		if typ <= 0 {
			return "name(" + entryName(typ) + ")"
		}
		if k := map[int64]string{1: "A", 5: "CNAME", 16: "TXT", 28: "AAAA"}[typ]; k != "" {
			return k
		}
		return "other-type"
	}
	distinct := map[string]bool{}
	nontrivial := map[string]bool{}
	classes := map[string]int{}
	note := func(typ int64, s []byte, o c18Obs) {
		k := strconv.FormatInt(typ, 10) + "/" + string(s)
		if distinct[k] {
			return
		}
		distinct[k] = true
		l := len(s)
		gate := true
		switch {
		case typ <= 0 || typ == 5:
			gate = l >= 3 && l <= 255
		case typ == 1:
			gate = l >= 7 && l <= 15
		case typ == 28:
			gate = l >= 2 && l <= 39
		}
		if gate {
			nontrivial[k] = true
		}
		if o.halt {
			st.OutcomeHistogram[kindName(typ)+"/HALT"]++
		} else {
			st.OutcomeHistogram[kindName(typ)+"/FAULT"]++
		}
		classes[kindName(typ)+"/"+map[byte]string{'T': "accepted", 'F': "rejected by the check", 'X': "fault inside the check", '?': "fault with an unknown text"}[o.class]]++
		if typ == 28 && !o.halt && c18IsF12(string(s)) {
			st.AddViolation(fmt.Sprintf("the global unicast address %q (seven groups and \"::\" for one zero group, RFC 4291 2.2 form 2) is refused as AAAA data", s),
				map[string]any{"type": typ, "data": string(s), "data_hex": Hex(s)})
		}
	}
	// HALT/FAULT of addRecord(CNAME, s): the reference the name entry points
	// are compared with (same scanner, nothing else can fault there).
	cnameHalt := map[string]bool{}
	cname := func(s []byte) bool {
		if h, ok := cnameHalt[string(s)]; ok {
			return h
		}
		o := n.call(5, s)
		st.OpHistogram["addRecord"]++
		st.Evaluations++
		cnameHalt[string(s)] = o.halt
		return o.halt
	}
	hf := map[bool]string{true: "HALTs", false: "FAULTs"}
	evalOne := func(typ int64, s []byte, withSet bool) c18Obs {
		o := n.call(typ, s)
		st.OpHistogram[entryName(typ)]++
		st.Evaluations++
		if typ == 5 {
			cnameHalt[string(s)] = o.halt
		}
		if typ > 0 && withSet {
			o2 := n.setRecord(typ, s)
			st.OpHistogram["setRecord"]++
			st.Evaluations++
			if o2.halt != o.halt {
				st.AddViolation(fmt.Sprintf("addRecord %s and setRecord %s for type %d data %q", hf[o.halt], hf[o2.halt], typ, s), map[string]any{"type": typ, "data_hex": Hex(s)})
			}
		}
		if typ <= 0 && o.sound {
			if c := cname(s); c != o.halt {
				st.AddViolation(fmt.Sprintf("%s %s for the name %q (%d bytes; its TLD/parent is registered, so only the name check can fault) while addRecord(CNAME) with the same string as data %s",
					entryName(typ), hf[o.halt], s, len(s), hf[c]), map[string]any{"entry": entryName(typ), "name_hex": Hex(s)})
			}
		}
		note(typ, s, o)
		return o
	}

	// ---- 1. corpus + mutations + random strings ----
	var listed []c18Case
	for _, s := range []string{"+1.2.3.4", "1.+2.3.4", "+1.+2.+3.+4"} { // F10 (repaired by 0620db8)
		listed = append(listed, c18Case{1, s})
	}
	for _, s := range []string{"2001:800::1", "2001:8000::1", "2001:db9::1", // F11 (repaired by 131c44b)
		"2003:1:2:3:4:5:6::", "3fff:ffff:ffff:ffff:ffff:ffff:ffff::", "2001:200:2:3:4:5:6::", "2001:db8:2:3:4:5:6::", "2001:1ff:2:3:4:5:6::", // F12 (repaired by 7bd3a2c)
		"::1:2:3:4:5:6:7", "::2003:1:2:3:4:5:6", "::1:2:3:4:5:6:7:8", "1:2:3:4:5:6:7:8::", "2003:1:2:3:4:5:6:::", "2003:1:2:3:4:5::7::", "2003::2:3:4:5:6:7::",
		"::2003:1:2:3:4:5::", "2003:1:2:3:4:5:6::8", "2003:1:2:3::5:6:7:8", ":2003:1:2:3:4:5:6::", "2003:1:2:3:4:5:6:: "} {
		listed = append(listed, c18Case{28, s})
	}
	for _, s := range c18IPv4Mutations() {
		listed = append(listed, c18Case{1, s})
	}
	for _, s := range c18IPv6Mutations() {
		listed = append(listed, c18Case{28, s})
	}
	names := c18NameMutations()
	// total length around 255 below the registered 195-byte domain: the only
	// place where register can meet the upper bound with all parents present
	for k := 50; k <= 64; k++ {
		names = append(names, strings.Repeat("c", k)+"."+n.chain3)
	}
	names = append(names, "c."+strings.Repeat("b", 59)+"."+n.chain3, "-."+n.chain3, "c-."+n.chain3, "C."+n.chain3, "."+n.chain3, "c..com", "c.add.com", "c.d.add.com", "add.com", "com")
	for _, s := range names {
		listed = append(listed, c18Case{5, s}, c18Case{c18IsAvailable, s}, c18Case{c18Register, s}, c18Case{c18RegisterTLD, s})
	}
	for _, s := range c18TXTMutations() {
		listed = append(listed, c18Case{16, s})
	}
	// cross-type: every value of every type's corpus under every OTHER supported
	// type (the type passed decides the grammar, not the look of the data), and
	// a selection under numeric types outside the supported set
	soaLike := []string{"ns.example.com hostmaster.example.com 1 3600 600 86400 3600", "add.com a@b.c 1 2 3 4 5", "a@b.c", "0 1 2 3 4",
		"ns1.com. admin.com. 2024010101 7200 3600 1209600 3600", "1 2 3 4", "com", "add.com"}
	corpus := map[int64][]string{1: c18IPv4Mutations(), 28: c18IPv6Mutations(), 5: names, 16: c18TXTMutations(), 6: soaLike}
	corpus[1] = append(corpus[1], "8.8.4.4", "1.2.3.4", "223.255.255.254", "+1.2.3.4")
	corpus[28] = append(corpus[28], "2003::2", "2a00:1450:4001:81b::200e", "2001:8000::1", "2003:1:2:3:4:5:6::", "fe80::1", "2001:db8::1")
	supported := []int64{1, 5, 16, 28}
	for _, own := range []int64{1, 28, 5, 16, 6} {
		for _, s := range corpus[own] {
			for _, typ := range supported {
				if typ != own {
					listed = append(listed, c18Case{typ, s})
				}
			}
		}
	}
	unsupported := []int64{2, 3, 4, 6, 7, 12, 15, 17, 27, 29, 33, 99, 127, 128, 255, 256, 257, 65535, 65536, 1 << 40}
	for _, typ := range unsupported {
		for _, s := range []string{"x", "", "1.2.3.4", "8.8.4.4", "a.com", "2003::1", "2003:1:2:3:4:5:6::", "text", soaLike[0], strings.Repeat("x", 255), strings.Repeat("x", 256)} {
			listed = append(listed, c18Case{typ, s})
		}
	}
	nMut := len(listed)
	nRand := 2500
	if thorough {
		nRand = 25000
	}
	crossRng := Rng(1818)
	for _, c := range c18Random(Rng(18), nRand) {
		listed = append(listed, c)
		if other := supported[crossRng.Intn(len(supported))]; other != c.typ {
			listed = append(listed, c18Case{other, c.s})
		}
		if c.typ == 0 && strings.Count(c.s, ".") == 0 {
			listed = append(listed, c18Case{c18RegisterTLD, c.s}, c18Case{c18Register, c.s + ".com"}, c18Case{c18IsAvailable, c.s + ".com"})
		}
	}

	type c18Seen struct {
		typ int64
		s   []byte
		o   c18Obs
	}
	var observed []c18Seen
	seen := map[string]bool{}
	for i, c := range listed {
		k := strconv.FormatInt(c.typ, 10) + "/" + c.s
		if seen[k] {
			continue
		}
		seen[k] = true
		observed = append(observed, c18Seen{c.typ, []byte(c.s), evalOne(c.typ, []byte(c.s), i < nMut)})
	}
	st.Histories = len(seen)
	// record types 0 and below are the Coq codes of the name entry points, so
	// they are judged here: no data is well-formed for an unsupported type
	for _, typ := range []int64{0, -1, -2, -28, -(1 << 40)} {
		for _, d := range []string{"x", "", "8.8.4.4", "2003::2", "a.com", "text"} {
			b := n.setRecord(typ, []byte(d))
			a := c18Obs{halt: n.try(n.owner.ScriptHash(), "addRecord", "add.com", typ, []byte(d)) == ""}
			st.OpHistogram["addRecord"]++
			st.OpHistogram["setRecord"]++
			st.Evaluations += 2
			st.OutcomeHistogram["other-type/"+map[bool]string{true: "HALT", false: "FAULT"}[a.halt]]++
			if a.halt || b.halt {
				st.AddViolation(fmt.Sprintf("record type %d is not supported, yet addRecord %s and setRecord %s for data %q", typ, hf[a.halt], hf[b.halt], d),
					map[string]any{"type": typ, "data": d})
			}
		}
	}

	// ---- 2. exhaustive families, enumerated on both sides ----
	nameAlpha := []string{"a", "z", "0", "9", "-", ".", "A", "_", "+", " "}
	labelAlpha := []string{"a", "z", "0", "9", "-", "A", "_", "+", " "} // no dot
	nameLen := 4
	v4tok := []string{"", "0", "1", "255", "256", "01"}
	v6tok := []string{"", "2003", "1"}
	if thorough {
		nameLen = 5
		v4tok = []string{"", "0", "1", "255", "256", "01", "+1", "9"}
	}
	fams := []c18Family{
		{name: "names_cname", typ: 5, sep: -1, tokens: nameAlpha, n: nameLen},
		{name: "isAvailable_single_label", typ: c18IsAvailable, sep: -1, tokens: labelAlpha, n: nameLen},
		{name: "isAvailable_under_com", typ: c18IsAvailable, sep: -1, tokens: nameAlpha, n: nameLen - 1, suffix: ".com"},
		{name: "register_under_com", typ: c18Register, sep: -1, tokens: labelAlpha, n: nameLen - 1, suffix: ".com"},
		{name: "registerTLD_single_label", typ: c18RegisterTLD, sep: -1, tokens: labelAlpha, n: nameLen},
		{name: "ipv4_tokens", typ: 1, sep: '.', tokens: v4tok, n: 5},
		{name: "ipv6_tokens", typ: 28, sep: ':', tokens: v6tok, n: 9},
		{name: "isAvailable_any", typ: c18IsAvailable, sep: -1, tokens: nameAlpha, n: nameLen, refine: true},
	}
	if thorough {
		fams = append(fams, c18Family{name: "ipv6_tokens4", typ: 28, sep: ':', tokens: []string{"", "2003", "1", "0"}, n: 8})
	}
	type c18FamObs struct {
		cnt                      int
		accHalt, accClass, fltIn [][]byte
	}
	famObs := make([]c18FamObs, len(fams))
	for fi, f := range fams {
		fo := &famObs[fi]
		f.enumerate(func(s []byte) {
			fo.cnt++
			o := evalOne(f.typ, s, false)
			if !f.refine {
				require.True(t, o.sound, "family %s: %q is outside the prepared state", f.name, s)
			}
			if o.halt {
				fo.accHalt = append(fo.accHalt, bytes.Clone(s))
			}
			switch o.class {
			case 'T':
				fo.accClass = append(fo.accClass, bytes.Clone(s))
			case 'X':
				fo.fltIn = append(fo.fltIn, bytes.Clone(s))
			}
		})
	}

	// ---- the fault texts decide how fine the comparison is ----
	recognised := len(n.unknown) == 0
	code := func(o c18Obs) byte { // 0 = not comparable
		switch {
		case recognised:
			return o.class
		case o.halt:
			return 'T'
		case o.sound:
			return 'R'
		}
		return 0
	}
	groups := map[string][][]byte{} // "typ/outcome" -> strings
	dropped := 0
	for _, c := range observed {
		o := code(c.o)
		if o == 0 {
			dropped++
			continue
		}
		gk := strconv.FormatInt(c.typ, 10) + "/" + string(o)
		groups[gk] = append(groups[gk], c.s)
	}
	gkeys := make([]string, 0, len(groups))
	for k := range groups {
		gkeys = append(gkeys, k)
	}
	sort.Strings(gkeys)
	// several files when the packed strings exceed ~450 kB
	fileNo := 0
	flush := func(w *c18Rows, gl []string) {
		name := "cases_C18.v"
		if fileNo > 0 {
			name = fmt.Sprintf("cases_C18_l%d.v", fileNo)
		}
		fileNo++
		body := c18Header + w.sb.String() +
			"Definition groups : list group := [\n" + strings.Join(gl, ";\n") + "\n].\n" +
			"Definition M := Eval vm_compute in flat_map group_model groups.\nPrint M.\n" +
			"Definition MG := Eval vm_compute in flat_map group_grammar groups.\nPrint MG.\n"
		require.NoError(t, os.WriteFile(filepath.Join(out, name), []byte(body), 0o644))
	}
	w := &c18Rows{}
	var gl []string
	for _, gk := range gkeys {
		parts := strings.SplitN(gk, "/", 2)
		ss := groups[gk]
		for len(ss) > 0 {
			room := 450000 - w.sb.Len()
			take := 0
			for sz := 0; take < len(ss) && sz < room; take++ {
				sz += 3*len(ss[take]) + 4
			}
			gl = append(gl, fmt.Sprintf("(%s%%Z, %s, %s)", c18ParenNeg(parts[0]), c18ObsLit(parts[1][0]), w.rows(ss[:take])))
			ss = ss[take:]
			if w.sb.Len() >= 450000 {
				flush(w, gl)
				w, gl = &c18Rows{}, nil
			}
		}
	}
	if len(gl) > 0 || fileNo == 0 {
		flush(w, gl)
	}
	famSizes := map[string]int{}
	for fi, f := range fams {
		fo := famObs[fi]
		famSizes[f.name] = fo.cnt
		if f.refine && !recognised {
			continue
		}
		acc := fo.accHalt
		if f.refine {
			acc = fo.accClass
		}
		w := &c18Rows{}
		accR := w.rows(acc)
		fltR := "[]"
		if recognised {
			fltR = w.rows(fo.fltIn)
		}
		body := c18Header + w.sb.String() +
			"Definition fam : family := " + f.coq(accR, fltR) + ".\n" +
			fmt.Sprintf("Definition size_ok := Eval vm_compute in (family_size fam =? %d)%%Z.\n", fo.cnt) +
			"Definition M := Eval vm_compute in (if size_ok then [] else [(0%Z, [], false)]) ++ family_model fam.\nPrint M.\n"
		if recognised {
			body += "Definition MX := Eval vm_compute in family_model_faults fam.\nPrint MX.\n"
		}
		body += "Definition MG := Eval vm_compute in family_grammar fam.\nPrint MG.\n"
		require.NoError(t, os.WriteFile(filepath.Join(out, fmt.Sprintf("cases_C18_f%d_%s.v", fi, f.name)), []byte(body), 0o644))
	}

	// ---- 3. a rejected invocation changes nothing (persisted transactions) ----
	inert := 0
	for _, c := range []struct {
		method string
		args   []any
	}{
		{"addRecord", []any{"add.com", int64(1), "+1.2.3.4"}},
		{"addRecord", []any{"add.com", int64(1), "1.2.3.256"}},
		{"addRecord", []any{"add.com", int64(1), "1.2.3.4x"}},
		{"addRecord", []any{"add.com", int64(1), "10.0.0.1"}},
		{"addRecord", []any{"add.com", int64(28), "::1:2:3:4:5:6:7"}},
		{"addRecord", []any{"add.com", int64(28), "2003:1:2:3::5:6:7:8"}},
		{"addRecord", []any{"add.com", int64(28), "2003:g::1"}},
		{"addRecord", []any{"add.com", int64(28), "2001:db8::1"}},
		{"addRecord", []any{"add.com", int64(16), strings.Repeat("x", 256)}},
		{"addRecord", []any{"add.com", int64(5), "A.com"}},
		{"addRecord", []any{"add.com", int64(5), []byte("\xffa.com")}},
		{"addRecord", []any{"add.com", int64(6), "x"}},
		{"setRecord", []any{"set.com", int64(1), int64(0), "01.2.3.4"}},
		{"setRecord", []any{"set.com", int64(28), int64(0), "2003:::1"}},
		{"setRecord", []any{"set.com", int64(16), int64(0), strings.Repeat("x", 256)}},
		{"setRecord", []any{"set.com", int64(5), int64(0), "a.com."}},
		{"register", []any{"A.com", n.owner.ScriptHash(), "a@b.c", int64(1), int64(2), int64(3000000), int64(4)}},
		{"register", []any{"a-.com", n.owner.ScriptHash(), "a@b.c", int64(1), int64(2), int64(3000000), int64(4)}},
		{"register", []any{"ab", n.owner.ScriptHash(), "a@b.c", int64(1), int64(2), int64(3000000), int64(4)}},
		{"registerTLD", []any{"1om", "a@b.c", int64(1), int64(2), int64(3000000), int64(4)}},
		{"registerTLD", []any{strings.Repeat("c", 17), "a@b.c", int64(1), int64(2), int64(3000000), int64(4)}},
	} {
		before := n.StorageDump(n.nns)
		signer := []neotest.Signer{n.owner}
		if c.method == "registerTLD" {
			signer = []neotest.Signer{n.E.Committee}
		}
		r := n.Invoke(signer, n.nns, c.method, c.args...)
		after := n.StorageDump(n.nns)
		st.OpHistogram[c.method+"(persisted)"]++
		st.Evaluations++
		if r.Halt || len(r.Events) != 0 || !c18SameDump(before, after) {
			st.AddViolation(fmt.Sprintf("%s%v: halt=%v, storage changed=%v", c.method, c.args, r.Halt, !c18SameDump(before, after)), map[string]any{"method": c.method, "args": fmt.Sprint(c.args)})
		}
		inert++
	}
	// and accepted data is stored (non-vacuity of the observation)
	for _, c := range []struct {
		typ  int64
		data string
	}{{1, "223.255.255.254"}, {28, "2001:8000::1"}, {28, "2003:1:2:3:4:5:6::"}, {16, strings.Repeat("x", 255)}, {5, "a-b.c0"}} {
		before := n.StorageDump(n.nns)
		r := n.Invoke([]neotest.Signer{n.owner}, n.nns, "addRecord", "add.com", c.typ, c.data)
		after := n.StorageDump(n.nns)
		st.OpHistogram["addRecord(persisted)"]++
		st.Evaluations++
		if !r.Halt || c18SameDump(before, after) {
			st.AddViolation(fmt.Sprintf("addRecord(%d, %q) was not stored: %s", c.typ, c.data, r.Fault), map[string]any{"type": c.typ, "data": c.data})
		}
	}

	st.DistinctNontrivial = len(nontrivial)
	st.Rule = "one case = one (entry point, string) pair shown to the compiled NNS contract in a prepared state; the compared observation is HALT/FAULT where nothing but the syntactic check can fault: " +
		"record data through addRecord on a domain without records (mutation corpus also through setRecord of id 0 on a domain with one record per type), names as CNAME data, through isAvailable (no dot, or under a registered TLD), " +
		"register (parent = registered TLD or own domain, incl. a 195-byte chain to reach the 255-byte bound) and registerTLD (no dot, not registered); while all fault texts are recognised, FAULT is refined into reject / fault-inside-the-check and the name entry points are compared on all strings; " +
		"distinct_nontrivial counts the distinct pairs that pass the scanner's first length gate (names 3..255 bytes, A 7..15, AAAA 2..39, TXT and other types always), i.e. reach the character-level logic; " +
		fmt.Sprintf("families enumerated exhaustively on both sides: %v; listed: %d corpus/mutation pairs + seeded random strings (%d draws, seed-derived PRNG)", famSizes, nMut, 3*nRand)
	st.Extra["distinct_pairs"] = len(distinct)
	st.Extra["families"] = famSizes
	st.Extra["messages_recognised"] = recognised
	st.Extra["unrecognised_messages"] = n.unknown
	st.Extra["listed_pairs_not_comparable_without_messages"] = dropped
	st.Extra["refined_outcomes"] = classes
	st.Extra["fault_messages_inside_check"] = n.faults
	st.Extra["inert_rejections_checked_on_persisted_transactions"] = inert
	st.Samples = []any{
		map[string]any{"call": "addRecord(add.com, AAAA, \"2003:1:2:3:4:5:6::\")", "observed": "HALT, record stored (F12 repaired)"},
		map[string]any{"call": "addRecord(add.com, A, \"+1.2.3.4\")", "observed": "FAULT (F10 repaired)"},
		map[string]any{"call": "register(\"c\"*60 + \".\" + a63.a63.a63.com) (256 bytes, parent registered)", "observed": "FAULT"},
	}
	st.Write()
}

func c18ParenNeg(s string) string {
	if strings.HasPrefix(s, "-") {
		return "(" + s + ")"
	}
	return s
}

func c18SameDump(a, b map[string]string) bool {
	if len(a) != len(b) {
		return false
	}
	for k, v := range a {
		if w, ok := b[k]; !ok || w != v {
			return false
		}
	}
	return true
}
