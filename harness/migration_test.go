package harness

import (
	"bytes"
	"encoding/json"
	"fmt"
	"go/ast"
	"go/format"
	"go/parser"
	"go/token"
	"math/big"
	"math/rand"
	"os"
	"os/exec"
	"path/filepath"
	"sort"
	"strings"
	"testing"

	"github.com/nspcc-dev/neo-go/pkg/core/native/nativenames"
	"github.com/nspcc-dev/neo-go/pkg/core/native/noderoles"
	"github.com/nspcc-dev/neo-go/pkg/core/state"
	"github.com/nspcc-dev/neo-go/pkg/core/transaction"
	"github.com/nspcc-dev/neo-go/pkg/crypto/hash"
	"github.com/nspcc-dev/neo-go/pkg/crypto/keys"
	"github.com/nspcc-dev/neo-go/pkg/neotest"
	"github.com/nspcc-dev/neo-go/pkg/neotest/chain"
	"github.com/nspcc-dev/neo-go/pkg/smartcontract"
	"github.com/nspcc-dev/neo-go/pkg/util"
	"github.com/nspcc-dev/neo-go/pkg/vm/stackitem"
	"github.com/nspcc-dev/neo-go/pkg/vm/vmstate"
	"github.com/nspcc-dev/neo-go/pkg/wallet"
	"github.com/nspcc-dev/neofs-contract/common"
	"github.com/stretchr/testify/require"
)

// ---------------------------------------------------------------------------
// C16: upgrade is committee-gated, version-monotonic, data-preserving.
//
// Part A (gate): every real contract is compiled from a scratch copy of the
// tree whose only difference is the value of common.Version (= the "deployed
// version" v), deployed on a six-member-committee chain, and then updated to
// the contract compiled from the tree itself, under every signer set.
// Part B (data): an injector stub deployed under the target's manifest name
// is filled with a synthetic legacy storage and updated to the tree's
// contract with data = [..., v]; the new code's _deploy(data, true) runs the
// real migration on that storage.
// Part C (Alphabet GAS distribution): the Alphabet stub, funded with GAS and
// pointed at a stand-in Netmap contract (testdata/c16netmap), is updated from
// 0.16 with the notary flag set; the GAS transfers are read from the
// notifications.
// All parts record (storage before, halt/fault, storage after, version() or
// the transfer list) and are replayed by Model/Migration.v inside Coq
// (cases_C16.v, or cases_C16_<k>.v when the run is large).

type c16Contract struct {
	Name string // directory under contracts/
	Coq  string // constructor of Model.Migration.contract
}

var c16Contracts = []c16Contract{
	{"alphabet", "CAlphabet"}, {"audit", "CAudit"}, {"balance", "CBalance"},
	{"container", "CContainer"}, {"neofs", "CNeoFS"}, {"neofsid", "CNeoFSID"},
	{"netmap", "CNetmap"}, {"nns", "CNNS"}, {"processing", "CProcessing"},
	{"proxy", "CProxy"}, {"reputation", "CReputation"},
}

// committeeWIFs of neotest/chain (public test constants), needed to build
// multisignature accounts of the committee keys with other thresholds.
var c16CommitteeWIFs = []string{
	"KzfPUYDC9n2yf4fK5ro4C8KMcdeXtFuEnStycbZgX3GomiUsvX6W",
	"KzgWE3u3EDp13XPXXuTKZxeJ3Gi8Bsm8f9ijY3ZsCKKRvZUo1Cdn",
	"KxyjQ8eUa4FHt3Gvioyt1Wz29cTUrE4eTqX3yFSk1YFCsPL8uNsY",
	"L2oEXKRAAMiPEZukwR5ho2S6SMeQLhcK9mF71ZnF7GvT8dU4Kkgz",
	"L1Tr1iq5oz1jaFaMXP21sHDkJYDDkuLtpvQ4wRf1cjKvJYvnvpAb",
	"Kz6XTUrExy78q8f4MjDHnwz8fYYyUE8iPXwPRAkHa3qN2JcHYm7e",
}

// c16Scratch copies go.mod, go.sum, common/ and contracts/ of the tree into a
// fresh directory and replaces the value of the constant common.Version by v.
// The constant is found by NAME with go/ast in whichever file of package
// common declares it; whatever expression defined it is replaced by the
// literal (so the shape of the declaration does not matter).  An error means
// "this tree cannot be patched" and is reported, not fatal.
func c16Scratch(t testing.TB, v int64) (string, error) {
	dst := t.TempDir()
	for _, p := range []string{"go.mod", "go.sum", "common", "contracts"} {
		out, err := exec.Command("cp", "-r", filepath.Join(RepoDir, p), filepath.Join(dst, p)).CombinedOutput()
		if err != nil {
			return "", fmt.Errorf("copy %s: %v: %s", p, err, out)
		}
	}
	files, err := filepath.Glob(filepath.Join(dst, "common", "*.go"))
	if err != nil {
		return "", err
	}
	patched := 0
	for _, f := range files {
		if strings.HasSuffix(f, "_test.go") {
			continue
		}
		fset := token.NewFileSet()
		af, err := parser.ParseFile(fset, f, nil, parser.ParseComments)
		if err != nil {
			return "", fmt.Errorf("parse %s: %v", filepath.Base(f), err)
		}
		changed := false
		for _, d := range af.Decls {
			gd, ok := d.(*ast.GenDecl)
			if !ok || gd.Tok != token.CONST {
				continue
			}
			for _, sp := range gd.Specs {
				vs := sp.(*ast.ValueSpec)
				for i, n := range vs.Names {
					if n.Name != "Version" {
						continue
					}
					if i >= len(vs.Values) {
						return "", fmt.Errorf("const Version in %s has no value expression of its own", filepath.Base(f))
					}
					var lit ast.Expr = &ast.BasicLit{Kind: token.INT, Value: fmt.Sprint(abs64(v))}
					if v < 0 {
						lit = &ast.UnaryExpr{Op: token.SUB, X: lit}
					}
					vs.Values[i] = lit
					changed = true
					patched++
				}
			}
		}
		if changed {
			var buf bytes.Buffer
			if err := format.Node(&buf, fset, af); err != nil {
				return "", fmt.Errorf("print %s: %v", filepath.Base(f), err)
			}
			if err := os.WriteFile(f, buf.Bytes(), 0o644); err != nil {
				return "", err
			}
		}
	}
	if patched != 1 {
		return "", fmt.Errorf("expected exactly one const Version in package common, found %d", patched)
	}
	return dst, nil
}

func abs64(v int64) int64 {
	if v < 0 {
		return -v
	}
	return v
}

// c16Compile compiles contracts/<name> under root for the given deployer.
func c16Compile(t testing.TB, sender util.Uint160, root, name string) *neotest.Contract {
	p := filepath.Join(root, "contracts", name)
	c := neotest.CompileFile(t, sender, p, filepath.Join(p, "config.yml"))
	cc := *c // the cache ignores the sender
	cc.Hash = state.CreateContractHash(sender, c.NEF.Checksum, c.Manifest.Name)
	return &cc
}

func c16NefManifest(t testing.TB, c *neotest.Contract) ([]byte, []byte) {
	nb, err := c.NEF.Bytes()
	require.NoError(t, err)
	mb, err := json.Marshal(c.Manifest)
	require.NoError(t, err)
	return nb, mb
}

func c16MultisigAddr(t testing.TB, m int, pubs keys.PublicKeys) []byte {
	script, err := smartcontract.CreateMultiSigRedeemScript(m, pubs.Copy())
	require.NoError(t, err)
	return hash.Hash160(script).BytesBE()
}

func c16MultiSigner(t testing.TB, m int, accs []*wallet.Account) neotest.Signer {
	pubs := make(keys.PublicKeys, len(accs))
	for i := range accs {
		pubs[i] = accs[i].PublicKey()
	}
	ms := make([]*wallet.Account, len(accs))
	for i := range accs {
		ms[i] = wallet.NewAccountFromPrivateKey(accs[i].PrivateKey())
		require.NoError(t, ms[i].ConvertMultisig(m, pubs.Copy()))
	}
	return neotest.NewMultiSigner(ms...)
}

// ---------------------------------------------------------------------------
// Coq literals of this family

type c16Item struct { // a stack item passed as `data`
	Null  bool      `json:"null,omitempty"`
	Int   *big.Int  `json:"int,omitempty"`
	Bytes []byte    `json:"bytes,omitempty"`
	Bool  *bool     `json:"bool,omitempty"`
	List  []c16Item `json:"list,omitempty"`
	IsArr bool      `json:"arr,omitempty"`
}

func c16Arr(xs ...c16Item) c16Item { return c16Item{IsArr: true, List: xs} }
func c16Int(i int64) c16Item       { return c16Item{Int: big.NewInt(i)} }
func c16Bytes(b []byte) c16Item {
	if b == nil {
		b = []byte{}
	}
	return c16Item{Bytes: b}
}
func c16Bool(b bool) c16Item { return c16Item{Bool: &b} }

var c16Null = c16Item{Null: true}

func (x c16Item) arg() any {
	switch {
	case x.Null:
		return nil
	case x.Int != nil:
		return x.Int
	case x.Bool != nil:
		return *x.Bool
	case x.IsArr:
		out := make([]any, len(x.List))
		for i := range x.List {
			out[i] = x.List[i].arg()
		}
		return out
	default:
		return x.Bytes
	}
}

func (x c16Item) coq(p *Pool) string {
	switch {
	case x.Null:
		return "INull"
	case x.Int != nil:
		return "IInt " + ZLit(x.Int)
	case x.Bool != nil:
		return "IBool " + BoolLit(*x.Bool)
	case x.IsArr:
		var xs []string
		for _, y := range x.List {
			xs = append(xs, y.coq(p))
		}
		return "IArray " + ListLit(paren(xs))
	default:
		return "IBytes " + p.Ref(x.Bytes)
	}
}

type c16KV struct{ K, V []byte }

func c16Dump(m map[string]string) []c16KV {
	ks := make([]string, 0, len(m))
	for k := range m {
		ks = append(ks, k)
	}
	sort.Strings(ks) // Go string order = byte order = storage.Find order
	out := make([]c16KV, len(ks))
	for i, k := range ks {
		out[i] = c16KV{[]byte(k), []byte(m[k])}
	}
	return out
}

func c16DumpEq(a, b []c16KV) bool {
	if len(a) != len(b) {
		return false
	}
	for i := range a {
		if !bytes.Equal(a[i].K, b[i].K) || !bytes.Equal(a[i].V, b[i].V) {
			return false
		}
	}
	return true
}

// c16Writer accumulates the cases file: byte strings and whole dumps are
// interned.
type c16Writer struct {
	pool  *Pool
	dumps map[string]string
	dord  []string
	lists map[string]string
	lord  []string
	cases []string
	// runs against a NEW code whose Version constant was bumped: (Version, case)
	bcases []string
}

func newC16Writer() *c16Writer {
	return &c16Writer{pool: NewPool("b"), dumps: map[string]string{}, lists: map[string]string{}}
}

func (w *c16Writer) dump(d []c16KV) string {
	if len(d) == 0 {
		return "[]"
	}
	var xs []string
	for _, kv := range d {
		xs = append(xs, fmt.Sprintf("(%s,%s)", w.pool.Ref(kv.K), w.pool.Ref(kv.V)))
	}
	lit := "[" + strings.Join(xs, ";") + "]"
	if n, ok := w.dumps[lit]; ok {
		return n
	}
	n := fmt.Sprintf("d%d", len(w.dord))
	w.dumps[lit] = n
	w.dord = append(w.dord, lit)
	return n
}

func (w *c16Writer) keyList(ks [][]byte) string {
	if len(ks) == 0 {
		return "[]"
	}
	var xs []string
	for _, k := range ks {
		xs = append(xs, w.pool.Ref(k))
	}
	lit := "[" + strings.Join(xs, ";") + "]"
	if n, ok := w.lists[lit]; ok {
		return n
	}
	n := fmt.Sprintf("l%d", len(w.lord))
	w.lists[lit] = n
	w.lord = append(w.lord, lit)
	return n
}

func (w *c16Writer) defs() string {
	var sb strings.Builder
	sb.WriteString(w.pool.Defs())
	for i, lit := range w.lord {
		fmt.Fprintf(&sb, "Definition l%d : list bytes := %s.\n", i, lit)
	}
	for i, lit := range w.dord {
		fmt.Fprintf(&sb, "Definition d%d : kvs := %s.\n", i, lit)
	}
	return sb.String()
}

// ---------------------------------------------------------------------------
// Part A: the gate on the real contracts

type gateChain struct {
	*Env
	v          int64
	committee  []*wallet.Account
	alphabet   []*wallet.Account // designated NeoFSAlphabet keys (may be empty)
	signers    map[string]neotest.Signer
	hashes     map[string]util.Uint160
	comKeys    [][]byte // neo.GetCommittee() as the contracts see it
	desEvents  []c16Des // every NeoFSAlphabet designation made on this chain
	deployWith []neotest.Signer
}

var c16SignerSets = []string{"none", "stranger", "member", "committee3of6", "committee5of6", "alphabet5of7", "alphabet4of7", "committee4of6", "committee4of6+stranger"}

func (g *gateChain) signerList(set string) []neotest.Signer {
	out := []neotest.Signer{g.E.Validator} // pays the fees; never a gate address
	for _, n := range strings.Split(set, "+") {
		if n == "none" {
			continue
		}
		s, ok := g.signers[n]
		if !ok {
			return nil
		}
		out = append(out, s)
	}
	return out
}

func (g *gateChain) invokeBy(signers []neotest.Signer, h util.Uint160, method string, args ...any) Result {
	return g.Invoke(signers, h, method, args...)
}

func (g *gateChain) mustHalt(r Result, what string) {
	require.True(g.T, r.Halt, "%s: %s", what, r.Fault)
}

func (g *gateChain) deploy(c *neotest.Contract, data any) {
	nb, mb := c16NefManifest(g.T, c)
	r := g.invokeBy(g.deployWith, g.BC.ManagementContractHash(), "deploy", nb, mb, data)
	g.mustHalt(r, "deploy "+c.Manifest.Name)
	require.NotNil(g.T, g.BC.GetContractState(c.Hash), c.Manifest.Name)
}

func pubBytes(accs []*wallet.Account) []any {
	out := make([]any, len(accs))
	for i := range accs {
		out[i] = accs[i].PublicKey().Bytes()
	}
	return out
}

func newGateChain(t testing.TB, v int64, root string, withAlphabet bool) *gateChain {
	bc, val, com := chain.NewMulti(t)
	e := neotest.NewExecutor(t, bc, val, com)
	g := &gateChain{Env: &Env{T: t, E: e, BC: bc}, v: v, signers: map[string]neotest.Signer{}, hashes: map[string]util.Uint160{}}
	for _, w := range c16CommitteeWIFs {
		a, err := wallet.NewAccountFromWIF(w)
		require.NoError(t, err)
		g.committee = append(g.committee, a)
	}
	g.signers["committee4of6"] = c16MultiSigner(t, 4, g.committee)
	require.Equal(t, e.CommitteeHash, g.signers["committee4of6"].ScriptHash())
	g.signers["committee5of6"] = c16MultiSigner(t, 5, g.committee)
	g.signers["committee3of6"] = c16MultiSigner(t, 3, g.committee)
	g.signers["member"] = neotest.NewSingleSigner(wallet.NewAccountFromPrivateKey(g.committee[0].PrivateKey()))
	r := Rng(7000 + v)
	g.signers["stranger"] = neotest.NewSingleSigner(c16Account(t, r))
	// contract deployment needs the committee (NNS) and the 2/3+1 Alphabet
	// multisignature (netmap.subscribeForNewEpoch)
	g.deployWith = []neotest.Signer{e.Validator, g.signers["committee4of6"], g.signers["committee5of6"]}
	if withAlphabet {
		for i := 0; i < 7; i++ {
			g.alphabet = append(g.alphabet, c16Account(t, r))
		}
		g.signers["alphabet4of7"] = c16MultiSigner(t, 4, g.alphabet)
		g.signers["alphabet5of7"] = c16MultiSigner(t, 5, g.alphabet)
		g.designate(g.alphabet)
	}

	sender := e.Validator.ScriptHash()
	cc := map[string]*neotest.Contract{}
	for _, c := range c16Contracts {
		cc[c.Name] = c16Compile(t, sender, root, c.Name)
		g.hashes[c.Name] = cc[c.Name].Hash
	}
	g.deploy(cc["nns"], []any{[]any{[]any{"neofs", "ops@nspcc.io"}, []any{"container", "ops@nspcc.io"}}})
	g.deploy(cc["netmap"], []any{false, util.Uint160{}, util.Uint160{}, []any{}, []any{[]byte("MaxObjectSize"), []byte{0, 4}}})
	cs := []neotest.Signer{e.Validator, e.Committee}
	g.mustHalt(g.invokeBy(cs, g.hashes["nns"], "register", "netmap.neofs", e.CommitteeHash, "ops@nspcc.ru", int64(3600), int64(600), int64(10*365*24*3600*1000), int64(3600)), "register")
	g.mustHalt(g.invokeBy(cs, g.hashes["nns"], "addRecord", "netmap.neofs", 16, g.hashes["netmap"].StringLE()), "addRecord")
	g.deploy(cc["proxy"], nil)
	g.deploy(cc["balance"], []any{false, g.hashes["netmap"], g.hashes["container"]})
	g.deploy(cc["neofsid"], []any{false})
	g.deploy(cc["container"], []any{int64(0), g.hashes["netmap"], g.hashes["balance"], g.hashes["neofsid"], g.hashes["nns"], ""})
	g.deploy(cc["audit"], []any{false})
	g.deploy(cc["reputation"], []any{false})
	g.deploy(cc["alphabet"], []any{false, g.hashes["netmap"], g.hashes["proxy"], "Az", int64(0), int64(1)})
	g.deploy(cc["neofs"], []any{false, g.hashes["processing"], pubBytes(g.committee[:3]), []any{}})
	g.deploy(cc["processing"], []any{g.hashes["neofs"]})

	// what the contracts will see
	neo, err := bc.GetNativeContractScriptHash(nativenames.Neo)
	require.NoError(t, err)
	it, err := g.Read(neo, "getCommittee")
	require.NoError(t, err)
	for _, x := range it.Value().([]stackitem.Item) {
		g.comKeys = append(g.comKeys, ItemBytes(x))
	}
	return g
}

// c16Des is one designation of the NeoFSAlphabet role: made by a transaction
// of block Eff-1, in force for transactions executing in blocks >= Eff.
type c16Des struct {
	Eff  int64
	Keys [][]byte // as getDesignatedByRole returns them
}

// inForce is the harness's own account of RoleManagement: the list that gates
// a transaction executing in the given block.
func (g *gateChain) inForce(block uint32) [][]byte {
	var out [][]byte
	best := int64(-1)
	for _, d := range g.desEvents {
		if d.Eff <= int64(block) && d.Eff >= best {
			best, out = d.Eff, d.Keys
		}
	}
	return out
}

func (g *gateChain) designate(accs []*wallet.Account) {
	rm, err := g.BC.GetNativeContractScriptHash(nativenames.Designation)
	require.NoError(g.T, err)
	res := g.invokeBy([]neotest.Signer{g.E.Validator, g.E.Committee}, rm, "designateAsRole", int64(noderoles.NeoFSAlphabet), pubBytes(accs))
	g.mustHalt(res, "designate")
	g.desEvents = append(g.desEvents, c16Des{Eff: int64(res.Height) + 1, Keys: g.designatedNow()})
}

func (g *gateChain) designatedNow() [][]byte {
	rm, err := g.BC.GetNativeContractScriptHash(nativenames.Designation)
	require.NoError(g.T, err)
	it, err := g.Read(rm, "getDesignatedByRole", int64(noderoles.NeoFSAlphabet), int64(g.BC.BlockHeight()+1))
	require.NoError(g.T, err)
	var out [][]byte
	for _, x := range it.Value().([]stackitem.Item) {
		out = append(out, ItemBytes(x))
	}
	return out
}

func c16Account(t testing.TB, r *rand.Rand) *wallet.Account {
	b := make([]byte, 32)
	for {
		r.Read(b)
		pk, err := keys.NewPrivateKeyFromBytes(b)
		if err == nil {
			return wallet.NewAccountFromPrivateKey(pk)
		}
	}
}

type gateCase struct {
	Contract string  `json:"contract"`
	V        int64   `json:"deployed_version"`
	Signers  string  `json:"signers"`
	Data     c16Item `json:"data"`
	NoNef    bool    `json:"no_nef_no_manifest,omitempty"`
	Halt     bool    `json:"halt"`
	Fault    string  `json:"fault,omitempty"`
	Version  int64   `json:"version_after"`
}

func shortFault(s string) string {
	for _, m := range []string{"only committee can update contract", "only side chain committee can update contract",
		"owner witness check failed", "not witnessed by committee", common.ErrVersionMismatch, common.ErrAlreadyUpdated,
		"pending vote detected", "both NEF and manifest are nil", "contract name can't be changed"} {
		if strings.Contains(s, m) {
			return m
		}
	}
	if len(s) > 60 {
		return s[len(s)-60:]
	}
	return s
}

// c16Run is the state of one TestC16 run.
type c16Run struct {
	t          testing.TB
	w          *c16Writer
	st         *Stats
	msTable    map[string]string // Coq rows of the multisig table
	msOrder    []string
	h160       map[string][]byte // RIPEMD-160 table (NNS)
	distinct   map[string]bool
	tree       map[string]*neotest.Contract
	pools      *c16Pools
	scratch    map[int64]string
	files      int
	acases     []string
	stdaccRows map[string]string
}

func (r *c16Run) msRow(m int, ks [][]byte, addr []byte) {
	row := fmt.Sprintf("(%d%%Z, %s, %s)", m, r.w.keyList(ks), r.w.pool.Ref(addr))
	if _, ok := r.msTable[row]; !ok {
		r.msTable[row] = row
		r.msOrder = append(r.msOrder, row)
	}
}

func keysOf(t testing.TB, raw [][]byte) keys.PublicKeys {
	out := make(keys.PublicKeys, len(raw))
	for i := range raw {
		k, err := keys.NewPublicKeyFromBytes(raw[i], nil)
		if err != nil {
			k, err = keys.NewPublicKeyFromString(Hex(raw[i]))
		}
		require.NoError(t, err)
		out[i] = k
	}
	return out
}

func (r *c16Run) envCoq(height uint32, com [][]byte, des []c16Des, wit [][]byte) string {
	var rows []string
	for _, d := range des {
		rows = append(rows, fmt.Sprintf("(%d%%Z, %s)", d.Eff, r.w.keyList(d.Keys)))
	}
	return fmt.Sprintf("env_basic %d%%Z %s %s %s", height, r.w.keyList(com), ListLit(rows), r.w.keyList(wit))
}

// gateSweep runs every contract x signer set on one chain whose contracts
// carry version v.
func (r *c16Run) gateSweep(v int64, withAlphabet bool, sets []string) {
	t := r.t
	r.roll(false)
	root := r.scratchAt(v)
	if root == "" {
		return
	}
	g := newGateChain(t, v, root, withAlphabet)
	sender := g.E.Validator.ScriptHash()
	des := g.inForce(g.BC.BlockHeight() + 1) // no designation happens during this sweep
	require.Equal(t, des, g.designatedNow())
	// multisig table: every (m, keys) the model may ask for
	n := len(g.comKeys)
	for _, m := range []int{n/2 + 1, n*2/3 + 1, n - (n-1)/2} {
		r.msRow(m, g.comKeys, c16MultisigAddr(t, m, keysOf(t, g.comKeys)))
	}
	if len(des) > 0 {
		r.msRow(len(des)/2+1, des, c16MultisigAddr(t, len(des)/2+1, keysOf(t, des)))
	}
	for _, c := range c16Contracts {
		h := g.hashes[c.Name]
		nw := r.tree[c.Name]
		if nw == nil {
			nw = c16Compile(t, sender, RepoDir, c.Name)
			r.tree[c.Name] = nw
		}
		nb, mb := c16NefManifest(t, nw)
		data := c16Null
		switch c.Name {
		case "alphabet":
			data = c16Arr(c16Bool(false), c16Bytes(g.hashes["netmap"].BytesBE()), c16Bytes(g.hashes["proxy"].BytesBE()), c16Bytes([]byte("Az")))
		case "container":
			data = c16Arr()
		case "audit":
			data = c16Arr(c16Int(7), c16Bytes([]byte("x")))
		}
		cur := v
		try := func(set string, data c16Item, noNef bool) {
			sg := g.signerList(set)
			if sg == nil {
				return
			}
			before := c16Dump(g.StorageDump(h))
			var res Result
			if noNef {
				res = g.invokeBy(sg, h, "update", nil, nil, data.arg())
			} else {
				res = g.invokeBy(sg, h, "update", nb, mb, data.arg())
			}
			after := c16Dump(g.StorageDump(h))
			ver := g.ReadInt(h, "version").Int64()
			gc := gateCase{Contract: c.Name, V: cur, Signers: set, Data: data, NoNef: noNef, Halt: res.Halt, Fault: shortFault(res.Fault), Version: ver}
			var wit [][]byte
			for _, s := range sg {
				wit = append(wit, s.ScriptHash().BytesBE())
			}
			// Go monitor of C16_gate on the observed run
			gateAddr := g.E.CommitteeHash.BytesBE()
			if c.Name == "neofs" || c.Name == "processing" {
				gateAddr = nil
				if len(des) > 0 {
					gateAddr = c16MultisigAddr(t, len(des)/2+1, keysOf(t, des))
				}
			}
			hasWit := false
			for _, x := range wit {
				if gateAddr != nil && bytes.Equal(x, gateAddr) {
					hasWit = true
				}
			}
			inRange := int64(common.PrevVersion) <= cur && cur < int64(common.Version)
			if res.Halt && !(hasWit && inRange) {
				r.st.AddViolation("C16_gate: update halted without the gate witness or outside [PrevVersion, Version)", gc)
			}
			if !res.Halt && (!c16DumpEq(before, after) || ver != cur) {
				r.st.AddViolation("C16_gate: faulted update changed the contract", gc)
			}
			if res.Halt && ver != int64(common.Version) {
				r.st.AddViolation("C16_gate: version() after a successful update is not Version", gc)
			}
			if hasWit && inRange && !noNef && !res.Halt {
				// not a violation of the property, but unexpected unless the
				// migration itself faults (netmap below 0.19 without the legacy hashes)
				if !(c.Name == "netmap" && cur < 19000) && !(c.Name == "nns" && cur < 18000) {
					r.st.AddViolation("C16 harness: authorised in-range update faulted: "+res.Fault, gc)
				}
			}
			r.w.cases = append(r.w.cases, fmt.Sprintf("mkCase (OUpdate %s %s (%s) %s (%s)) %s %s %s %s",
				c.Coq, ZI(cur), r.envCoq(res.Height-1, g.comKeys, g.desEvents, wit), BoolLit(!noNef), data.coq(r.w.pool),
				r.w.dump(before), BoolLit(res.Halt), r.w.dump(after), ZI(ver)))
			r.st.Evaluations++
			r.st.OpHistogram["update/"+c.Name]++
			oc := "halt"
			if !res.Halt {
				oc = "fault:" + gc.Fault
			}
			r.st.OutcomeHistogram["gate/"+oc]++
			r.distinct[fmt.Sprintf("gate|%s|%d|%s|%v|%s", c.Name, cur, set, noNef, oc)] = true
			if res.Halt {
				cur = ver
			}
			if len(r.st.Samples) < 2 && (res.Halt || set == "committee5of6") {
				r.st.Samples = append(r.st.Samples, gc)
			}
		}
		for _, set := range sets {
			pass := set == "committee4of6" || set == "committee4of6+stranger"
			if c.Name == "neofs" || c.Name == "processing" {
				pass = set == "alphabet4of7"
			}
			if pass {
				// the authorised signer with neither NEF nor manifest: Management refuses
				try(set, data, true)
			}
			try(set, data, false)
		}
		// once more with the authorised signer: now the running code is Version
		if c.Name == "neofs" || c.Name == "processing" {
			try("alphabet4of7", data, false)
		} else {
			try("committee4of6", data, false)
		}
	}
	r.st.Histories++
}

// roll starts a new cases file when the current one has grown large (the
// thorough tier produces several cases_C16_<k>.v, each printing its own M).
func (r *c16Run) roll(force bool) {
	size := 0
	for _, c := range r.w.cases {
		size += len(c)
	}
	for _, c := range r.w.bcases {
		size += len(c)
	}
	for _, b := range r.w.pool.order {
		size += 4*len(b) + 30
	}
	for _, d := range r.w.dord {
		size += len(d)
	}
	if !force && size < 380_000 {
		return
	}
	name := "cases_C16.v"
	if r.files > 0 || !force {
		name = fmt.Sprintf("cases_C16_%d.v", r.files+1)
	}
	r.writeCases(filepath.Join(OutDir(), name), r.acases, r.stdaccRows)
	r.files++
	r.w = newC16Writer()
	r.msTable, r.msOrder = map[string]string{}, nil
	r.acases, r.stdaccRows = nil, map[string]string{}
}

func (r *c16Run) writeCases(path string, acases []string, stdaccRows map[string]string) {
	var sb strings.Builder
	sb.WriteString("From Verif Require Import Base.Prelude Model.MigStore Model.Migration.\nLocal Open Scope Z_scope.\n")
	// table rows reference pool/list names: render them before the definitions are printed
	var h160rows []string
	hk := make([]string, 0, len(r.h160))
	for k := range r.h160 {
		hk = append(hk, k)
	}
	sort.Strings(hk)
	for _, k := range hk {
		h160rows = append(h160rows, fmt.Sprintf("(%s, %s)", r.w.pool.Ref([]byte(k)), r.w.pool.Ref(r.h160[k])))
	}
	sb.WriteString(r.w.defs())
	sb.WriteString("Definition ms_rows : list (Z * list bytes * bytes) := " + ListLit(r.msOrder) + ".\n")
	sb.WriteString("Definition h160_rows : list (bytes * bytes) := " + ListLit(h160rows) + ".\n")
	sb.WriteString("Definition cases : list mcase := [\n")
	sb.WriteString(strings.Join(r.w.cases, ";\n"))
	sb.WriteString("\n].\n")
	sb.WriteString("Definition bcases : list (Z * mcase) := " + ListLit(r.w.bcases) + ".\n")
	var srows []string
	for k, v := range stdaccRows {
		srows = append(srows, fmt.Sprintf("(%s, %s)", k, v))
	}
	sort.Strings(srows)
	sb.WriteString("Definition stdacc_rows : list (bytes * bytes) := " + ListLit(srows) + ".\n")
	sb.WriteString("Definition acases : list acase := " + ListLit(acases) + ".\n")
	fmt.Fprintf(&sb, "Example constants_of_the_tree : (real_prev, real_version) = (%d, %d).\nProof. reflexivity. Qed.\n", common.PrevVersion, common.Version)
	sb.WriteString("Definition M := Eval vm_compute in failures_from 0\n  (map (check_mig (ms_table ms_rows) (fun _ => None) (bytes_table h160_rows) real_prev real_version) cases ++\n   map (fun p => check_mig (ms_table ms_rows) (fun _ => None) (bytes_table h160_rows) real_prev (fst p) (snd p)) bcases ++\n   map (check_alpha (opt_table stdacc_rows) real_prev real_version) acases).\nPrint M.\n")
	require.NoError(r.t, os.WriteFile(path, []byte(sb.String()), 0o644))
}

func TestC16(t *testing.T) {
	// assertions inside a scenario abort the scenario (recorded), never the Go test
	tb := &c13TB{TB: t}
	defer func() {
		if x := recover(); x != nil { // outside any scenario (writing the cases file): a real failure
			t.Fatalf("TestC16: %v", x)
		}
	}()
	r := &c16Run{t: tb, w: newC16Writer(), st: NewStats("C16"), msTable: map[string]string{}, h160: map[string][]byte{},
		distinct: map[string]bool{}, tree: map[string]*neotest.Contract{}, stdaccRows: map[string]string{}}
	old, _ := filepath.Glob(filepath.Join(OutDir(), "cases_C16*.v"))
	for _, f := range old {
		_ = os.Remove(f)
	}
	prev, ver := int64(common.PrevVersion), int64(common.Version)
	if prev >= ver {
		r.st.AddViolation("C16_gate premise: PrevVersion < Version does not hold", map[string]any{"prev": prev, "version": ver})
	}
	versions := []int64{prev - 1, prev, prev + 1, 16999, 17000, ver - 1, ver, ver + 1, 0, -1}
	if Tier() == "thorough" {
		versions = append(versions, 15999, 16000, 17999, 18000, 18999, 19000, 1, 15000, 19500, 1000000)
	}
	for i, v := range versions {
		sets := c16SignerSets
		if Tier() != "thorough" && i%3 != 1 {
			sets = []string{"none", "stranger", "committee5of6", "alphabet5of7", "alphabet4of7", "committee4of6"}
		}
		v := v
		r.guard(fmt.Sprintf("gate sweep, deployed version %d", v), func() { r.gateSweep(v, true, sets) })
	}
	// a chain where nobody was designated as NeoFSAlphabet
	r.guard("gate sweep without a designated Alphabet", func() {
		v := prev
		if r.scratchAt(prev) == "" {
			v = ver // the unpatched tree still shows the gate (and ErrAlreadyUpdated)
		}
		r.gateSweep(v, false, []string{"stranger", "committee4of6"})
	})
	// corpus: the designation boundary (block N, N+1, N+2)
	for _, variant := range []string{"same-block", "next-block", "two-blocks-later"} {
		variant := variant
		r.guard("designation boundary, "+variant, func() { r.designationSweep(variant) })
	}
	r.pools = newC16Pools()
	r.partB()
	r.partC()
	r.partD()

	r.st.DistinctNontrivial = len(r.distinct)
	r.st.Rule = "distinct (part, contract, deployed version or storage shape signature, signer set / data shape, outcome incl. fault reason) tuples"
	r.roll(true)
	r.st.Extra["cases_files"] = r.files
	r.st.Extra["prev_version"], r.st.Extra["version"] = common.PrevVersion, common.Version
	r.st.Write()
}

// ---------------------------------------------------------------------------
// Part B: data preservation through the injector stub

func ser(t testing.TB, it stackitem.Item) []byte {
	b, err := stackitem.Serialize(it)
	require.NoError(t, err)
	return b
}

func intBytes(i int64) []byte { return stackitem.NewBigInteger(big.NewInt(i)).Bytes() }

func siBytes(b []byte) stackitem.Item { return stackitem.NewByteArray(b) }
func siInt(i int64) stackitem.Item    { return stackitem.NewBigInteger(big.NewInt(i)) }
func siStruct(xs ...stackitem.Item) stackitem.Item {
	return stackitem.NewStruct(xs)
}
func siArray(xs ...stackitem.Item) stackitem.Item { return stackitem.NewArray(xs) }

// fixed pools of opaque identifiers (kept small so that the cases file
// stays small; which ones occur in a storage is random)
type c16Pools struct {
	acc    [][]byte // 20 bytes
	cid    [][]byte // 32 bytes
	owner  [][]byte // 25 bytes
	pub    [][]byte // 33 bytes
	blob   [][]byte // node blobs, 40 bytes: 2 + key(33) + 5
	junk   [][]byte
	names  []string
	tlds   []string
	cnrVal map[string][]byte // (owner|i) -> binary container
	// the last nAccSp / nCidSp / nOwnerSp entries of acc / cid / owner are
	// legal legacy identifiers whose first bytes coincide with a prefix or a
	// fixed key of the new or old layout ('a', 'x', 'o', "cnr", "notary", ...)
	nAccSp, nCidSp, nOwnerSp int
}

func newC16Pools() *c16Pools {
	r := Rng(424242)
	p := &c16Pools{cnrVal: map[string][]byte{}}
	rb := func(n int) []byte {
		b := make([]byte, n)
		r.Read(b)
		return b
	}
	for i := 0; i < 28; i++ {
		p.acc = append(p.acc, rb(20))
	}
	for i := 0; i < 24; i++ {
		p.cid = append(p.cid, rb(32))
	}
	for i := 0; i < 5; i++ {
		o := rb(25)
		o[0] = 0x35
		p.owner = append(p.owner, o)
	}
	for i := 0; i < 8; i++ {
		k := rb(33)
		k[0] = 2 + byte(i%2)
		p.pub = append(p.pub, k)
		p.blob = append(p.blob, append(append([]byte{0x0a, 0x21}, k...), rb(5)...))
	}
	for i := 0; i < 6; i++ {
		p.junk = append(p.junk, rb(3+i*3))
	}
	lookalike := func(n int, pfx string) []byte {
		b := rb(n)
		copy(b, pfx)
		return b
	}
	for _, pfx := range []string{"a", "aa", "MainnetGAS", "notary", "ballots"} {
		p.acc = append(p.acc, lookalike(20, pfx))
		p.nAccSp++
	}
	for _, pfx := range []string{"x", "o", "d", "n", "u", "r", "m", "cnr", "eACL", "est", "nnsHasAlias", "notary"} {
		p.cid = append(p.cid, lookalike(32, pfx))
		p.nCidSp++
	}
	for _, pfx := range []string{"o", "x", "cnr"} {
		p.owner = append(p.owner, lookalike(25, pfx))
		p.nOwnerSp++
	}
	p.tlds = []string{"neofs", "container", "org"}
	p.names = []string{"netmap.neofs", "balance.neofs", "a.container", "b.container", "x.org", "deep.x.org"}
	return p
}

// binary container (V2): [0x0a, L, version(L), 0x12, 0x1b, 0x0a, 0x19, owner(25), nonce...]
func (p *c16Pools) container(owner []byte, i int) []byte {
	key := fmt.Sprintf("%x|%d", owner, i%3)
	if b, ok := p.cnrVal[key]; ok {
		return b
	}
	ver := []byte{0x08, 0x02, 0x10, byte(0x10 + i%3)}
	b := append([]byte{0x0a, byte(len(ver))}, ver...)
	b = append(b, 0x12, 0x1b, 0x0a, 0x19)
	b = append(b, owner...)
	b = append(b, 0x1a, 0x02, byte(i%3), 0x07)
	p.cnrVal[key] = b
	return b
}

// legacy is one synthetic pre-upgrade storage with its ground truth.
type legacy struct {
	Contract string            `json:"contract"`
	V        int64             `json:"version"`
	NewVer   int64             `json:"updated_to_version,omitempty"` // 0: the tree's own Version
	Data     c16Item           `json:"data"`
	KV       map[string][]byte `json:"-"`
	Dump     [][2]string       `json:"storage"`
	Shape    []string          `json:"shape"`
	// expectations of the generator
	ExpectFault string `json:"expect_fault,omitempty"` // "" = must halt (if v is in range)
	Premise     bool   `json:"premise"`                // the layout predicate legacy_wf holds
	// ground truth
	balances  map[string]int64
	supply    int64
	cnrs      map[string]c16CnrTruth // cid -> truth
	preX      map[string][]byte      // already prefixed containers
	nm        *c16NmTruth
	nns       *c16NNSTruth
	untouched map[string][]byte // keys that must survive with their values
	gone      []string          // keys that must be absent afterwards
}

type c16CnrTruth struct {
	value, sig, pub, token, owner, eacl []byte
}

func (l *legacy) put(k, v []byte)        { l.KV[string(k)] = v }
func (l *legacy) shape(s string)         { l.Shape = append(l.Shape, s) }
func (l *legacy) keep(k, v []byte)       { l.put(k, v); l.untouched[string(k)] = v }
func cat(xs ...[]byte) []byte            { return bytes.Join(xs, nil) }
func pick[T any](r *rand.Rand, xs []T) T { return xs[r.Intn(len(xs))] }

const c16Height = 14 // ledger.CurrentIndex() seen by the update of part B

// notary flag, ballots and the per-contract leftovers of the non-notary era.
func (l *legacy) genNotary(t testing.TB, r *rand.Rand, p *c16Pools, purge bool, extra ...string) {
	mode := r.Intn(6)
	if l.V >= 17000 && r.Intn(3) != 0 {
		mode = 0
	}
	var flag []byte
	switch mode {
	case 0:
		l.shape("notary:absent")
	case 1:
		flag = []byte{0}
		l.shape("notary:false")
	case 2, 3, 4:
		flag = []byte{1}
		l.shape("notary:true")
	case 5:
		flag = pick(r, [][]byte{{}, {0, 1}, {0, 0}, bytes.Repeat([]byte{1}, 33)})
		l.shape(fmt.Sprintf("notary:odd%d", len(flag)))
	}
	switching := l.V < 17000
	if flag != nil {
		if switching {
			l.put([]byte("notary"), flag)
			l.gone = append(l.gone, "notary")
		} else {
			l.keep([]byte("notary"), flag)
		}
	}
	for _, k := range extra {
		if r.Intn(4) != 0 {
			v := pick(r, p.acc)
			if switching && flag != nil {
				l.put([]byte(k), v)
				l.gone = append(l.gone, k)
			} else {
				l.keep([]byte(k), v)
			}
		}
	}
	// ballots
	truthy := false
	for _, x := range flag {
		if x != 0 {
			truthy = true
		}
	}
	if len(flag) > 32 && switching {
		l.ExpectFault = "notary flag longer than 32 bytes"
	}
	ballot := func(age int64) stackitem.Item {
		id := hash.Sha256([]byte{byte(age)}).BytesBE()[:8]
		var voters []stackitem.Item
		for i := 0; i < int(age)%2; i++ {
			voters = append(voters, siBytes(p.pub[i]))
		}
		return siStruct(siBytes(id), stackitem.NewArray(voters), siInt(c16Height-age))
	}
	var bv []byte
	pending := false
	switch r.Intn(8) {
	case 0:
		l.shape("ballots:absent")
	case 1:
		bv = ser(t, siArray())
		l.shape("ballots:empty")
	case 2:
		bv = ser(t, siArray(ballot(21), ballot(100)))
		l.shape("ballots:expired(21,100)")
	case 3:
		bv = ser(t, siArray(ballot(21), ballot(20)))
		pending = true
		l.shape("ballots:pending(20)")
	case 4:
		bv = ser(t, siArray(ballot(0)))
		pending = true
		l.shape("ballots:pending(0)")
	case 5:
		age := int64(r.Intn(45))
		bv = ser(t, siArray(ballot(50), ballot(age), ballot(30)))
		pending = age <= 20
		l.shape(fmt.Sprintf("ballots:age%d", age))
	case 6:
		bv = ser(t, stackitem.Null{})
		l.shape("ballots:null")
	case 7:
		bv = ser(t, siArray(ballot(-3))) // stamped in the future
		pending = true
		l.shape("ballots:future")
	}
	if bv != nil {
		if switching && flag != nil && truthy && purge && len(flag) <= 32 {
			l.put([]byte("ballots"), bv)
			if pending {
				l.ExpectFault = "pending vote detected"
			} else if bytes.Equal(bv, []byte{0}) {
				l.ExpectFault = "ballots is Null"
			} else {
				l.gone = append(l.gone, "ballots")
			}
		} else {
			l.keep([]byte("ballots"), bv)
		}
	}
}

func newLegacy(c string, v int64) *legacy {
	return &legacy{Contract: c, V: v, KV: map[string][]byte{}, untouched: map[string][]byte{}, Premise: true,
		balances: map[string]int64{}, cnrs: map[string]c16CnrTruth{}, preX: map[string][]byte{}}
}

func (l *legacy) hostile(r *rand.Rand, p *c16Pools, lens ...int) {
	for _, n := range lens {
		if r.Intn(2) == 0 {
			k := make([]byte, n)
			r.Read(k)
			k[0] = byte(0x50 + r.Intn(4)) // 'P'..'S': no prefix of the contracts
			l.keep(k, pick(r, p.junk))
			l.shape(fmt.Sprintf("hostile%d", n))
		}
	}
}

// choose picks n indices out of total; in two cases out of three at least one
// of them (up to three) comes from the nSp "lookalike" entries at the end.
func choose(r *rand.Rand, total, nSp, n int) []int {
	idx := r.Perm(total)[:n]
	if n == 0 || nSp == 0 || r.Intn(3) == 0 {
		return idx
	}
	have := map[int]bool{}
	for _, i := range idx {
		have[i] = true
	}
	for k := 0; k < 1+r.Intn(3) && k < n; k++ {
		sp := total - nSp + r.Intn(nSp)
		if !have[sp] {
			have[idx[k]] = false
			idx[k] = sp
			have[sp] = true
		}
	}
	return idx
}

func genBalance(t testing.TB, r *rand.Rand, p *c16Pools, v int64) *legacy {
	l := newLegacy("balance", v)
	n := r.Intn(21)
	if r.Intn(6) == 0 {
		n = 0
	}
	l.shape(fmt.Sprintf("accounts:%d", n))
	sel := choose(r, len(p.acc), p.nAccSp, n)
	for _, i := range sel {
		if i >= len(p.acc)-p.nAccSp {
			l.shape("account:lookalike")
		}
		bal := []int64{0, 1, 1000, 5_0000_0000, 1 << 40}[r.Intn(5)]
		var parent stackitem.Item = stackitem.Null{}
		until := int64(0)
		if r.Intn(5) == 0 {
			parent = siBytes(pick(r, p.acc))
			until = int64(r.Intn(50))
		}
		val := ser(t, siStruct(siInt(bal), siInt(until), parent))
		if v < 20000 {
			l.put(p.acc[i], val)
			l.gone = append(l.gone, string(p.acc[i]))
		} else {
			l.put(cat([]byte{'a'}, p.acc[i]), val)
		}
		l.balances[string(p.acc[i])] = bal
		l.supply += bal
	}
	if r.Intn(8) != 0 {
		l.keep([]byte("MainnetGAS"), intBytes(l.supply))
	} else {
		l.supply = 0
		l.shape("supply:absent")
	}
	l.genNotary(t, r, p, true, "netmapScriptHash", "containerScriptHash")
	l.hostile(r, p, 19, 21, 1, 64)
	if r.Intn(3) == 0 { // 21 bytes starting with 'a' whose tail is not an account of this storage
		for _, a := range p.acc {
			if _, ok := l.KV[string(a)]; !ok {
				l.keep(cat([]byte{'a'}, a), ser(t, siStruct(siInt(77), siInt(0), stackitem.Null{})))
				l.balances[string(a)] = 77
				l.shape("prefixed-stranger")
				break
			}
		}
	}
	return l
}

func genContainer(t testing.TB, r *rand.Rand, p *c16Pools, v int64) *legacy {
	l := newLegacy("container", v)
	n := r.Intn(21)
	if r.Intn(6) == 0 {
		n = 0
	}
	pre := 0
	if r.Intn(3) == 0 {
		pre = r.Intn(4) // some containers already in the new layout
	}
	l.shape(fmt.Sprintf("containers:%d+%d", n, pre))
	perm := choose(r, len(p.cid), p.nCidSp, n+pre)
	for j, i := range perm[:n+pre] {
		cid := p.cid[i]
		if i >= len(p.cid)-p.nCidSp {
			l.shape("cid:lookalike")
		}
		if i%len(p.owner) >= len(p.owner)-p.nOwnerSp {
			l.shape("owner:lookalike")
		}
		// attributes are a function of the id (keeps the number of distinct values small)
		ow := p.owner[i%len(p.owner)]
		tr := c16CnrTruth{value: p.container(ow, i), sig: p.junk[3], pub: p.pub[i%len(p.pub)], token: [][]byte{{}, p.junk[1]}[i%2], owner: ow}
		val := ser(t, siStruct(siBytes(tr.value), siBytes(tr.sig), siBytes(tr.pub), siBytes(tr.token)))
		if j < n {
			l.put(cid, val)
			l.put(cat(ow, cid), cid)
			l.gone = append(l.gone, string(cid), string(cat(ow, cid)))
		} else {
			l.keep(cat([]byte{'x'}, cid), val)
			l.keep(cat([]byte{'o'}, ow, cid), cid)
		}
		if r.Intn(3) == 0 {
			tr.eacl = p.junk[4]
			l.keep(cat([]byte("eACL"), cid), ser(t, siStruct(siBytes(tr.eacl), siBytes(tr.sig), siBytes(tr.pub), siBytes(nil))))
		}
		l.cnrs[string(cid)] = tr
	}
	for _, k := range []string{"netmapScriptHash", "balanceScriptHash", "identityScriptHash", "nnsScriptHash"} {
		l.keep([]byte(k), pick(r, p.acc))
	}
	l.keep([]byte("nnsRoot"), []byte("container"))
	// other shapes of the contract that must survive
	if r.Intn(2) == 0 {
		cid := pick(r, p.cid)
		l.keep(cat([]byte("cnr"), intBytes(int64(1+r.Intn(300))), cid, p.junk[3][:10]), ser(t, siStruct(siBytes(pick(r, p.pub)), siInt(1234))))
		l.keep(cat([]byte("est"), cid), ser(t, siArray()))
		l.keep(cat([]byte("nnsHasAlias"), cid), []byte("a.container"))
		l.keep(cat([]byte{'d'}, pick(r, p.cid)), []byte{})
		l.keep(cat([]byte{'n'}, cid, []byte{0, 0, 1}), pick(r, p.pub))
		l.keep(cat([]byte{'r'}, cid, []byte{0}), []byte{2})
		l.shape("newer-shapes")
	}
	l.hostile(r, p, 31, 33, 56, 58)
	l.genNotary(t, r, p, true)
	return l
}

type c16Node struct {
	blob  []byte
	state int64
}

type c16NmTruth struct {
	count     int64
	current   int64
	epoch     int64
	snaps     map[int64][]c16Node // absent index: key missing
	cands     []c16Node           // in key order
	config    map[string][]byte
	subs      [][]byte // expected subscribers (hashes) in index order, nil = not applicable
	nullSnaps []int64  // empty pre-0.16 snapshots (F15 regression guard)
}

func genNetmap(t testing.TB, r *rand.Rand, p *c16Pools, v int64) *legacy {
	l := newLegacy("netmap", v)
	tr := &c16NmTruth{snaps: map[int64][]c16Node{}, config: map[string][]byte{}}
	l.nm = tr
	old := v < 16000
	tr.count = int64(1 + r.Intn(5))
	tr.current = int64(r.Intn(int(tr.count)))
	tr.epoch = int64(r.Intn(1000))
	l.put([]byte("snapshotCount"), intBytes(tr.count))
	l.keep([]byte("snapshotCurrent"), intBytes(tr.current))
	l.keep([]byte("snapshotEpoch"), intBytes(tr.epoch))
	l.keep([]byte("snapshotBlock"), intBytes(5))
	nodesTotal := 0
	for i := int64(0); i < tr.count; i++ {
		if r.Intn(7) == 0 {
			continue // missing snapshot key
		}
		n := r.Intn(5)
		if r.Intn(4) == 0 {
			n = 0
		}
		var nodes []c16Node
		var items []stackitem.Item
		off := r.Intn(3) // node sets are slices of the blob pool (few distinct snapshots)
		for j := off; j < off+n; j++ {
			nd := c16Node{blob: p.blob[j], state: 1}
			if !old {
				nd.state = int64(1 + j%3)
				items = append(items, siStruct(siBytes(nd.blob), siInt(nd.state)))
			} else {
				items = append(items, siStruct(siBytes(nd.blob)))
			}
			nodes = append(nodes, nd)
		}
		nodesTotal += n
		tr.snaps[i] = nodes
		l.put(cat([]byte("snapshot_"), []byte{byte(i)}), ser(t, stackitem.NewArray(items)))
		if old && n == 0 {
			tr.nullSnaps = append(tr.nullSnaps, i)
		}
	}
	// a snapshot beyond the count must not be touched
	if r.Intn(3) == 0 {
		l.keep(cat([]byte("snapshot_"), []byte{byte(tr.count)}), ser(t, siArray(siStruct(siBytes(p.blob[0])))))
	}
	nc := r.Intn(5)
	var ck []int
	for _, j := range r.Perm(len(p.pub))[:nc] {
		ck = append(ck, j)
	}
	sort.Slice(ck, func(a, b int) bool { return bytes.Compare(p.pub[ck[a]], p.pub[ck[b]]) < 0 })
	for _, j := range ck {
		nd := c16Node{blob: p.blob[j], state: int64(1 + r.Intn(3))}
		tr.cands = append(tr.cands, nd)
		if old {
			l.put(cat([]byte("candidate"), p.pub[j]), ser(t, siStruct(siStruct(siBytes(nd.blob)), siInt(nd.state))))
		} else {
			l.put(cat([]byte("candidate"), p.pub[j]), ser(t, siStruct(siBytes(nd.blob), siInt(nd.state))))
		}
	}
	l.shape(fmt.Sprintf("snapshots:%d/%d nodes:%d cands:%d old:%v", len(tr.snaps), tr.count, nodesTotal, nc, old))
	for _, k := range []string{"MaxObjectSize", "EpochDuration", "ContainerFee"}[:r.Intn(4)] {
		val := intBytes(int64(r.Intn(100000)))
		tr.config[k] = val
		l.keep(cat([]byte("config"), []byte(k)), val)
	}
	l.genNotary(t, r, p, true, "innerring")
	if v < 19000 {
		bal, cnr := pick(r, p.acc), pick(r, p.acc)
		miss := r.Intn(10)
		if miss != 0 {
			l.put([]byte("balanceScriptHash"), bal)
		}
		if miss != 1 {
			l.put([]byte("containerScriptHash"), cnr)
		}
		if miss <= 1 {
			if l.ExpectFault == "" {
				l.ExpectFault = "legacy contract hash missing"
			}
			l.shape("subscriber-source-missing")
		}
		l.gone = append(l.gone, "balanceScriptHash", "containerScriptHash")
		tr.subs = [][]byte{bal, cnr}
	} else {
		for i, h := range [][]byte{pick(r, p.acc), pick(r, p.acc)}[:r.Intn(3)] {
			l.keep(cat([]byte("e"), []byte{byte(i)}, h), []byte{})
		}
	}
	// Node2 era keys and neighbours
	if r.Intn(2) == 0 {
		l.keep(cat([]byte("2"), p.pub[0]), p.junk[2])
		l.keep(cat([]byte("p"), []byte{0, 0, 0, 7}, p.pub[1]), p.junk[2])
		l.keep([]byte("candidat"), p.junk[0])
		l.keep([]byte("snapshot"), p.junk[0])
		// lookalikes of the migrated shapes: a snapshot key with a two-byte
		// index, the bare prefix, keys that continue a fixed key, and an entry
		// under the subscribers prefix that is not an indexed hash
		l.keep([]byte("snapshot_\x00\x00"), ser(t, siArray(siStruct(siBytes(p.blob[1])))))
		l.keep([]byte("snapshot_"), p.junk[1])
		l.keep([]byte("snapshotCountX"), p.junk[1])
		l.keep([]byte("balanceScriptHashX"), p.acc[4])
		l.keep([]byte("notaryX"), []byte{1})
		l.keep([]byte("ep"), p.junk[2])
		l.shape("neighbours")
	}
	return l
}

// c16Rec is one stored NNS record of a name.
type c16Rec struct {
	typ  int64
	id   byte
	data string
}

type c16NNSName struct {
	name   string
	owner  []byte
	admin  []byte
	expire int64
	rereg  bool // registered anew after the update (expiration is then the chain's business)
}

// c16NNSTruth is what was planted into a legacy NNS storage.
type c16NNSTruth struct {
	names  []c16NNSName
	supply int64
	tlds   map[string]bool
	// records by the name they belong to (registered names and unregistered
	// sub-names whose records live under the token of a registered parent),
	// in storage order (type, id)
	recs  map[string][]c16Rec
	query []string // unregistered names asked about (isAvailable, resolve)
}

func (tr *c16NNSTruth) registered(name string) bool {
	for _, n := range tr.names {
		if n.name == name {
			return true
		}
	}
	return false
}

// c16Expired is the expiration (ms) planted for names whose registration is
// over at the time of the update; live names expire in the year 37000.
const c16Expired = 1000

func (tr *c16NNSTruth) get(name string) *c16NNSName {
	for i := range tr.names {
		if tr.names[i].name == name {
			return &tr.names[i]
		}
	}
	return nil
}

// live: registered and not expired.
func (tr *c16NNSTruth) live(name string) bool {
	n := tr.get(name)
	return n != nil && n.expire > c16Expired
}

// chainLive: the name and all its parents down to the TLD are live (what
// ownerOf/properties need).
func (tr *c16NNSTruth) chainLive(name string) bool {
	fr := strings.Split(name, ".")
	for i := 0; i < len(fr); i++ {
		if !tr.live(strings.Join(fr[i:], ".")) {
			return false
		}
	}
	return true
}

// plantToken: the token under which the records of a name were stored when
// they were added (the longest registered suffix that is not the bare TLD).
func (tr *c16NNSTruth) plantToken(name string) string {
	fr := strings.Split(name, ".")
	sum := 0
	for i := 0; i < len(fr)-1; i++ {
		if tr.registered(name[sum:]) {
			return name[sum:]
		}
		sum += len(fr[i]) + 1
	}
	return name
}

// tokenOf mirrors nns.tokenIDFromName at read time: the longest LIVE suffix of
// the name that is not the bare TLD, the name itself if there is none.
func (tr *c16NNSTruth) tokenOf(name string) string {
	fr := strings.Split(name, ".")
	sum := 0
	for i := 0; i < len(fr)-1; i++ {
		if tr.live(name[sum:]) {
			return name[sum:]
		}
		sum += len(fr[i]) + 1
	}
	return name
}

// readable: getRecords/getAllRecords/resolve of the name do not fault (the
// token is live, so are all its parents) and they look where the records were
// planted.
func (tr *c16NNSTruth) readable(name string) bool {
	tok := tr.tokenOf(name)
	return strings.Contains(tok, ".") && tr.chainLive(tok)
}

// stored: the records the read paths find for a readable name (those planted
// under the token the name resolves to now).
func (tr *c16NNSTruth) stored(name string) []c16Rec {
	if tr.tokenOf(name) != tr.plantToken(name) {
		return nil
	}
	return tr.recs[name]
}

func (tr *c16NNSTruth) ofType(name string, typ int64) []string {
	out := []string{}
	for _, r := range tr.stored(name) {
		if r.typ == typ {
			out = append(out, r.data)
		}
	}
	return out
}

// resolve mirrors nns.resolve (two redirections at most).
func (tr *c16NNSTruth) resolve(res []string, name string, typ int64, redirect int) ([]string, bool) {
	if redirect < 0 || len(name) == 0 {
		return nil, false
	}
	name = strings.TrimSuffix(name, ".")
	if !tr.readable(name) {
		return nil, false
	}
	cname := ""
	for _, r := range tr.stored(name) {
		if r.typ == typ {
			res = append(res, r.data)
		}
		if r.typ == 5 {
			cname = r.data
		}
	}
	if cname == "" || typ == 5 {
		return res, true
	}
	return tr.resolve(res, cname, typ, redirect-1)
}

// available mirrors nns.IsAvailable for syntactically valid names whose TLD exists.
func (tr *c16NNSTruth) available(name string) bool {
	if tr.chainLive(name) {
		return false
	}
	fr := strings.Split(name, ".")
	if len(fr) == 1 {
		return true
	}
	parent := name[len(fr[0])+1:]
	for n, rs := range tr.recs {
		if len(rs) > 0 && tr.plantToken(n) == parent && len(n) > len(name) && strings.HasSuffix(n, name) {
			return false // a record of a deeper name stored under the parent's token
		}
	}
	return true
}

var c16RecTypes = []int64{1, 5, 6, 16, 28} // A, CNAME, SOA, TXT, AAAA

func genNNS(t testing.TB, r *rand.Rand, p *c16Pools, v int64, h160 map[string][]byte) *legacy {
	l := newLegacy("nns", v)
	tr := &c16NNSTruth{tlds: map[string]bool{}, recs: map[string][]c16Rec{}}
	l.nns = tr
	old := v < 18000
	rip := func(s string) []byte {
		h := hash.RipeMD160([]byte(s)).BytesBE()
		h160[s] = h
		return h
	}
	committee := p.acc[0]
	bal := map[string]int64{}
	add := func(nm c16NNSName, tld bool) {
		var owner stackitem.Item = stackitem.Null{}
		if nm.owner != nil {
			owner = siBytes(nm.owner)
		}
		var admin stackitem.Item = stackitem.Null{}
		if nm.admin != nil {
			admin = siBytes(nm.admin)
		}
		key := cat([]byte{0x21}, rip(nm.name))
		val := ser(t, siStruct(owner, siBytes([]byte(nm.name)), siInt(nm.expire), admin))
		if tld && old && nm.owner != nil {
			l.put(key, val)
		} else {
			l.keep(key, val)
		}
		if nm.owner != nil {
			bal[string(nm.owner)]++
			atk := cat([]byte{0x02}, nm.owner, rip(nm.name))
			if tld && old {
				l.put(atk, []byte(nm.name))
				l.gone = append(l.gone, string(atk))
			} else {
				l.keep(atk, []byte(nm.name))
			}
		}
		tr.names = append(tr.names, nm)
		tr.supply++
	}
	ntld := r.Intn(len(p.tlds) + 1)
	// names whose registration is over at the time of the update: a TLD (its
	// children are then unreadable), a second-level name (possibly with a live
	// child), a leaf
	expired := map[string]bool{}
	if ntld > 0 && r.Intn(3) == 0 {
		expired[p.tlds[r.Intn(ntld)]] = true
		l.shape("expired:tld")
	}
	if r.Intn(3) == 0 {
		expired[pick(r, []string{"x.org", "a.container", "netmap.neofs"})] = true
		l.shape("expired:second-level")
	}
	if r.Intn(5) == 0 {
		expired["deep.x.org"] = true
		l.shape("expired:leaf")
	}
	life := func(name string) int64 {
		if expired[name] {
			return c16Expired
		}
		return 1 << 50
	}
	for _, tld := range p.tlds[:ntld] {
		nm := c16NNSName{name: tld, expire: life(tld)}
		if old {
			nm.owner = committee
			if r.Intn(4) == 0 {
				nm.owner = p.acc[1] // several TLD owners
			}
		}
		tr.tlds[tld] = true
		l.keep(cat([]byte{0x20}, []byte(tld)), []byte{0})
		add(nm, true)
	}
	nd := 0
	for _, name := range p.names {
		tld := name[strings.LastIndex(name, ".")+1:]
		if !tr.tlds[tld] || r.Intn(3) == 0 {
			continue
		}
		if strings.Count(name, ".") == 2 {
			parent := name[strings.Index(name, ".")+1:]
			found := false
			for _, x := range tr.names {
				if x.name == parent {
					found = true
				}
			}
			if !found {
				continue
			}
		}
		nm := c16NNSName{name: name, owner: pick(r, p.acc[:3]), expire: life(name)}
		if r.Intn(3) == 0 {
			nm.admin = p.acc[5]
		}
		add(nm, false)
		nd++
	}
	// the longest legal names: four labels of up to 63 characters, 255 in all
	if tr.tlds["org"] && r.Intn(4) == 0 {
		n := "org"
		for i, ln := range []int{63, 63, 63, 59} {
			n = strings.Repeat(string(rune('k'+i)), ln) + "." + n
			add(c16NNSName{name: n, owner: p.acc[2], expire: 1 << 50}, false)
			nd++
		}
		l.shape("names:longest")
	}
	// records.  Shapes only the versions before 0.20 could produce are
	// included: their record ids were a free-running byte without the limit of
	// 16 per type, so a name may hold 17, 20, 40 records of a type; ids are not
	// assumed dense either.
	putRec := func(name string, typ int64, id int, data string) {
		tok := tr.plantToken(name)
		rk := cat([]byte{0x22}, rip(tok), rip(name), []byte{byte(typ), byte(id)})
		l.keep(rk, ser(t, siStruct(siBytes([]byte(name)), siInt(typ), siBytes([]byte(data)), siInt(int64(id)))))
		tr.recs[name] = append(tr.recs[name], c16Rec{typ, byte(id), data})
	}
	var regs []string
	for _, n := range tr.names {
		if !tr.tlds[n.name] {
			regs = append(regs, n.name)
		}
	}
	for ni, name := range regs {
		if r.Intn(4) != 0 {
			putRec(name, 6, 0, name+" ops@nspcc.ru 1 3600 600 604800 3600") // SOA
		}
		for _, typ := range []int64{16, 1, 28} {
			n := 0
			switch r.Intn(8) {
			case 0, 1, 2:
				n = 1 + r.Intn(3)
			case 3:
				n = 16
			case 4:
				if typ == 16 || r.Intn(3) == 0 {
					n = []int{17, 20, 40}[r.Intn(3)]
					l.shape(fmt.Sprintf("records:%d-of-a-type", n))
				}
			}
			gaps := n > 1 && r.Intn(5) == 0
			if gaps {
				l.shape("records:id-gaps")
			}
			id := 0
			for i := 0; i < n && id < 256; i++ {
				var data string
				switch typ {
				case 1:
					data = fmt.Sprintf("10.%d.%d.%d", ni, typ, i)
				case 28:
					data = fmt.Sprintf("2001:db8::%x:%x", ni, i)
				default:
					data = fmt.Sprintf("rec%d-%d", ni, i)
				}
				putRec(name, typ, id, data)
				id++
				if gaps && r.Intn(2) == 0 {
					id += 1 + r.Intn(3)
				}
			}
		}
	}
	// CNAME records: to another registered name, chains (the third hop faults),
	// and to a name that does not exist
	if len(regs) >= 2 && r.Intn(2) == 0 {
		k := 1 + r.Intn(min(3, len(regs)-1))
		for i := 0; i < k; i++ {
			putRec(regs[i], 5, 0, regs[i+1])
		}
		l.shape(fmt.Sprintf("cname-chain:%d", k))
		if r.Intn(4) == 0 {
			putRec(regs[k], 5, 0, "nosuch."+regs[k])
			l.shape("cname:dangling")
		}
	}
	// records of unregistered sub-names kept under the token of a registered parent
	for _, name := range regs {
		if strings.Count(name, ".") == 1 && len(name) < 40 && r.Intn(3) == 0 {
			sub := "sub." + name
			if !tr.registered(sub) {
				putRec(sub, 16, 0, "sub-txt")
				putRec(sub, 1, 0, "10.9.9.9")
				tr.query = append(tr.query, sub)
				if r.Intn(2) == 0 {
					putRec("www."+sub, 16, 0, "deeper") // makes `sub` unavailable
					tr.query = append(tr.query, "www."+sub)
				}
				l.shape("records:of-subname")
			}
		}
	}
	for tld := range tr.tlds {
		tr.query = append(tr.query, "free."+tld, "a.free."+tld)
	}
	sort.Strings(tr.query)
	for n := range tr.recs {
		sort.SliceStable(tr.recs[n], func(i, j int) bool {
			a, b := tr.recs[n][i], tr.recs[n][j]
			return a.typ < b.typ || a.typ == b.typ && a.id < b.id
		})
	}
	l.shape(fmt.Sprintf("tlds:%d domains:%d old:%v", ntld, nd, old))
	l.keep([]byte{0x00}, intBytes(tr.supply))
	l.keep([]byte{0x10}, intBytes(10_0000_0000))
	for o, n := range bal {
		// balances of TLD owners change, the others must survive
		tldOwned := int64(0)
		for _, x := range tr.names {
			if tr.tlds[x.name] && string(x.owner) == o {
				tldOwned++
			}
		}
		if old && tldOwned > 0 {
			l.put(cat([]byte{0x01}, []byte(o)), intBytes(n))
		} else {
			l.keep(cat([]byte{0x01}, []byte(o)), intBytes(n))
		}
	}
	l.hostile(r, p, 20, 22)
	return l
}

// neofsid, audit, reputation, alphabet and the three trivial contracts: the
// notary leftovers plus filler that must survive.
func genOther(t testing.TB, r *rand.Rand, p *c16Pools, c string, v int64) *legacy {
	l := newLegacy(c, v)
	for i := 0; i < r.Intn(6); i++ {
		var k []byte
		switch c {
		case "neofsid":
			k = cat([]byte{'o'}, pick(r, p.owner), pick(r, p.pub))
		case "reputation":
			k = cat([]byte{'r'}, intBytes(int64(r.Intn(300))), pick(r, p.pub))
		case "audit":
			k = cat(intBytes(int64(1+r.Intn(300))), pick(r, p.cid), p.junk[5][:4])
		default:
			k = cat([]byte("k"), pick(r, p.junk))
		}
		l.keep(k, pick(r, p.junk))
	}
	l.shape(fmt.Sprintf("filler:%d", len(l.KV)))
	switch c {
	case "neofsid":
		l.genNotary(t, r, p, true, "containerScriptHash")
		if r.Intn(4) != 0 {
			h := pick(r, p.acc)
			if v < 19000 {
				l.put([]byte("netmapScriptHash"), h)
				l.gone = append(l.gone, "netmapScriptHash")
			} else {
				l.keep([]byte("netmapScriptHash"), h)
			}
		}
	case "audit":
		l.genNotary(t, r, p, false, "netmapScriptHash")
	case "reputation":
		l.genNotary(t, r, p, true)
	case "alphabet":
		l.genNotary(t, r, p, true)
		l.keep([]byte("netmapScriptHash"), pick(r, p.acc))
		l.keep([]byte("name"), []byte("Az"))
		l.keep([]byte("index"), intBytes(0))
		l.keep([]byte("threshold"), intBytes(7))
	default:
		// neofs/processing/proxy have no notary switch: everything survives
		if r.Intn(2) == 0 {
			l.keep([]byte("notary"), []byte{1})
			l.keep([]byte("ballots"), ser(t, siArray(siStruct(siBytes(p.junk[0]), siArray(), siInt(c16Height)))))
			l.shape("notary-leftovers")
		}
	}
	return l
}

// ---------------------------------------------------------------------------
// Part B runner and monitors

func (r *c16Run) stubFor(v *Env, target *neotest.Contract, name string) *neotest.Contract {
	dir := filepath.Join(OutDir(), "stubcfg")
	require.NoError(r.t, os.MkdirAll(dir, 0o755))
	cfg := filepath.Join(dir, name+".yml")
	yml := fmt.Sprintf("name: %q\nsupportedstandards: []\npermissions:\n  - methods: '*'\n", target.Manifest.Name)
	require.NoError(r.t, os.WriteFile(cfg, []byte(yml), 0o644))
	src := filepath.Join(envOr("VERIF_HARNESS", "/verif/harness"), "testdata", "c16stub")
	sender := v.E.Validator.ScriptHash()
	c := neotest.CompileFile(r.t, sender, src, cfg)
	cc := *c
	cc.Hash = state.CreateContractHash(sender, c.NEF.Checksum, c.Manifest.Name)
	return &cc
}

func itemsOf(it stackitem.Item) []stackitem.Item {
	if it == nil {
		return nil
	}
	if _, ok := it.(stackitem.Null); ok {
		return nil
	}
	xs, _ := it.Value().([]stackitem.Item)
	return xs
}

func isNull(it stackitem.Item) bool {
	_, ok := it.(stackitem.Null)
	return ok
}

// runLegacy injects l, updates the stub to the tree's contract (to the tree's
// contract with common.Version bumped to l.NewVer, if that is set) and checks.
func (r *c16Run) runLegacy(l *legacy, coqName string) {
	t := r.t
	r.roll(false)
	newRoot, newVer := RepoDir, int64(common.Version)
	if l.NewVer != 0 {
		newRoot, newVer = r.scratchAt(l.NewVer), l.NewVer
		if newRoot == "" {
			return // the tree cannot be patched (recorded in Stats.Extra)
		}
	}
	v := NewEnv(t)
	sender := v.E.Validator.ScriptHash()
	nw := c16Compile(t, sender, newRoot, l.Contract)
	stub := r.stubFor(v, nw, l.Contract)
	v.E.DeployContract(t, stub, nil)
	h := stub.Hash
	dumpIn := c16Dump(func() map[string]string {
		m := map[string]string{}
		for k, x := range l.KV {
			m[k] = string(x)
		}
		return m
	}())
	for i := 0; i < len(dumpIn); i += 40 {
		var flat []any
		for _, kv := range dumpIn[i:min(i+40, len(dumpIn))] {
			flat = append(flat, kv.K, kv.V)
		}
		res := v.Invoke(nil, h, "putMany", flat)
		require.True(t, res.Halt, res.Fault)
	}
	require.LessOrEqual(t, int(v.BC.BlockHeight()), c16Height)
	for int(v.BC.BlockHeight()) < c16Height {
		v.E.AddNewBlock(t)
	}
	before := c16Dump(v.StorageDump(h))
	require.True(t, c16DumpEq(before, dumpIn), "injection")
	nb, mb := c16NefManifest(t, nw)
	res := v.Invoke(nil, h, "update", nb, mb, l.Data.arg())
	require.Equal(t, uint32(c16Height+1), res.Height)
	after := c16Dump(v.StorageDump(h))
	ver := int64(-1)
	if res.Halt {
		ver = v.ReadInt(h, "version").Int64()
	}
	for _, kv := range before {
		l.Dump = append(l.Dump, [2]string{Hex(kv.K), Hex(kv.V)})
	}
	sort.Strings(l.Shape)
	coqCase := fmt.Sprintf("mkCase (OStub %s (env_basic %d%%Z [] [] []) true (%s)) %s %s %s %s",
		coqName, c16Height, l.Data.coq(r.w.pool), r.w.dump(before), BoolLit(res.Halt), r.w.dump(after), ZI(ver))
	if l.NewVer != 0 {
		r.w.bcases = append(r.w.bcases, fmt.Sprintf("(%s, %s)", ZI(newVer), coqCase))
		r.st.OpHistogram["migrate-to-bumped-version/"+l.Contract]++
	} else {
		r.w.cases = append(r.w.cases, coqCase)
	}
	r.st.Evaluations++
	r.st.Histories++
	r.st.OpHistogram["migrate/"+l.Contract]++
	oc := "halt"
	if !res.Halt {
		oc = "fault:" + shortFault(res.Fault)
	}
	r.st.OutcomeHistogram["migrate/"+l.Contract+"/"+oc]++
	r.distinct[fmt.Sprintf("mig|%s|%d|%s|%s", l.Contract, l.V, strings.Join(l.Shape, ","), oc)] = true
	if l.Contract == "nns" && res.Halt {
		hist, _ := r.st.Extra["nns_shapes_migrated"].(map[string]int)
		if hist == nil {
			hist = map[string]int{}
			r.st.Extra["nns_shapes_migrated"] = hist
		}
		for _, sh := range l.Shape {
			if strings.HasPrefix(sh, "records:") || strings.HasPrefix(sh, "cname") || strings.HasPrefix(sh, "names:") || strings.HasPrefix(sh, "corpus:") {
				hist[sh]++
			}
		}
	}

	// ---- Go monitor of the property on the observed run
	bad := func(f string, a ...any) {
		r.st.AddViolation("C16 "+l.Contract+": "+fmt.Sprintf(f, a...), l)
	}
	inRange := int64(common.PrevVersion) <= l.V && l.V < newVer
	if !res.Halt {
		if !c16DumpEq(before, after) {
			bad("faulted update changed the storage")
		}
		if inRange && l.ExpectFault == "" {
			bad("update from a supported version faulted: %s", res.Fault)
		}
		return
	}
	if !inRange {
		bad("update from unsupported version %d halted", l.V)
		return
	}
	if l.ExpectFault != "" {
		bad("update halted although %s", l.ExpectFault)
		return
	}
	if ver != newVer {
		bad("version() = %d after the update to %d", ver, newVer)
	}
	am := map[string][]byte{}
	for _, kv := range after {
		am[string(kv.K)] = kv.V
	}
	for k, x := range l.untouched {
		if got, ok := am[k]; !ok || !bytes.Equal(got, x) {
			bad("key %x outside the migrated shapes was touched", k)
		}
	}
	for _, k := range l.gone {
		if _, ok := am[k]; ok {
			bad("legacy key %x survived", k)
		}
	}
	if !l.Premise {
		for _, sh := range l.Shape {
			if sh == "corpus:estimation-key-of-length-57" {
				// F16: the 57-byte estimation key is listed as a container of a fake owner
				it, err := v.Read(h, "containersOf", nil)
				require.NoError(t, err)
				bogus := 0
				for _, x := range itemsOf(it) {
					if len(ItemBytes(x)) != 32 {
						bogus++
					}
				}
				if bogus == 1 && len(itemsOf(it)) == 2 {
					r.st.AddKnown("C16/container-estimation-key-len57")
				} else {
					bad("estimation key of length 57: unexpected listing (%d entries, %d bogus)", len(itemsOf(it)), bogus)
				}
			}
		}
		return
	}
	switch l.Contract {
	case "balance":
		r.checkBalance(v, h, l, bad)
	case "container":
		r.checkContainer(v, h, l, bad)
	case "netmap":
		r.checkNetmap(v, h, l, am, bad)
	case "nns":
		r.checkNNS(v, h, l, bad)
	}
	if len(r.st.Samples) < 4 {
		r.st.Samples = append(r.st.Samples, map[string]any{"contract": l.Contract, "version": l.V, "shape": l.Shape, "keys": len(before), "outcome": oc})
	}
}

func (r *c16Run) checkBalance(v *Env, h util.Uint160, l *legacy, bad func(string, ...any)) {
	p := r.pools
	for _, a := range p.acc {
		want := l.balances[string(a)]
		it, err := v.Read(h, "balanceOf", a)
		if err != nil {
			bad("balanceOf(%x) faults after the update: %v", a, err)
			continue
		}
		if got := ItemInt(it).Int64(); got != want {
			bad("balanceOf(%x) = %d after the update, %d before", a, got, want)
		}
	}
	if got := v.ReadInt(h, "totalSupply").Int64(); got != l.supply {
		bad("totalSupply = %d after the update, %d before", got, l.supply)
	}
}

func (r *c16Run) checkContainer(v *Env, h util.Uint160, l *legacy, bad func(string, ...any)) {
	p := r.pools
	byOwner := map[string][][]byte{}
	var all [][]byte
	for _, cid := range p.cid {
		tr, ok := l.cnrs[string(cid)]
		it, err := v.Read(h, "get", cid)
		if !ok {
			if err == nil {
				bad("get(%x) answers for a container that never existed", cid)
			}
			continue
		}
		all = append(all, cid)
		byOwner[string(tr.owner)] = append(byOwner[string(tr.owner)], cid)
		if err != nil {
			bad("get(%x) faults after the update: %v", cid, err)
			continue
		}
		f := itemsOf(it)
		if len(f) != 4 || !bytes.Equal(ItemBytes(f[0]), tr.value) || !bytes.Equal(ItemBytes(f[1]), tr.sig) ||
			!bytes.Equal(ItemBytes(f[2]), tr.pub) || !bytes.Equal(ItemBytes(f[3]), tr.token) {
			bad("get(%x) differs after the update", cid)
		}
		if it, err = v.Read(h, "owner", cid); err != nil || !bytes.Equal(ItemBytes(it), tr.owner) {
			bad("owner(%x) differs after the update", cid)
		}
		it, err = v.Read(h, "eACL", cid)
		if err != nil {
			bad("eACL(%x) faults", cid)
		} else if f := itemsOf(it); len(f) != 4 || !bytes.Equal(ItemBytes(f[0]), tr.eacl) {
			bad("eACL(%x) differs after the update", cid)
		}
	}
	sortB := func(x [][]byte) { sort.Slice(x, func(i, j int) bool { return bytes.Compare(x[i], x[j]) < 0 }) }
	sameList := func(it stackitem.Item, want [][]byte) bool {
		xs := itemsOf(it)
		if len(xs) != len(want) {
			return false
		}
		for i := range xs {
			if !bytes.Equal(ItemBytes(xs[i]), want[i]) {
				return false
			}
		}
		return true
	}
	sortB(all)
	if got := v.ReadInt(h, "count").Int64(); got != int64(len(all)) {
		bad("count = %d after the update, %d containers before", got, len(all))
	}
	if it, err := v.Read(h, "list", []byte{}); err != nil || !sameList(it, all) {
		bad("list() differs after the update")
	}
	var allByOwner [][]byte
	for _, o := range func() [][]byte { x := append([][]byte{}, p.owner...); sortB(x); return x }() {
		want := byOwner[string(o)]
		sortB(want)
		allByOwner = append(allByOwner, want...)
		if it, err := v.Read(h, "list", o); err != nil || !sameList(it, want) {
			bad("list(%x) differs after the update", o)
		}
		if it, err := v.Read(h, "containersOf", o); err != nil || !sameList(it, want) {
			bad("containersOf(%x) differs after the update", o)
		}
	}
	if it, err := v.Read(h, "containersOf", nil); err != nil || !sameList(it, allByOwner) {
		bad("containersOf(nil) differs after the update")
	}
}

func (r *c16Run) checkNetmap(v *Env, h util.Uint160, l *legacy, am map[string][]byte, bad func(string, ...any)) {
	tr := l.nm
	sameNodes := func(it stackitem.Item, want []c16Node) bool {
		xs := itemsOf(it)
		if len(xs) != len(want) {
			return false
		}
		for i := range xs {
			f := itemsOf(xs[i])
			if len(f) != 2 || !bytes.Equal(ItemBytes(f[0]), want[i].blob) || ItemInt(f[1]).Int64() != want[i].state {
				return false
			}
		}
		return true
	}
	isNullSnap := func(i int64) bool {
		for _, x := range tr.nullSnaps {
			if x == i {
				return true
			}
		}
		return false
	}
	for d := int64(0); d < tr.count; d++ {
		id := (tr.current - d + tr.count) % tr.count
		it, err := v.Read(h, "snapshot", d)
		if err != nil {
			bad("snapshot(%d) faults after the update: %v", d, err)
			continue
		}
		want, stored := tr.snaps[id]
		if stored && isNull(it) {
			// regression guard for F15 (fixed in /repo by 3adfa7f): an empty
			// pre-0.16 snapshot used to be re-encoded from a nil slice and read
			// back as Null instead of the empty array
			bad("snapshot(%d) is Null after the update (empty pre-0.16 snapshot: %v)", d, isNullSnap(id))
			continue
		}
		if !sameNodes(it, want) {
			bad("snapshot(%d) differs after the update", d)
		}
	}
	if it, err := v.Read(h, "netmap"); err != nil {
		bad("netmap() faults after the update: %v", err)
	} else if want, stored := tr.snaps[tr.current]; (stored && isNull(it)) || !sameNodes(it, want) {
		bad("netmap() differs after the update")
	}
	if it, err := v.Read(h, "netmapCandidates"); err != nil || !sameNodes(it, tr.cands) {
		bad("netmapCandidates() differs after the update (%v)", err)
	}
	if got := v.ReadInt(h, "epoch").Int64(); got != tr.epoch {
		bad("epoch() = %d after the update, %d before", got, tr.epoch)
	}
	for k, want := range tr.config {
		if it, err := v.Read(h, "config", []byte(k)); err != nil || !bytes.Equal(ItemBytes(it), want) {
			bad("config(%s) differs after the update", k)
		}
	}
	if tr.subs != nil {
		for i, h := range tr.subs {
			k := string(cat([]byte("e"), []byte{byte(i)}, h))
			if x, ok := am[k]; !ok || len(x) != 0 {
				bad("new-epoch subscriber %d is not the stored %s hash", i, []string{"balance", "container"}[i])
			}
		}
		for k := range am {
			if k[0] != 'e' {
				continue
			}
			_, keep := l.untouched[k]
			if !keep && k != string(cat([]byte("e\x00"), tr.subs[0])) && k != string(cat([]byte("e\x01"), tr.subs[1])) {
				bad("unexpected key %x under the subscribers prefix", k)
			}
		}
	}
}

// checkNNSNep11 compares every NEP-11 reader (and roots/getPrice/isAvailable)
// with the planted ground truth.
func (r *c16Run) checkNNSNep11(v *Env, h util.Uint160, tr *c16NNSTruth, when string, extraOwners [][]byte, bad func(string, ...any)) {
	if got := v.ReadInt(h, "totalSupply").Int64(); got != tr.supply {
		bad("totalSupply = %d %s, %d before", got, when, tr.supply)
	}
	strs := func(it stackitem.Item) []string {
		out := []string{}
		for _, x := range itemsOf(it) {
			out = append(out, string(ItemBytes(x)))
		}
		return out
	}
	sameSet := func(got []string, want map[string]bool) bool {
		if len(got) != len(want) {
			return false
		}
		for _, g := range got {
			if !want[g] {
				return false
			}
		}
		return true
	}
	all := map[string]bool{}
	for _, n := range tr.names {
		all[n.name] = true
	}
	if it, err := v.Read(h, "tokens"); err != nil || !sameSet(strs(it), all) {
		bad("tokens() does not list exactly the %d planted names %s (%v)", len(all), when, err)
	}
	if it, err := v.Read(h, "roots"); err != nil || !sameSet(strs(it), tr.tlds) {
		bad("roots() does not list exactly the planted TLDs %s (%v)", when, err)
	}
	if got := v.ReadInt(h, "getPrice").Int64(); got != 10_0000_0000 {
		bad("getPrice() = %d %s", got, when)
	}
	owned := map[string]map[string]bool{}
	for _, n := range tr.names {
		if tr.tlds[n.name] {
			continue
		}
		// the owner index does not look at expirations
		if owned[string(n.owner)] == nil {
			owned[string(n.owner)] = map[string]bool{}
		}
		owned[string(n.owner)][n.name] = true
		ok := tr.chainLive(n.name)
		it, err := v.Read(h, "ownerOf", n.name)
		if (err == nil) != ok {
			bad("ownerOf(%s): fault = %v %s, expected fault = %v (expired name or parent)", n.name, err != nil, when, !ok)
		} else if ok && !bytes.Equal(ItemBytes(it), n.owner) {
			bad("ownerOf(%s) = %x %s, planted owner %x", n.name, ItemBytes(it), when, n.owner)
		}
		it, err = v.Read(h, "properties", n.name)
		if (err == nil) != ok {
			bad("properties(%s): fault = %v %s, expected fault = %v", n.name, err != nil, when, !ok)
		} else if ok {
			m, isMap := it.Value().([]stackitem.MapElement)
			if !isMap {
				bad("properties(%s) is not a map", n.name)
			}
			for _, e := range m {
				switch string(ItemBytes(e.Key)) {
				case "name":
					if string(ItemBytes(e.Value)) != n.name {
						bad("properties(%s).name differs %s", n.name, when)
					}
				case "expiration":
					if !n.rereg && ItemInt(e.Value).Int64() != n.expire {
						bad("properties(%s).expiration differs %s", n.name, when)
					}
				case "admin":
					if !bytes.Equal(ItemBytes(e.Value), n.admin) {
						bad("properties(%s).admin differs %s", n.name, when)
					}
				}
			}
		}
	}
	for _, n := range tr.names {
		if tr.tlds[n.name] {
			continue
		}
		want := tr.available(n.name)
		if it, err := v.Read(h, "isAvailable", n.name); err != nil || isNull(it) || (ItemInt(it).Sign() != 0) != want {
			bad("isAvailable(%s) is not %v %s (%v)", n.name, want, when, err)
		}
	}
	sum := int64(0)
	for _, o := range append(append([][]byte{}, r.pools.acc[:6]...), extraOwners...) {
		want := owned[string(o)]
		got := v.ReadInt(h, "balanceOf", o).Int64()
		sum += got
		if got != int64(len(want)) {
			bad("balanceOf(%x) = %d %s, the account owns %d non-TLD names", o, got, when, len(want))
		}
		if it, err := v.Read(h, "tokensOf", o); err != nil || !sameSet(strs(it), want) && len(want) > 0 || len(want) == 0 && len(itemsOf(it)) != 0 {
			bad("tokensOf(%x) lists %d names %s, the account owns %d non-TLD names", o, len(itemsOf(it)), when, len(want))
		}
	}
	nonTLD := int64(0)
	for _, n := range tr.names {
		if !tr.tlds[n.name] {
			nonTLD++
		}
	}
	if sum != nonTLD {
		bad("sum of balances = %d %s, %d names have an owner (TLDs are committee-owned)", sum, when, nonTLD)
	}
}

func (r *c16Run) checkNNS(v *Env, h util.Uint160, l *legacy, bad func(string, ...any)) {
	tr := l.nns
	r.checkNNSNep11(v, h, tr, "after the update", nil, bad)
	defer r.nnsReregister(v, h, l, bad)
	strs := func(it stackitem.Item) []string {
		out := []string{}
		for _, x := range itemsOf(it) {
			out = append(out, string(ItemBytes(x)))
		}
		return out
	}
	// records: every read path against the planted content and against each other
	var names []string
	for _, n := range tr.names {
		if !tr.tlds[n.name] {
			names = append(names, n.name)
		}
	}
	names = append(names, tr.query...)
	eq := func(a, b []string) bool { return fmt.Sprint(a) == fmt.Sprint(b) && len(a) == len(b) }
	for _, name := range names {
		readable := tr.readable(name)
		it, err := v.Read(h, "getAllRecords", name)
		if (err == nil) != readable {
			bad("getAllRecords(%s): fault = %v after the update, expected fault = %v", name, err != nil, !readable)
			continue
		}
		byType := map[int64][]string{}
		if readable {
			var want, got []string
			for _, rc := range tr.stored(name) {
				want = append(want, fmt.Sprintf("%s|%d|%s|%d", name, rc.typ, rc.data, rc.id))
			}
			for _, x := range itemsOf(it) {
				f := itemsOf(x)
				if len(f) != 4 {
					bad("getAllRecords(%s) returns a malformed record", name)
					continue
				}
				got = append(got, fmt.Sprintf("%s|%d|%s|%d", ItemBytes(f[0]), ItemInt(f[1]).Int64(), ItemBytes(f[2]), ItemInt(f[3]).Int64()))
				byType[ItemInt(f[1]).Int64()] = append(byType[ItemInt(f[1]).Int64()], string(ItemBytes(f[2])))
			}
			if !eq(got, want) {
				bad("getAllRecords(%s) shows %d records after the update, %d were stored (first difference at %d)", name, len(got), len(want), firstDiff(got, want))
			}
		}
		for _, typ := range c16RecTypes {
			it, err := v.Read(h, "getRecords", name, typ)
			if (err == nil) != readable {
				bad("getRecords(%s, %d): fault = %v after the update, expected fault = %v", name, typ, err != nil, !readable)
			} else if readable {
				got, want := strs(it), tr.ofType(name, typ)
				if !eq(got, want) {
					bad("getRecords(%s, %d) shows %d records after the update, %d were stored (first difference at %d)", name, typ, len(got), len(want), firstDiff(got, want))
				}
				if via := byType[typ]; !eq(got, append([]string{}, via...)) {
					bad("getRecords(%s, %d) and getAllRecords(%s) disagree after the update: %d vs %d records", name, typ, name, len(got), len(via))
				}
			}
			want, ok := tr.resolve([]string{}, name, typ, 2)
			it, err = v.Read(h, "resolve", name, typ)
			if (err == nil) != ok {
				bad("resolve(%s, %d): fault = %v after the update, expected fault = %v", name, typ, err != nil, !ok)
			} else if ok && !eq(strs(it), want) {
				bad("resolve(%s, %d) shows %d records after the update, expected %d", name, typ, len(strs(it)), len(want))
			}
		}
	}
	for _, name := range tr.query {
		want := tr.available(name)
		if it, err := v.Read(h, "isAvailable", name); err != nil || isNull(it) || (ItemInt(it).Sign() != 0) != want {
			bad("isAvailable(%s) is not %v after the update (%v)", name, want, err)
		}
	}
	if _, err := v.Read(h, "isAvailable", "free.nosuchtld"); err == nil {
		bad("isAvailable under a TLD that does not exist answers after the update")
	}
}

// nnsReregister: after the update the committee registers the expired TLDs
// anew and an expired second-level name goes to a new owner; the NEP-11
// readers must follow (no stale balance or token index entry of a former
// owner).
func (r *c16Run) nnsReregister(v *Env, h util.Uint160, l *legacy, bad func(string, ...any)) {
	tr := l.nns
	did := false
	const tenYears = int64(10 * 365 * 24 * 3600)
	for i := range tr.names {
		n := &tr.names[i]
		if tr.tlds[n.name] && n.expire <= c16Expired {
			res := v.Invoke(nil, h, "registerTLD", n.name, "ops@nspcc.ru", int64(3600), int64(600), tenYears, int64(3600))
			if !res.Halt {
				bad("registerTLD(%s) of an expired TLD faults after the update: %s", n.name, res.Fault)
				continue
			}
			n.owner, n.admin, n.expire, n.rereg = nil, nil, 1<<51, true
			did = true
		}
	}
	newOwner := v.E.Validator.ScriptHash().BytesBE()
	for i := range tr.names {
		n := &tr.names[i]
		if strings.Count(n.name, ".") != 1 || n.expire > c16Expired || !tr.live(n.name[strings.Index(n.name, ".")+1:]) {
			continue
		}
		if !tr.available(n.name) {
			continue // a record of a deeper name under the TLD's token blocks it
		}
		res := v.Invoke(nil, h, "register", n.name, newOwner, "ops@nspcc.ru", int64(3600), int64(600), tenYears, int64(3600))
		if !res.Halt || len(res.Stack) != 1 {
			bad("register(%s) of an expired name faults after the update: %s", n.name, res.Fault)
			continue
		}
		if ok, err := res.Stack[0].TryBool(); err != nil || !ok {
			bad("register(%s) of an expired name returns false after the update", n.name)
			continue
		}
		n.owner, n.admin, n.expire, n.rereg = newOwner, nil, 1<<51, true
		did = true
	}
	if did {
		l.shape("re-registered")
		r.st.OutcomeHistogram["migrate/nns/re-registration-after-update"]++
		r.checkNNSNep11(v, h, tr, "after the update and the re-registration of the expired names", [][]byte{newOwner}, bad)
	}
}

func firstDiff(a, b []string) int {
	for i := 0; i < len(a) && i < len(b); i++ {
		if a[i] != b[i] {
			return i
		}
	}
	return min(len(a), len(b))
}

func (r *c16Run) gen(rr *rand.Rand, c string, v int64) *legacy {
	var l *legacy
	switch c {
	case "balance":
		l = genBalance(r.t, rr, r.pools, v)
	case "container":
		l = genContainer(r.t, rr, r.pools, v)
	case "netmap":
		l = genNetmap(r.t, rr, r.pools, v)
	case "nns":
		l = genNNS(r.t, rr, r.pools, v, r.h160)
	default:
		l = genOther(r.t, rr, r.pools, c, v)
	}
	// data = [..., v]
	p := r.pools
	var pre []c16Item
	if c == "alphabet" {
		pre = []c16Item{c16Bool(false), c16Bytes(p.acc[2]), c16Bytes(p.acc[3]), c16Bytes([]byte("Az"))}
		if fl, ok := l.KV["notary"]; ok && v < 17000 && l.ExpectFault == "" {
			truthy := false
			for _, x := range fl {
				truthy = truthy || x != 0
			}
			if truthy {
				l.ExpectFault = "the Alphabet's GAS distribution needs a Netmap contract"
			}
		}
	} else if rr.Intn(3) == 0 {
		pre = []c16Item{c16Bytes(p.junk[0]), c16Int(int64(rr.Intn(5))), c16Null}[:1+rr.Intn(3)]
	}
	switch rr.Intn(12) {
	case 0:
		l.Data = c16Arr(append(pre, c16Bytes(intBytes(v)))...) // the version as a byte string: CONVERT accepts it
		l.shape("data:bytes-version")
	default:
		l.Data = c16Arr(append(pre, c16Int(v))...)
	}
	return l
}

func (r *c16Run) corpus() []*legacy {
	t, p := r.t, r.pools
	prev := int64(common.PrevVersion)
	acct := func(b int64) []byte { return ser(t, siStruct(siInt(b), siInt(0), stackitem.Null{})) }
	ballots := func(age int64) []byte {
		return ser(t, siArray(siStruct(siBytes(p.junk[0]), siArray(siBytes(p.pub[0])), siInt(c16Height-age))))
	}
	var out []*legacy
	mk := func(c string, v int64, f func(l *legacy)) {
		l := newLegacy(c, v)
		l.Data = c16Arr(c16Int(v))
		f(l)
		out = append(out, l)
	}
	for _, age := range []int64{20, 21} {
		age := age
		mk("balance", prev, func(l *legacy) {
			l.put(p.acc[0], acct(10))
			l.put(p.acc[1], acct(32))
			l.balances[string(p.acc[0])], l.balances[string(p.acc[1])], l.supply = 10, 32, 42
			l.keep([]byte("MainnetGAS"), intBytes(42))
			l.put([]byte("notary"), []byte{1})
			l.put([]byte("ballots"), ballots(age))
			l.shape(fmt.Sprintf("corpus:pending-boundary-age%d", age))
			if age <= 20 {
				l.ExpectFault = "pending vote detected"
			} else {
				l.gone = []string{"notary", "ballots", string(p.acc[0]), string(p.acc[1])}
			}
		})
	}
	// legacy identifiers that start with a byte of the new layout: an account 'a'..., a container
	// id 'x'... owned by 'o'..., an id "cnr"... (none of them may be lost or left behind)
	mk("balance", 19999, func(l *legacy) {
		for i := len(p.acc) - p.nAccSp; i < len(p.acc); i++ {
			l.put(p.acc[i], acct(int64(100+i)))
			l.balances[string(p.acc[i])] = int64(100 + i)
			l.supply += int64(100 + i)
			l.gone = append(l.gone, string(p.acc[i]))
		}
		l.put(p.acc[0], acct(5))
		l.balances[string(p.acc[0])] = 5
		l.supply += 5
		l.keep([]byte("MainnetGAS"), intBytes(l.supply))
		l.shape("corpus:accounts-starting-with-prefix-bytes")
	})
	mk("container", 19999, func(l *legacy) {
		for i := len(p.cid) - p.nCidSp; i < len(p.cid); i++ {
			cid, ow := p.cid[i], p.owner[i%len(p.owner)]
			tr := c16CnrTruth{value: p.container(ow, i), sig: p.junk[3], pub: p.pub[0], token: []byte{}, owner: ow}
			l.put(cid, ser(t, siStruct(siBytes(tr.value), siBytes(tr.sig), siBytes(tr.pub), siBytes(tr.token))))
			l.put(cat(ow, cid), cid)
			l.gone = append(l.gone, string(cid), string(cat(ow, cid)))
			l.cnrs[string(cid)] = tr
		}
		l.shape("corpus:ids-and-owners-starting-with-prefix-bytes")
	})
	// the NEXT release: a deployment AT the tree's own version that still has the un-prefixed
	// container layout (the key migration is not version-gated, i.e. the tree says such storages
	// exist) is updated to the tree's code with common.Version bumped
	for _, nv := range []int64{int64(common.Version) + 1, int64(common.Version) + 1000} {
		nv := nv
		mk("container", int64(common.Version), func(l *legacy) {
			l.NewVer = nv
			for i := 0; i < 3; i++ {
				cid, ow := p.cid[i], p.owner[i%2]
				tr := c16CnrTruth{value: p.container(ow, i), sig: p.junk[3], pub: p.pub[0], token: []byte{}, owner: ow}
				l.put(cid, ser(t, siStruct(siBytes(tr.value), siBytes(tr.sig), siBytes(tr.pub), siBytes(tr.token))))
				l.put(cat(ow, cid), cid)
				l.gone = append(l.gone, string(cid), string(cat(ow, cid)))
				l.cnrs[string(cid)] = tr
			}
			for _, k := range []string{"netmapScriptHash", "balanceScriptHash", "identityScriptHash", "nnsScriptHash"} {
				l.keep([]byte(k), p.acc[3])
			}
			l.shape("corpus:old-layout-at-the-current-version-updated-to-the-next")
		})
	}
	// premise of C16_preserves_balance: a prefixed key colliding with an account is overwritten
	mk("balance", 19000, func(l *legacy) {
		l.put(p.acc[0], acct(10))
		l.put(cat([]byte{'a'}, p.acc[0]), acct(999))
		l.Premise = false
		l.shape("corpus:prefixed-collision")
	})
	// premise of C16_preserves_container: a 57-byte estimation key (12-byte epoch) is taken for an owner index entry
	mk("container", 19000, func(l *legacy) {
		ow, cid := p.owner[0], p.cid[0]
		val := ser(t, siStruct(siBytes(p.container(ow, 0)), siBytes(p.junk[3]), siBytes(p.pub[0]), siBytes(nil)))
		l.put(cid, val)
		l.put(cat(ow, cid), cid)
		epoch := new(big.Int).Lsh(big.NewInt(1), 90)
		ek := cat([]byte("cnr"), stackitem.NewBigInteger(epoch).Bytes(), cid, p.junk[3][:10])
		require.Len(t, ek, 57)
		l.put(ek, ser(t, siStruct(siBytes(p.pub[0]), siInt(5))))
		l.Premise = false
		l.shape("corpus:estimation-key-of-length-57")
	})
	// F15 (fixed): an empty pre-0.16 snapshot must stay an empty list
	mk("netmap", prev, func(l *legacy) {
		l.nm = &c16NmTruth{count: 2, current: 0, epoch: 3, snaps: map[int64][]c16Node{0: nil, 1: {{p.blob[0], 1}}}, config: map[string][]byte{}, nullSnaps: []int64{0}}
		l.put([]byte("snapshotCount"), intBytes(2))
		l.put([]byte("snapshotCurrent"), intBytes(0))
		l.put([]byte("snapshotEpoch"), intBytes(3))
		l.put([]byte("snapshot_\x00"), ser(t, siArray()))
		l.put([]byte("snapshot_\x01"), ser(t, siArray(siStruct(siBytes(p.blob[0])))))
		l.put([]byte("balanceScriptHash"), p.acc[0])
		l.put([]byte("containerScriptHash"), p.acc[1])
		l.nm.subs = [][]byte{p.acc[0], p.acc[1]}
		l.shape("corpus:empty-old-snapshot")
	})
	// NNS below 0.18 whose TLD is already committee-owned (Null owner): append(.., nil...) faults
	mk("nns", 17000, func(l *legacy) {
		hh := hash.RipeMD160([]byte("neofs")).BytesBE()
		r.h160["neofs"] = hh
		l.put(cat([]byte{0x21}, hh), ser(t, siStruct(stackitem.Null{}, siBytes([]byte("neofs")), siInt(1<<50), stackitem.Null{})))
		l.put([]byte{0}, intBytes(1))
		l.ExpectFault = "TLD without owner below 0.18"
		l.shape("corpus:tld-null-owner")
	})
	// NNS storages only the versions before 0.20 could write: more than 16 records of one type
	// (ids were a free-running byte), ids with gaps, several types, a CNAME; every read path must
	// show all of them after the update
	for _, ver := range []int64{19001, 17000} {
		ver := ver
		mk("nns", ver, func(l *legacy) {
			tr := &c16NNSTruth{tlds: map[string]bool{"com": true}, recs: map[string][]c16Rec{}}
			l.nns = tr
			rip := func(s string) []byte {
				h := hash.RipeMD160([]byte(s)).BytesBE()
				r.h160[s] = h
				return h
			}
			var tldOwner stackitem.Item = stackitem.Null{}
			if ver < 18000 {
				tldOwner = siBytes(p.acc[0])
				l.put(cat([]byte{0x01}, p.acc[0]), intBytes(1))
				l.put(cat([]byte{0x02}, p.acc[0], rip("com")), []byte("com"))
				l.gone = append(l.gone, string(cat([]byte{0x01}, p.acc[0])), string(cat([]byte{0x02}, p.acc[0], rip("com"))))
			}
			l.put(cat([]byte{0x21}, rip("com")), ser(t, siStruct(tldOwner, siBytes([]byte("com")), siInt(1<<50), stackitem.Null{})))
			l.keep(cat([]byte{0x20}, []byte("com")), []byte{0})
			tr.names = append(tr.names, c16NNSName{name: "com", expire: 1 << 50})
			for _, n := range []string{"testdomain.com", "alias.com"} {
				l.keep(cat([]byte{0x21}, rip(n)), ser(t, siStruct(siBytes(p.acc[1]), siBytes([]byte(n)), siInt(1<<50), stackitem.Null{})))
				l.keep(cat([]byte{0x02}, p.acc[1], rip(n)), []byte(n))
				tr.names = append(tr.names, c16NNSName{name: n, owner: p.acc[1], expire: 1 << 50})
			}
			l.keep(cat([]byte{0x01}, p.acc[1]), intBytes(2))
			tr.supply = 3
			l.keep([]byte{0x00}, intBytes(3))
			l.keep([]byte{0x10}, intBytes(10_0000_0000))
			put := func(name string, typ int64, id int, data string) {
				rk := cat([]byte{0x22}, rip(name), rip(name), []byte{byte(typ), byte(id)})
				l.keep(rk, ser(t, siStruct(siBytes([]byte(name)), siInt(typ), siBytes([]byte(data)), siInt(int64(id)))))
				tr.recs[name] = append(tr.recs[name], c16Rec{typ, byte(id), data})
			}
			for i := 0; i < 17; i++ { // A records, ids with gaps: 0,2,4,...
				put("testdomain.com", 1, 2*i, fmt.Sprintf("10.0.0.%d", i))
			}
			put("testdomain.com", 6, 0, "testdomain.com ops@nspcc.ru 1 3600 600 604800 3600")
			for i := 0; i < 20; i++ { // 20 TXT records, dense ids
				put("testdomain.com", 16, i, fmt.Sprintf("record #%d", i))
			}
			put("alias.com", 5, 0, "testdomain.com")
			for i := 0; i < 40; i++ {
				put("alias.com", 16, i, fmt.Sprintf("alias #%d", i))
			}
			tr.query = []string{"free.com"}
			l.shape("corpus:more-than-16-records-of-a-type")
		})
	}
	// NNS below 0.18 with names whose registration is over at the time of the update: an expired
	// TLD with its former owner (the update must still hand it to the committee: nothing else ever
	// cleans that owner's balance and token index), an expired second-level name with a live
	// child, a live TLD; afterwards the expired names are registered anew
	for _, ver := range []int64{17000, prev, 19000} {
		ver := ver
		mk("nns", ver, func(l *legacy) {
			tr := &c16NNSTruth{tlds: map[string]bool{"com": true, "org": true}, recs: map[string][]c16Rec{}}
			l.nns = tr
			rip := func(s string) []byte {
				h := hash.RipeMD160([]byte(s)).BytesBE()
				r.h160[s] = h
				return h
			}
			old := ver < 18000
			bal := map[string]int64{}
			state := func(name string, owner []byte, expire int64, tld bool) {
				var ow stackitem.Item = stackitem.Null{}
				if owner != nil {
					ow = siBytes(owner)
				}
				key := cat([]byte{0x21}, rip(name))
				val := ser(t, siStruct(ow, siBytes([]byte(name)), siInt(expire), stackitem.Null{}))
				if tld && old {
					l.put(key, val)
					atk := cat([]byte{0x02}, owner, rip(name))
					l.put(atk, []byte(name))
					l.gone = append(l.gone, string(atk))
					bal[string(owner)]++
					owner = nil
				} else {
					l.keep(key, val)
					if owner != nil {
						l.keep(cat([]byte{0x02}, owner, rip(name)), []byte(name))
						bal[string(owner)]++
					}
				}
				if tld {
					l.keep(cat([]byte{0x20}, []byte(name)), []byte{0})
				}
				tr.names = append(tr.names, c16NNSName{name: name, owner: owner, expire: expire})
				tr.supply++
			}
			var tldOwner1, tldOwner2 []byte
			if old {
				tldOwner1, tldOwner2 = p.acc[1], p.acc[0]
			}
			state("com", tldOwner1, c16Expired, true) // expired TLD
			state("org", tldOwner2, 1<<50, true)
			state("shop.com", p.acc[1], 1<<50, false) // live child of the expired TLD
			state("x.org", p.acc[2], c16Expired, false)
			state("deep.x.org", p.acc[1], 1<<50, false) // live child of an expired name
			state("y.org", p.acc[2], 1<<50, false)
			for o, n := range bal {
				if old && (o == string(p.acc[1]) || o == string(p.acc[0])) {
					l.put(cat([]byte{0x01}, []byte(o)), intBytes(n))
				} else {
					l.keep(cat([]byte{0x01}, []byte(o)), intBytes(n))
				}
			}
			l.keep([]byte{0x00}, intBytes(tr.supply))
			l.keep([]byte{0x10}, intBytes(10_0000_0000))
			for _, n := range []string{"shop.com", "x.org", "y.org"} {
				rk := cat([]byte{0x22}, rip(n), rip(n), []byte{16, 0})
				l.keep(rk, ser(t, siStruct(siBytes([]byte(n)), siInt(16), siBytes([]byte("txt of "+n)), siInt(0))))
				tr.recs[n] = []c16Rec{{16, 0, "txt of " + n}}
			}
			tr.query = []string{"free.com", "free.org"}
			l.shape("corpus:expired-tld-and-names")
		})
	}
	// data shapes
	mk("proxy", prev, func(l *legacy) { l.Data = c16Arr(); l.ExpectFault = "empty data"; l.shape("corpus:data-empty") })
	mk("proxy", prev, func(l *legacy) { l.Data = c16Null; l.ExpectFault = "null data"; l.shape("corpus:data-null") })
	mk("proxy", prev, func(l *legacy) {
		l.Data = c16Arr(c16Arr())
		l.ExpectFault = "array as version"
		l.shape("corpus:data-array-version")
	})
	mk("proxy", 1, func(l *legacy) { l.Data = c16Arr(c16Bool(true)); l.shape("corpus:data-bool-version") })
	mk("processing", prev, func(l *legacy) {
		l.Data = c16Arr(c16Bytes(bytes.Repeat([]byte{1}, 33)))
		l.ExpectFault = "33-byte version"
		l.shape("corpus:data-long-version")
	})
	return out
}

func (r *c16Run) partB() {
	prev, ver := int64(common.PrevVersion), int64(common.Version)
	coq := map[string]string{}
	for _, c := range c16Contracts {
		coq[c.Name] = c.Coq
	}
	for _, l := range r.corpus() {
		l := l
		r.guard("migration corpus: "+l.Contract+" "+strings.Join(l.Shape, ","), func() { r.runLegacy(l, coq[l.Contract]) })
	}
	inRange := []int64{prev, prev + 1, 15999, 16000, 16999, 17000, 17999, 18000, 18999, 19000, 19500, ver - 1}
	outRange := []int64{prev - 1, ver, ver + 1, 0, -1, 15000}
	plan := []struct {
		c string
		n int
	}{{"balance", 30}, {"container", 30}, {"netmap", 30}, {"nns", 24}, {"neofsid", 10}, {"audit", 8}, {"reputation", 8}, {"alphabet", 10}, {"neofs", 3}, {"processing", 3}, {"proxy", 3}}
	mult := 1
	if Tier() == "thorough" {
		mult = 10
	}
	for ci, pl := range plan {
		for i := 0; i < pl.n*mult; i++ {
			rr := Rng(int64(100000*(ci+1) + i))
			v := pick(rr, inRange)
			if pl.c == "netmap" && rr.Intn(2) == 0 {
				v = pick(rr, []int64{prev, 15999, 16000})
			}
			if pl.c == "nns" && rr.Intn(2) == 0 {
				v = pick(rr, []int64{prev, 17000, 17999})
			}
			if rr.Intn(8) == 0 {
				v = pick(rr, outRange)
			}
			c, seedSalt := pl.c, 100000*(ci+1)+i
			r.guard(fmt.Sprintf("migration of a generated %s storage (version %d, generator salt %d)", c, v, seedSalt),
				func() { r.runLegacy(r.gen(rr, c, v), coq[c]) })
		}
	}
	// updates TO a later release (common.Version bumped in a scratch copy of the
	// tree) FROM the tree's own version and its neighbours: every version-gated
	// or ungated migration step must treat "deployed at the current version"
	// as the tree's own gates say
	for bi, nv := range []int64{ver + 1, ver + 1000} {
		steps := []struct {
			c    string
			from int64
		}{{"container", ver}, {"container", nv - 1}, {"container", ver - 1}, {"balance", ver}, {"balance", ver - 1},
			{"netmap", ver}, {"netmap", 18999}, {"nns", ver}, {"nns", 17999}, {"neofsid", ver}, {"audit", nv - 1}, {"reputation", ver},
			{"alphabet", ver}, {"processing", ver}, {"proxy", nv}, {"neofs", prev - 1}}
		for si, st := range steps {
			for k := 0; k < mult; k++ {
				rr := Rng(int64(7_000_000 + 100_000*bi + 1000*si + k))
				c, from, nv := st.c, st.from, nv
				r.guard(fmt.Sprintf("migration of a generated %s storage from version %d to the bumped version %d", c, from, nv), func() {
					l := r.gen(rr, c, from)
					l.NewVer = nv
					l.shape(fmt.Sprintf("to-bumped-version:+%d", nv-ver))
					r.runLegacy(l, coq[c])
				})
			}
		}
	}
}

// ---------------------------------------------------------------------------
// Part C: the Alphabet contract's GAS distribution (0.16 -> 0.17 switch)

type alphaCase struct {
	Name      string   `json:"name"`
	Gas       int64    `json:"gas"`
	SN        int      `json:"storage_nodes"`
	IR        int      `json:"inner_ring"`
	ProxyArg  []byte   `json:"proxy_arg"`
	NetmapArg string   `json:"netmap_arg"` // "hash", "empty", "bad"
	ShortBlob bool     `json:"short_blob,omitempty"`
	BadIRKey  bool     `json:"bad_ir_key,omitempty"`
	Ballots   string   `json:"ballots"` // "absent", "expired", "pending"
	Halt      bool     `json:"halt"`
	Fault     string   `json:"fault,omitempty"`
	Transfers []string `json:"transfers,omitempty"`
}

func (r *c16Run) runAlphabetGas(ac *alphaCase, acases *[]string, stdaccRows map[string]string) {
	t := r.t
	v := NewEnv(t)
	rr := Rng(int64(900000 + len(*acases)))
	sender := v.E.Validator.ScriptHash()
	nw := c16Compile(t, sender, RepoDir, "alphabet")
	stub := r.stubFor(v, nw, "alphabet")
	v.E.DeployContract(t, stub, nil)
	h := stub.Hash
	nm := v.CompileHelper("c16netmap")
	nmc := *nm
	nmc.Hash = state.CreateContractHash(sender, nm.NEF.Checksum, nm.Manifest.Name)
	v.E.DeployContract(t, &nmc, nil)

	var nodes []stackitem.Item
	var nodesCoq []string
	regKey := func(a *wallet.Account) []byte {
		pk := a.PublicKey().Bytes()
		stdaccRows[r.w.pool.Ref(pk)] = r.w.pool.Ref(a.ScriptHash().BytesBE())
		return pk
	}
	for i := 0; i < ac.SN; i++ {
		pk := regKey(c16Account(t, rr))
		blob := cat([]byte{0x0a, 0x21}, pk, []byte{1, 2, 3})
		if ac.ShortBlob && i == ac.SN-1 {
			blob = blob[:34]
		}
		nodes = append(nodes, siStruct(siBytes(blob), siInt(1)))
		nodesCoq = append(nodesCoq, fmt.Sprintf("IStruct [IBytes %s; IInt 1%%Z]", r.w.pool.Ref(blob)))
	}
	var irs []stackitem.Item
	var irKeys [][]byte
	for i := 0; i < ac.IR; i++ {
		pk := regKey(c16Account(t, rr))
		if ac.BadIRKey && i == 0 {
			pk = bytes.Repeat([]byte{7}, 33)
		}
		irs = append(irs, siStruct(siBytes(pk)))
		irKeys = append(irKeys, pk)
	}
	require.True(t, v.Invoke(nil, nmc.Hash, "set", "netmap", ser(t, stackitem.NewArray(nodes))).Halt)
	require.True(t, v.Invoke(nil, nmc.Hash, "set", "innerRingList", ser(t, stackitem.NewArray(irs))).Halt)

	kv := map[string][]byte{"notary": {1}, "netmapScriptHash": nmc.Hash.BytesBE(), "name": []byte("Az"), "index": {}, "threshold": {7}}
	switch ac.Ballots {
	case "expired":
		kv["ballots"] = ser(t, siArray(siStruct(siBytes([]byte{1}), siArray(), siInt(c16Height-21))))
	case "pending":
		kv["ballots"] = ser(t, siArray(siStruct(siBytes([]byte{1}), siArray(), siInt(c16Height-20))))
	}
	var flat []any
	for _, x := range c16Dump(func() map[string]string {
		m := map[string]string{}
		for k, b := range kv {
			m[k] = string(b)
		}
		return m
	}()) {
		flat = append(flat, x.K, x.V)
	}
	require.True(t, v.Invoke(nil, h, "putMany", flat).Halt)
	gasH, err := v.BC.GetNativeContractScriptHash(nativenames.Gas)
	require.NoError(t, err)
	if ac.Gas > 0 {
		res := v.Invoke(nil, gasH, "transfer", sender, h, ac.Gas, nil)
		require.True(t, res.Halt, res.Fault)
	}
	for int(v.BC.BlockHeight()) < c16Height {
		v.E.AddNewBlock(t)
	}
	require.Equal(t, c16Height, int(v.BC.BlockHeight()))
	var nmArg []byte
	switch ac.NetmapArg {
	case "hash":
		nmArg = nmc.Hash.BytesBE()
	case "bad":
		nmArg = []byte{1, 2, 3}
	}
	data := c16Arr(c16Bool(false), c16Bytes(nmArg), c16Bytes(ac.ProxyArg), c16Bytes([]byte("Az")), c16Int(16000))
	gasBefore := v.ReadInt(gasH, "balanceOf", h).Int64()
	require.Equal(t, ac.Gas, gasBefore)
	before := c16Dump(v.StorageDump(h))
	nb, mb := c16NefManifest(t, nw)
	res := v.Invoke(nil, h, "update", nb, mb, data.arg())
	after := c16Dump(v.StorageDump(h))
	ac.Halt, ac.Fault = res.Halt, shortFault(res.Fault)
	var trs []string
	total := int64(0)
	for _, ev := range res.Events {
		if ev.ScriptHash != gasH || ev.Name != "Transfer" {
			continue
		}
		it := ev.Item.Value().([]stackitem.Item)
		if !bytes.Equal(ItemBytes(it[0]), h.BytesBE()) {
			continue
		}
		amt := ItemInt(it[2])
		total += amt.Int64()
		trs = append(trs, fmt.Sprintf("(%s, %s)", r.w.pool.Ref(ItemBytes(it[1])), ZLit(amt)))
		ac.Transfers = append(ac.Transfers, fmt.Sprintf("%x:%v", ItemBytes(it[1]), amt))
	}
	// Go monitor: the distribution never exceeds 3/4 of the balance, storage
	// unchanged on fault, the notary flag is gone and the proxy stored on halt
	bad := func(f string, a ...any) {
		r.st.AddViolation("C16 alphabet GAS distribution: "+fmt.Sprintf(f, a...), ac)
	}
	if !res.Halt && !c16DumpEq(before, after) {
		bad("faulted update changed the storage")
	}
	if res.Halt {
		if total > ac.Gas*3/4 {
			bad("distributed %d of %d GAS (more than 3/4)", total, ac.Gas)
		}
		if got := v.ReadInt(gasH, "balanceOf", h).Int64(); got != ac.Gas-total {
			bad("GAS balance after = %d, expected %d", got, ac.Gas-total)
		}
		am := map[string][]byte{}
		for _, x := range after {
			am[string(x.K)] = x.V
		}
		if _, ok := am["notary"]; ok {
			bad("notary flag survived")
		}
		if len(ac.ProxyArg) == 20 && !bytes.Equal(am["proxyScriptHash"], ac.ProxyArg) {
			bad("proxy hash not stored")
		}
	}
	var irRefs []string
	for _, k := range irKeys {
		irRefs = append(irRefs, r.w.pool.Ref(k))
	}
	*acases = append(*acases, fmt.Sprintf("mkACase (env_alphabet %d%%Z %d%%Z %s %s %s) (%s) %s %s %s %s",
		c16Height, ac.Gas, r.w.pool.Ref(nmc.Hash.BytesBE()), ListLit(nodesCoq), ListLit(irRefs), data.coq(r.w.pool),
		r.w.dump(before), BoolLit(res.Halt), r.w.dump(after), ListLit(trs)))
	r.st.Evaluations++
	r.st.Histories++
	r.st.OpHistogram["alphabet-gas"]++
	oc := "halt"
	if !res.Halt {
		oc = "fault:" + ac.Fault
	}
	r.st.OutcomeHistogram["alphabet-gas/"+oc]++
	r.distinct["alpha|"+ac.Name+"|"+oc] = true
}

func (r *c16Run) partC() {
	r.roll(false)
	px := r.pools.acc[7]
	cases := []*alphaCase{
		{Name: "2sn-1ir", Gas: 10_0000_0000, SN: 2, IR: 1, ProxyArg: px, NetmapArg: "hash", Ballots: "expired"},
		{Name: "notary-cap", Gas: 1000_0000_0000, SN: 1, IR: 0, ProxyArg: px, NetmapArg: "hash", Ballots: "absent"},
		{Name: "odd-amounts", Gas: 1_0000_0007, SN: 1, IR: 2, ProxyArg: px, NetmapArg: "empty", Ballots: "absent"},
		{Name: "tiny", Gas: 3, SN: 2, IR: 1, ProxyArg: px, NetmapArg: "hash", Ballots: "absent"},
		{Name: "no-gas", Gas: 0, SN: 1, IR: 1, ProxyArg: px, NetmapArg: "hash", Ballots: "absent"},
		{Name: "one-unit", Gas: 1, SN: 1, IR: 1, ProxyArg: px, NetmapArg: "hash", Ballots: "absent"},
		{Name: "nobody", Gas: 10_0000_0000, SN: 0, IR: 0, ProxyArg: px, NetmapArg: "hash", Ballots: "absent"},
		{Name: "pending", Gas: 10_0000_0000, SN: 1, IR: 1, ProxyArg: px, NetmapArg: "hash", Ballots: "pending"},
		{Name: "proxy-unresolvable", Gas: 10_0000_0000, SN: 1, IR: 1, ProxyArg: nil, NetmapArg: "hash", Ballots: "absent"},
		{Name: "proxy-19-bytes", Gas: 10_0000_0000, SN: 1, IR: 1, ProxyArg: px[:19], NetmapArg: "hash", Ballots: "absent"},
		{Name: "netmap-3-bytes", Gas: 10_0000_0000, SN: 1, IR: 1, ProxyArg: px, NetmapArg: "bad", Ballots: "absent"},
		{Name: "short-blob", Gas: 10_0000_0000, SN: 2, IR: 1, ProxyArg: px, NetmapArg: "hash", ShortBlob: true, Ballots: "absent"},
		{Name: "bad-ir-key", Gas: 10_0000_0000, SN: 1, IR: 2, ProxyArg: px, NetmapArg: "hash", BadIRKey: true, Ballots: "absent"},
	}
	for _, ac := range cases {
		ac := ac
		r.guard("alphabet GAS distribution: "+ac.Name, func() { r.runAlphabetGas(ac, &r.acases, r.stdaccRows) })
		if ac.Name == "2sn-1ir" {
			r.st.Samples = append(r.st.Samples, ac)
		}
	}
}

// ---------------------------------------------------------------------------
// Part A': the designation boundary.  neofs.Update and processing.Update are
// gated by roles.GetDesignatedByRole(NeoFSAlphabet, CurrentIndex()+1), i.e. by
// the Alphabet in force for the block the transaction executes in (these are
// the only index-dependent reads on the upgrade path: common.InnerRingNodes
// and processing.Update; the nine committee-gated contracts read
// neo.GetCommittee(), which has no index).  Alphabet A is in force, B (which
// shares three keys with A) is designated by a transaction of block N, and
// the updates execute in block N (after the designation, same block), N+1 or
// N+2 under {stranger, committee, majority of the common keys, A majority,
// B majority}.  Expected: A gates in block N, B from N+1 on.

type desCase struct {
	Variant  string   `json:"variant"`
	Contract string   `json:"contract"`
	Signers  string   `json:"signers"`
	DesBlock uint32   `json:"designation_of_B_in_block"`
	Block    uint32   `json:"update_in_block"`
	InForce  string   `json:"alphabet_in_force"`
	Halt     bool     `json:"halt"`
	Fault    string   `json:"fault,omitempty"`
	History  []string `json:"history"`
}

// scratchAt returns the root of a tree whose contracts carry version v: the
// tree itself for its own version, a patched scratch copy otherwise ("" when
// the tree cannot be patched; the reason is recorded once in Stats.Extra).
func (r *c16Run) scratchAt(v int64) string {
	if v == int64(common.Version) {
		return RepoDir
	}
	if r.scratch == nil {
		r.scratch = map[int64]string{}
	}
	if d, ok := r.scratch[v]; ok {
		return d
	}
	d, err := c16Scratch(r.t, v)
	if err == nil {
		// the patched constant must be what the compiled contract reports
		err = r.probeVersion(d, v)
	}
	if err != nil {
		d = ""
		if _, seen := r.st.Extra["version_patching"]; !seen || r.st.Extra["version_patching"] == "go/ast" {
			r.st.Extra["version_patching"] = "unavailable: " + err.Error()
		}
		r.st.OutcomeHistogram["gate/skipped-version-cannot-be-patched"]++
	} else if _, seen := r.st.Extra["version_patching"]; !seen {
		r.st.Extra["version_patching"] = "go/ast"
	}
	r.scratch[v] = d
	return d
}

// probeVersion deploys the patched proxy contract on a throw-away chain and
// reads version().
func (r *c16Run) probeVersion(root string, v int64) (err error) {
	defer func() {
		if x := recover(); x != nil {
			err = fmt.Errorf("patched tree does not build or deploy: %v", x)
		}
	}()
	e := NewEnv(r.t)
	c := c16Compile(r.t, e.E.Validator.ScriptHash(), root, "proxy")
	e.E.DeployContract(r.t, c, nil)
	if got := e.ReadInt(c.Hash, "version").Int64(); got != v {
		return fmt.Errorf("patched contract reports version %d, wanted %d", got, v)
	}
	return nil
}

// guard runs one scenario; a failed assertion inside (r.t is a c13TB: it
// panics instead of ending the Go test) is recorded as a violation with the
// scenario's description, and the remaining scenarios still run.
func (r *c16Run) guard(name string, f func()) {
	defer func() {
		if x := recover(); x != nil {
			msg := fmt.Sprint(x)
			if a, ok := x.(c13Abort); ok {
				msg = a.msg
			}
			r.st.OutcomeHistogram["scenario-aborted"]++
			r.st.AddViolation("C16 scenario could not be completed ("+name+"): "+msg, map[string]any{"scenario": name})
		}
	}()
	f()
}

func (r *c16Run) designationSweep(variant string) {
	t := r.t
	r.roll(false)
	prev := int64(common.PrevVersion)
	root := r.scratchAt(prev)
	if root == "" {
		return
	}
	g := newGateChain(t, prev, root, true)
	rr := Rng(7700 + int64(len(variant)))
	alphaA := g.alphabet
	alphaB := append([]*wallet.Account{}, alphaA[:3]...)
	for i := 0; i < 4; i++ {
		alphaB = append(alphaB, c16Account(t, rr))
	}
	sg := map[string]neotest.Signer{
		"stranger": g.signers["stranger"], "committee4of6": g.signers["committee4of6"],
		"A4of7": g.signers["alphabet4of7"], "B4of7": c16MultiSigner(t, 4, alphaB), "AandB2of3": c16MultiSigner(t, 2, alphaA[:3]),
	}
	for i := 0; i < 2+rr.Intn(3); i++ {
		g.E.AddNewBlock(t)
	}
	rm, err := g.BC.GetNativeContractScriptHash(nativenames.Designation)
	require.NoError(t, err)
	desTx := g.PrepareTx([]neotest.Signer{g.E.Validator, g.E.Committee}, rm, "designateAsRole", int64(noderoles.NeoFSAlphabet), pubBytes(alphaB))
	keysA := g.inForce(g.BC.BlockHeight() + 1)
	var desBlock uint32
	addDes := func(b uint32) {
		desBlock = b
		require.True(t, g.ResultOf(desTx, nil).Halt)
	}
	type pending struct {
		c       c16Contract
		set     string
		tx      interface{ Hash() util.Uint256 }
		signers []neotest.Signer
	}
	var txs []pending
	mkUpdates := func() []any {
		var raw []any
		for _, c := range c16Contracts {
			if c.Name != "neofs" && c.Name != "processing" {
				continue
			}
			nw := r.tree[c.Name]
			if nw == nil {
				nw = c16Compile(t, g.E.Validator.ScriptHash(), RepoDir, c.Name)
				r.tree[c.Name] = nw
			}
			nb, mb := c16NefManifest(t, nw)
			// the majority that must pass comes last: only one update of a contract can halt
			order := []string{"stranger", "committee4of6", "AandB2of3", "A4of7", "B4of7"}
			if variant == "same-block" {
				order = []string{"stranger", "committee4of6", "AandB2of3", "B4of7", "A4of7"}
			}
			for _, set := range order {
				ss := []neotest.Signer{g.E.Validator, sg[set]}
				tx := g.PrepareTx(ss, g.hashes[c.Name], "update", nb, mb, nil)
				txs = append(txs, pending{c, set, tx, ss})
				raw = append(raw, tx)
			}
		}
		return raw
	}
	before := map[string][]c16KV{}
	snap := func() {
		for _, n := range []string{"neofs", "processing"} {
			before[n] = c16Dump(g.StorageDump(g.hashes[n]))
		}
	}
	var updBlock uint32
	switch variant {
	case "same-block":
		snap()
		raw := mkUpdates()
		all := []*transaction.Transaction{desTx}
		for _, x := range raw {
			all = append(all, x.(*transaction.Transaction))
		}
		b := g.E.AddNewBlock(t, all...)
		updBlock = b.Index
		addDes(b.Index)
	default:
		b := g.E.AddNewBlock(t, desTx)
		addDes(b.Index)
		if variant == "two-blocks-later" {
			g.E.AddNewBlock(t)
		}
		snap()
		raw := mkUpdates()
		var all []*transaction.Transaction
		for _, x := range raw {
			all = append(all, x.(*transaction.Transaction))
		}
		updBlock = g.E.AddNewBlock(t, all...).Index
	}
	g.desEvents = append(g.desEvents, c16Des{Eff: int64(desBlock) + 1, Keys: g.designatedNow()})
	keysB := g.desEvents[len(g.desEvents)-1].Keys
	require.NotEqual(t, keysA, keysB)
	n := len(g.comKeys)
	r.msRow(n/2+1, g.comKeys, c16MultisigAddr(t, n/2+1, keysOf(t, g.comKeys)))
	r.msRow(4, keysA, c16MultisigAddr(t, 4, keysOf(t, keysA)))
	r.msRow(4, keysB, c16MultisigAddr(t, 4, keysOf(t, keysB)))
	require.Equal(t, sg["A4of7"].ScriptHash().BytesBE(), c16MultisigAddr(t, 4, keysOf(t, keysA)))
	require.Equal(t, sg["B4of7"].ScriptHash().BytesBE(), c16MultisigAddr(t, 4, keysOf(t, keysB)))

	force := g.inForce(updBlock)
	forceName := "A"
	if fmt.Sprint(force) == fmt.Sprint(keysB) {
		forceName = "B"
	}
	gateAddr := c16MultisigAddr(t, len(force)/2+1, keysOf(t, force))
	history := []string{
		fmt.Sprintf("designateAsRole(NeoFSAlphabet, A) in force from block %d", g.desEvents[0].Eff),
		fmt.Sprintf("designateAsRole(NeoFSAlphabet, B) by a transaction of block %d (in force from block %d; B shares 3 of 7 keys with A)", desBlock, desBlock+1),
		fmt.Sprintf("update(nef, manifest, nil) of neofs and processing (deployed at version %d) in block %d under each signer set", prev, updBlock),
	}
	cur := map[string]int64{"neofs": prev, "processing": prev}
	for _, p := range txs {
		aer := g.E.GetTxExecResult(t, p.tx.Hash())
		halt := aer.VMState == vmstate.Halt
		h := g.hashes[p.c.Name]
		bf := before[p.c.Name]
		af, ver := bf, cur[p.c.Name]
		if halt {
			af = c16Dump(g.StorageDump(h))
			ver = g.ReadInt(h, "version").Int64()
		}
		dc := desCase{Variant: variant, Contract: p.c.Name, Signers: p.set, DesBlock: desBlock, Block: updBlock, InForce: forceName,
			Halt: halt, Fault: shortFault(aer.FaultException), History: history}
		hasWit := false
		var wit [][]byte
		for _, s := range p.signers {
			wit = append(wit, s.ScriptHash().BytesBE())
			hasWit = hasWit || bytes.Equal(s.ScriptHash().BytesBE(), gateAddr)
		}
		if halt && !hasWit {
			r.st.AddViolation("C16_gate: update halted without the witness of the NeoFS Alphabet in force for the executing block (designation boundary)", dc)
		}
		if !halt && hasWit {
			r.st.AddViolation("C16_gate (designation boundary): the majority of the Alphabet in force for the executing block was refused: "+aer.FaultException, dc)
		}
		r.w.cases = append(r.w.cases, fmt.Sprintf("mkCase (OUpdate %s %s (%s) true INull) %s %s %s %s",
			p.c.Coq, ZI(cur[p.c.Name]), r.envCoq(updBlock-1, g.comKeys, g.desEvents, wit),
			r.w.dump(bf), BoolLit(halt), r.w.dump(af), ZI(ver)))
		if halt {
			cur[p.c.Name] = ver
			before[p.c.Name] = af
		}
		r.st.Evaluations++
		r.st.OpHistogram["update-at-designation-boundary/"+p.c.Name]++
		oc := "halt"
		if !halt {
			oc = "fault:" + dc.Fault
		}
		r.st.OutcomeHistogram["designation/"+variant+"/"+p.set+"/"+oc]++
		r.distinct[fmt.Sprintf("des|%s|%s|%s|%s", variant, p.c.Name, p.set, oc)] = true
		if variant == "next-block" && p.c.Name == "processing" && (p.set == "A4of7" || p.set == "B4of7") {
			r.st.Samples = append(r.st.Samples, dc)
		}
	}
	r.st.Histories++
}

// ---------------------------------------------------------------------------
// Part D: CheckVersion on a grid of version numbers.  The check lives in the
// NEW code's _deploy, so no patched build is needed: the injector stub (empty
// storage) is updated to the tree's contract with data = [v].  The grid is
// built from the COMPONENTS (major, minor, patch) of both bounds: for each
// component the values c-1, c, c+1 (clipped at 0), 0 and 999.  Quick tier:
// every single-component deviation from each bound plus a pairwise covering of
// two-component deviations; thorough tier: the full products.  Plus negative,
// huge and boundary numbers.  One chain is reused as long as the updates
// fault (the stub stays in place).

func c16VersionGrid(prev, ver int64, full bool) []int64 {
	seen := map[int64]bool{}
	var out []int64
	add := func(v int64) {
		if !seen[v] {
			seen[v] = true
			out = append(out, v)
		}
	}
	for _, b := range []int64{prev, ver} {
		comp := [3]int64{b / 1_000_000, b / 1_000 % 1_000, b % 1_000}
		var alts [3][]int64
		for i, c := range comp {
			for _, a := range []int64{c - 1, c + 1, 0, 999} {
				if a >= 0 && a != c {
					dup := false
					for _, x := range alts[i] {
						dup = dup || x == a
					}
					if !dup {
						alts[i] = append(alts[i], a)
					}
				}
			}
		}
		num := func(c [3]int64) int64 { return c[0]*1_000_000 + c[1]*1_000 + c[2] }
		add(num(comp))
		if full {
			for _, x := range append([]int64{comp[0]}, alts[0]...) {
				for _, y := range append([]int64{comp[1]}, alts[1]...) {
					for _, z := range append([]int64{comp[2]}, alts[2]...) {
						add(num([3]int64{x, y, z}))
					}
				}
			}
			continue
		}
		for i := 0; i < 3; i++ { // single-component deviations
			for _, a := range alts[i] {
				c := comp
				c[i] = a
				add(num(c))
			}
		}
		for i := 0; i < 3; i++ { // pairwise covering of two-component deviations
			for j := i + 1; j < 3; j++ {
				for k := range alts[i] {
					c := comp
					c[i] = alts[i][k]
					c[j] = alts[j][(k+1)%len(alts[j])]
					add(num(c))
					c[j] = alts[j][(k+2)%len(alts[j])]
					add(num(c))
				}
			}
		}
	}
	for _, v := range []int64{-1, -prev, -ver, -1_000_000_000, 1, 1_000_000_000, 1_000_000_000 + prev, 1_000_000_000 + ver - 1,
		1<<31 - 1, 1 << 31, 1 << 32, 1<<32 + prev, 1<<62 + prev, prev + 1_000_000, ver - 1 + 1_000_000} {
		add(v)
	}
	return out
}

func (r *c16Run) partD() {
	t := r.t
	prev, ver := int64(common.PrevVersion), int64(common.Version)
	grid := c16VersionGrid(prev, ver, Tier() == "thorough")
	r.st.Extra["version_grid"] = len(grid)
	targets := []c16Contract{}
	for _, c := range c16Contracts {
		switch c.Name {
		case "alphabet", "netmap", "nns": // need arguments / legacy keys / are covered by part B
		default:
			targets = append(targets, c)
		}
	}
	var v *Env
	var h util.Uint160
	var target c16Contract
	var nb, mb []byte
	fresh := func(i int) {
		target = targets[i%len(targets)]
		v = NewEnv(t)
		nw := c16Compile(t, v.E.Validator.ScriptHash(), RepoDir, target.Name)
		stub := r.stubFor(v, nw, target.Name)
		v.E.DeployContract(t, stub, nil)
		h = stub.Hash
		nb, mb = c16NefManifest(t, nw)
	}
	for i, ver0 := range grid {
		i, ver0 := i, ver0
		r.guard(fmt.Sprintf("CheckVersion grid: update from version %d", ver0), func() {
			r.roll(false)
			if v == nil {
				fresh(i)
			}
			data := c16Arr(c16Int(ver0))
			res := v.Invoke(nil, h, "update", nb, mb, data.arg())
			after := c16Dump(v.StorageDump(h))
			inRange := prev <= ver0 && ver0 < ver
			rep := map[string]any{"contract": target.Name, "storage": "empty", "data": []int64{ver0}, "version": ver0,
				"halt": res.Halt, "fault": shortFault(res.Fault), "prev_version": prev, "new_version": ver}
			if res.Halt && !inRange {
				r.st.AddViolation(fmt.Sprintf("C16_gate: update of %s from unsupported version %d halted (supported: %d <= v < %d)", target.Name, ver0, prev, ver), rep)
			}
			if !res.Halt && inRange {
				r.st.AddViolation(fmt.Sprintf("C16_gate: update of %s from supported version %d faulted: %s", target.Name, ver0, res.Fault), rep)
			}
			if len(after) != 0 {
				r.st.AddViolation("C16 version grid: the empty storage is not empty after the update", rep)
			}
			verAfter := int64(-1)
			if res.Halt {
				verAfter = v.ReadInt(h, "version").Int64()
			}
			r.w.cases = append(r.w.cases, fmt.Sprintf("mkCase (OStub %s (env_basic %d%%Z [] [] []) true (%s)) [] %s [] %s",
				target.Coq, res.Height-1, data.coq(r.w.pool), BoolLit(res.Halt), ZI(verAfter)))
			r.st.Evaluations++
			r.st.OpHistogram["version-grid"]++
			oc := "halt"
			if !res.Halt {
				oc = "fault:" + shortFault(res.Fault)
			}
			r.st.OutcomeHistogram["version-grid/"+oc]++
			r.distinct[fmt.Sprintf("grid|%d|%s", ver0, oc)] = true
			if res.Halt {
				v = nil // the stub has become the real contract
			}
		})
	}
	r.st.Histories++
}
