package harness

import (
	"crypto/sha256"
	"encoding/json"
	"fmt"
	"math"
	"strings"

	"github.com/nspcc-dev/neo-go/pkg/util"
	"github.com/nspcc-dev/neo-go/pkg/vm/stackitem"
	"github.com/stretchr/testify/require"
)

// ---------------------------------------------------------------------------
// C03, part 2: the harness's copy of the requirement table and one argument
// builder per (method, argument variant).  A builder returns well-formed
// arguments — fresh on every call, so that a successful invocation does not
// make the next one fail for a reason unrelated to witnesses — and names the
// principal each positional argument designates.

func w3Table() map[string]*w3Req {
	alpha, committee := w3rq("RAlpha"), w3rq("RCommittee")
	voted := w3rq2("RNotaryOff", w3rq("RNeoFSMember"), alpha)
	t := map[string]*w3Req{}
	for _, c := range w3Contracts {
		t[w3MKey(c, "_deploy", 2)] = w3rq("RNever")
		t[w3MKey(c, "update", 3)] = committee
	}
	for _, c := range []string{"alphabet", "balance", "container", "neofs", "neofsid", "netmap", "nns", "reputation"} {
		t[w3MKey(c, "_initialize", 0)] = w3rq("RNever")
	}
	t["neofs.update/3"] = w3rq("RIRCommittee")
	t["processing.update/3"] = w3rq("RIRCommittee")

	t["alphabet.emit/0"] = w3rq("RAlphaKeyAt")
	t["alphabet.onNEP17Payment/3"] = w3rq2("ROr", w3rq("RCallerGas"), w3rq("RCallerNeo"))
	t["alphabet.vote/2"] = alpha

	t["audit.put/1"] = w3rqI("RIRMember", 0)

	for _, m := range []string{"burn/3", "lock/5", "mint/3", "newEpoch/1", "transferX/4"} {
		t["balance."+m] = alpha
	}
	t["balance.transfer/4"] = w3rqI("RAddr", 0)

	for _, m := range []string{"addNextEpochNodes/3", "commitContainerListUpdate/2", "delete/3", "newEpoch/1", "put/4", "put/5",
		"putNamed/6", "setEACL/4", "startContainerEstimation/1", "stopContainerEstimation/1"} {
		t["container."+m] = alpha
	}
	t["container.onNEP11Payment/4"] = w3rq("ROpen")
	t["container.putContainerSize/4"] = w3rqI("RKey", 3)
	t["container.submitObjectPut/2"] = w3rq("RArgSigs")

	t["neofs.alphabetUpdate/2"] = voted
	t["neofs.cheque/4"] = voted
	t["neofs.setConfig/3"] = voted
	t["neofs.bind/2"] = w3rqI("RAddr", 0)
	t["neofs.unbind/2"] = w3rqI("RAddr", 0)
	t["neofs.withdraw/2"] = w3rqI("RAddr", 0)
	t["neofs.innerRingCandidateAdd/1"] = w3rqI("RKey", 0)
	t["neofs.innerRingCandidateRemove/1"] = w3rq2("ROr", w3rqI("RKey", 0), w3rq2("RNotaryOff", w3rq("RNeoFSMember"), w3rq("RNeoFSAlpha")))
	t["neofs.onNEP17Payment/3"] = w3rq("RCallerGas")

	t["neofsid.addKey/2"] = alpha
	t["neofsid.removeKey/2"] = alpha

	for _, m := range []string{"addPeerIR/1", "deleteNode/1", "newEpoch/1", "setConfig/3", "subscribeForNewEpoch/1", "updateSnapshotCount/1", "updateStateIR/2"} {
		t["netmap."+m] = alpha
	}
	t["netmap.addNode/1"] = w3rq2("RAnd", w3rqIJ("RKeyField", 0, 2), alpha)
	t["netmap.addPeer/1"] = w3rq2("RAnd", w3rqIJ("RKeyOfBlob", 0, 2), alpha)
	t["netmap.updateState/2"] = w3rq2("RAnd", w3rqI("RKey", 1), alpha)
	t["netmap.lastEpochBlock/0"] = w3rq("ROpen")

	for _, m := range []string{"addRecord/3", "deleteRecords/2", "renew/2", "renew/1", "setRecord/4", "updateSOA/6"} {
		t["nns."+m] = w3rq("RNameAdmin")
	}
	t["nns.register/7"] = w3rq2("RAnd", w3rqI("RAddr", 1), w3rq2("ROr", w3rq("RShallow"), w3rq("RNameAdmin")))
	t["nns.registerTLD/6"] = committee
	t["nns.setPrice/1"] = committee
	t["nns.setAdmin/2"] = w3rq2("RAnd", w3rq2("ROr", w3rqI("RArgNull", 1), w3rqI("RAddr", 1)), w3rq("RNameOwner"))
	t["nns.transfer/3"] = w3rq("RNameOwner")

	t["processing.onNEP17Payment/3"] = w3rq("RCallerGas")
	t["proxy.onNEP17Payment/3"] = w3rq("RCallerGas")

	t["reputation.put/3"] = alpha
	t["reputation.version/0"] = w3rq("ROpen")
	return t
}

// ---- helpers used by the builders ----------------------------------------

func (w *w3World) epoch() int64 {
	return w.ReadInt(w.H["netmap"], "epoch").Int64()
}

func w3ID(tag string, i int) []byte {
	h := sha256.Sum256([]byte(fmt.Sprintf("verif-c03-id-%s-%d", tag, i)))
	return h[:]
}

func (w *w3World) nefManifest(name string) ([]byte, []byte) {
	c := w.C[name]
	nef, err := c.NEF.Bytes()
	require.NoError(w.T, err)
	m, err := json.Marshal(c.Manifest)
	require.NoError(w.T, err)
	return nef, m
}

// nnsState reads owner and admin of a domain from the chain (nil, nil when
// the name is missing, expired, or a committee-owned TLD).
func (w *w3World) nnsState(name string) (owner, admin *w3Princ) {
	resolve := func(it stackitem.Item) *w3Princ {
		b := ItemBytes(it)
		if len(b) != 20 {
			return nil
		}
		h, _ := util.Uint160DecodeBytesBE(b)
		if p, ok := w.byHash[h]; ok {
			return p
		}
		return &w3Princ{Name: "unknown:" + h.StringLE()[:8], Hash: h}
	}
	it, err := w.Read(w.H["nns"], "ownerOf", name)
	if err != nil {
		return nil, nil
	}
	owner = resolve(it)
	it, err = w.Read(w.H["nns"], "properties", name)
	if err != nil {
		return owner, nil
	}
	if m, ok := it.(*stackitem.Map); ok {
		for _, el := range m.Value().([]stackitem.MapElement) {
			if k, _ := el.Key.TryBytes(); string(k) == "admin" {
				admin = resolve(el.Value)
			}
		}
	}
	return owner, admin
}

// nnsFacts fills the state-dependent facts of an NNS call from the chain:
// owner and admin of the NameState the guard of that method reads.
func (w *w3World) nnsFacts(method string, c *w3Call) {
	c.Owner, c.Admin, c.Shallow = nil, nil, false
	str := func(i int) string {
		if i >= len(c.Args) {
			return ""
		}
		switch x := c.Args[i].(type) {
		case string:
			return x
		case []byte:
			return string(x)
		}
		return ""
	}
	switch method {
	case "registerTLD", "setPrice", "update", "_deploy", "_initialize":
	case "register":
		frags := strings.Split(str(0), ".")
		c.Shallow = len(frags) == 2
		if len(frags) > 2 {
			c.Owner, c.Admin = w.nnsState(strings.Join(frags[1:], "."))
		}
	case "transfer":
		c.Owner, c.Admin = w.nnsState(str(1))
	case "renew", "updateSOA", "setAdmin":
		c.Owner, c.Admin = w.nnsState(str(0))
	default:
		// record methods address the longest registered suffix (tokenIDFromName)
		frags := strings.Split(str(0), ".")
		for i := 0; i+1 < len(frags); i++ {
			if o, a := w.nnsState(strings.Join(frags[i:], ".")); o != nil {
				c.Owner, c.Admin = o, a
				return
			}
		}
	}
}

func w3AuditBlob(epoch int64, cid, key []byte) []byte {
	b := []byte{0x0a, 0x00, 0x11}
	e := make([]byte, 8)
	for i := 0; i < 8; i++ {
		e[i] = byte(epoch >> (8 * i))
	}
	b = append(b, e...)
	b = append(b, 0x1a, byte(2+len(cid)), 0x0a, byte(len(cid)))
	b = append(b, cid...)
	b = append(b, 0x22, byte(len(key)))
	b = append(b, key...)
	return b
}

func w3EACL(cid []byte, i int) []byte {
	b := []byte{0x0a, 0x00, 0x12, 0x22, 0x0a, 0x20}
	b = append(b, cid...)
	return append(b, byte(i), byte(i>>8))
}

func (w *w3World) metaInfo(cid []byte, i int) []byte {
	m := stackitem.NewMapWithValue([]stackitem.MapElement{
		{Key: stackitem.Make("network"), Value: stackitem.Make(int64(w.BC.GetConfig().Magic))},
		{Key: stackitem.Make("cid"), Value: stackitem.Make(cid)},
		{Key: stackitem.Make("oid"), Value: stackitem.Make(w3ID("oid", i))},
		{Key: stackitem.Make("size"), Value: stackitem.Make(123)},
		{Key: stackitem.Make("deleted"), Value: stackitem.Make([]any{w3ID("del", i)})},
		{Key: stackitem.Make("locked"), Value: stackitem.Make([]any{w3ID("lock", i)})},
		{Key: stackitem.Make("validuntil"), Value: stackitem.Make(math.MaxInt)},
	})
	raw, err := stackitem.Serialize(m)
	require.NoError(w.T, err)
	return raw
}

func w3np(n int) []*w3Princ { return make([]*w3Princ, n) }

// ---- the variants ----------------------------------------------------------

func w3Variants() []*w3Variant {
	var vs []*w3Variant
	add := func(c, m string, arity int, label string, b func(w *w3World, i int) *w3Call) {
		vs = append(vs, &w3Variant{C: c, M: m, Arity: arity, Label: label, Build: b})
	}
	simple := func(args func(w *w3World, i int) []any) func(w *w3World, i int) *w3Call {
		return func(w *w3World, i int) *w3Call {
			a := args(w, i)
			return &w3Call{Args: a, Princ: w3np(len(a))}
		}
	}

	// -- common to all contracts: _deploy, _initialize, update
	for _, c := range append(append([]string{}, w3Contracts...), "neofs_nd") {
		c := c
		src := c
		if c == "neofs_nd" {
			src = "neofs"
		}
		add(c, "_deploy", 2, "fresh deployment arguments", simple(func(w *w3World, i int) []any { return []any{[]any{false}, false} }))
		add(c, "_deploy", 2, "as update", simple(func(w *w3World, i int) []any { return []any{[]any{int64(19_000)}, true} }))
		switch src {
		case "audit", "processing", "proxy":
		default:
			add(c, "_initialize", 0, "", simple(func(w *w3World, i int) []any { return nil }))
		}
		add(c, "update", 3, "same NEF and manifest", func(w *w3World, i int) *w3Call {
			nef, m := w.nefManifest(src)
			if src == "nns" {
				return &w3Call{Args: []any{nef, string(m), nil}, Princ: w3np(3)}
			}
			return &w3Call{Args: []any{nef, m, nil}, Princ: w3np(3)}
		})
	}

	// -- alphabet
	for _, c := range []string{"alphabet", "alphabet_hi", "alphabet_last"} {
		lbl := map[string]string{"alphabet": "", "alphabet_hi": "instance whose index is not below the committee size", "alphabet_last": "instance with the last valid index"}[c]
		add(c, "emit", 0, lbl, simple(func(w *w3World, i int) []any { return nil }))
		add(c, "vote", 2, strings.TrimSpace("current epoch "+lbl), simple(func(w *w3World, i int) []any {
			return []any{w.epoch(), []any{w.princ("member0").Pub}}
		}))
	}
	for _, c := range []string{"alphabet", "neofs", "neofs_nd", "processing", "proxy"} {
		c := c
		add(c, "onNEP17Payment", 3, "direct invocation", func(w *w3World, i int) *w3Call {
			U := w.princ("U")
			return &w3Call{Args: []any{U.Hash, int64(1), nil}, Princ: []*w3Princ{U, nil, nil}}
		})
		add(c, "onNEP17Payment", 3, "GAS transfer to the contract", func(w *w3World, i int) *w3Call {
			U := w.princ("U")
			return &w3Call{Args: []any{U.Hash, int64(3), nil}, Princ: []*w3Princ{U, nil, nil}, Via: "gas", ViaFrom: U, ViaAmt: 3}
		})
	}
	add("alphabet", "onNEP17Payment", 3, "NEO transfer to the contract", func(w *w3World, i int) *w3Call {
		U := w.princ("U")
		return &w3Call{Args: []any{U.Hash, int64(1), nil}, Princ: []*w3Princ{U, nil, nil}, Via: "neo", ViaFrom: U, ViaAmt: 1}
	})

	// -- audit
	for _, who := range []string{"ir-member", "stranger"} {
		who := who
		add("audit", "put", 1, "result signed as "+who, func(w *w3World, i int) *w3Call {
			p := w.princ(who)
			return &w3Call{Args: []any{w3AuditBlob(int64(5+i%3), w3ID("acid", i), p.Pub)}, Princ: []*w3Princ{p}}
		})
	}

	// -- balance
	add("balance", "mint", 3, "", func(w *w3World, i int) *w3Call {
		U := w.princ("U")
		return &w3Call{Args: []any{U.Hash, int64(5), w3ID("mint", i)[:8]}, Princ: []*w3Princ{U, nil, nil}}
	})
	add("balance", "burn", 3, "", func(w *w3World, i int) *w3Call {
		U := w.princ("U")
		return &w3Call{Args: []any{U.Hash, int64(1), w3ID("burn", i)[:8]}, Princ: []*w3Princ{U, nil, nil}}
	})
	add("balance", "lock", 5, "", func(w *w3World, i int) *w3Call {
		U := w.princ("U")
		to, _ := util.Uint160DecodeBytesBE(w3ID("lockacc", i)[:20])
		return &w3Call{Args: []any{w3ID("lock", i)[:8], U.Hash, to, int64(1), w.epoch() + 100}, Princ: []*w3Princ{nil, U, nil, nil, nil}}
	})
	add("balance", "newEpoch", 1, "", simple(func(w *w3World, i int) []any { return []any{w.epoch() + 1} }))
	add("balance", "transfer", 4, "", func(w *w3World, i int) *w3Call {
		U, S := w.princ("U"), w.princ("stranger")
		return &w3Call{Args: []any{U.Hash, S.Hash, int64(1), nil}, Princ: []*w3Princ{U, S, nil, nil}}
	})
	add("balance", "transferX", 4, "", func(w *w3World, i int) *w3Call {
		U, S := w.princ("U"), w.princ("stranger")
		return &w3Call{Args: []any{U.Hash, S.Hash, int64(1), w3ID("tx", i)[:8]}, Princ: []*w3Princ{U, S, nil, nil}}
	})

	// -- container
	newCnt := func(w *w3World, i int) (v, sig, pub, tok []byte) {
		return w3ContainerValue(w.princ("CO").Hash, i), w3Fill(64, 1), w3Fill(33, 2), w3Fill(10, 3)
	}
	add("container", "put", 4, "", simple(func(w *w3World, i int) []any {
		v, s, p, t := newCnt(w, i)
		return []any{v, s, p, t}
	}))
	add("container", "put", 5, "meta on chain", simple(func(w *w3World, i int) []any {
		v, s, p, t := newCnt(w, i)
		return []any{v, s, p, t, true}
	}))
	add("container", "put", 4, "no session token (binds the key in NeoFSID)", simple(func(w *w3World, i int) []any {
		v, s, p, _ := newCnt(w, i)
		return []any{v, s, p, []byte{}}
	}))
	add("container", "putNamed", 6, "with alias", simple(func(w *w3World, i int) []any {
		v, s, p, t := newCnt(w, i)
		return []any{v, s, p, t, fmt.Sprintf("c03name%d", i), ""}
	}))
	add("container", "delete", 3, "existing container", func(w *w3World, i int) *w3Call {
		// make sure there is something to delete
		if it, err := w.Read(w.H["container"], "owner", w.cidX2); err != nil || len(ItemBytes(it)) == 0 {
			w.cidX2, _ = w.putContainer(false)
		}
		return &w3Call{Args: []any{w.cidX2, w3Fill(64, 1), w3Fill(10, 3)}, Princ: w3np(3)}
	})
	add("container", "setEACL", 4, "existing container", simple(func(w *w3World, i int) []any {
		return []any{w3EACL(w.cidX, i), w3Fill(64, 1), w3Fill(33, 2), w3Fill(10, 3)}
	}))
	add("container", "addNextEpochNodes", 3, "", simple(func(w *w3World, i int) []any {
		return []any{w3ID("placement", 0), int64(0), []any{w.princ("N1").Pub}}
	}))
	add("container", "commitContainerListUpdate", 2, "", simple(func(w *w3World, i int) []any {
		return []any{w3ID("placement", 0), []byte{byte(1 + i%3)}}
	}))
	add("container", "newEpoch", 1, "", simple(func(w *w3World, i int) []any { return []any{w.epoch() + 1} }))
	add("container", "startContainerEstimation", 1, "", simple(func(w *w3World, i int) []any { return []any{w.epoch()} }))
	add("container", "stopContainerEstimation", 1, "", simple(func(w *w3World, i int) []any { return []any{w.epoch()} }))
	add("container", "onNEP11Payment", 4, "", func(w *w3World, i int) *w3Call {
		U := w.princ("U")
		return &w3Call{Args: []any{U.Hash, int64(1), []byte("x.neofs"), nil}, Princ: []*w3Princ{U, nil, nil, nil}}
	})
	for _, who := range []string{"N0", "stranger"} {
		who := who
		add("container", "putContainerSize", 4, "announced by "+who, func(w *w3World, i int) *w3Call {
			p := w.princ(who)
			return &w3Call{Args: []any{w.epoch(), w.cidX, int64(100 + i), p.Pub}, Princ: []*w3Princ{nil, nil, nil, p}}
		})
	}
	for _, good := range []bool{false, true} {
		good := good
		label := "signature of a key outside the placement"
		if good {
			label = "signed by the placement node"
		}
		add("container", "submitObjectPut", 2, label, func(w *w3World, i int) *w3Call {
			meta := w.metaInfo(w.cidX, i)
			signer := w.princ("stranger")
			if good {
				signer = w.princ("N0")
			}
			sig := w3Key(signer.Name, 0).PrivateKey().Sign(meta)
			return &w3Call{Args: []any{meta, []any{[]any{sig}}}, Princ: w3np(2), SigsOK: good}
		})
	}

	// -- neofs (notary-enabled instance and notary-disabled instance)
	for _, c := range []string{"neofs", "neofs_nd"} {
		c := c
		add(c, "alphabetUpdate", 2, "same list", simple(func(w *w3World, i int) []any {
			return []any{w3ID("au"+c, i), w3Pubs(w.lk)}
		}))
		add(c, "setConfig", 3, "", simple(func(w *w3World, i int) []any {
			return []any{w3ID("sc"+c, i), []byte("C03Key"), []byte(fmt.Sprintf("value%d", i))}
		}))
		add(c, "cheque", 4, "", func(w *w3World, i int) *w3Call {
			U := w.princ("U")
			return &w3Call{Args: []any{w3ID("cheque"+c, i), U.Hash, int64(1), w3Fill(20, 9)}, Princ: []*w3Princ{nil, U, nil, nil}}
		})
		for _, m := range []string{"bind", "unbind"} {
			m := m
			add(c, m, 2, "", func(w *w3World, i int) *w3Call {
				U := w.princ("U")
				return &w3Call{Args: []any{U.Hash, []any{w.princ("stranger").Pub}}, Princ: []*w3Princ{U, nil}}
			})
		}
		add(c, "withdraw", 2, "", func(w *w3World, i int) *w3Call {
			U := w.princ("U")
			return &w3Call{Args: []any{U.Hash, int64(1 + i%5)}, Princ: []*w3Princ{U, nil}}
		})
		add(c, "innerRingCandidateAdd", 1, "new candidate", func(w *w3World, i int) *w3Call {
			p := w.princ("cand2")
			return &w3Call{Args: []any{p.Pub}, Princ: []*w3Princ{p}}
		})
		add(c, "innerRingCandidateRemove", 1, "registered candidate", func(w *w3World, i int) *w3Call {
			p := w.princ("cand")
			return &w3Call{Args: []any{p.Pub}, Princ: []*w3Princ{p}}
		})
	}

	// -- neofsid
	add("neofsid", "addKey", 2, "", simple(func(w *w3World, i int) []any {
		return []any{w3OwnerID(w.princ("U").Hash), []any{w3Key("idkey", i).PublicKey().Bytes()}}
	}))
	add("neofsid", "removeKey", 2, "", simple(func(w *w3World, i int) []any {
		return []any{w3OwnerID(w.princ("CO").Hash), []any{w3Fill(33, 2)}}
	}))

	// -- netmap
	add("netmap", "addPeerIR", 1, "", func(w *w3World, i int) *w3Call {
		p := w.princ("N2")
		return &w3Call{Args: []any{w3NodeBlob(p.Pub, byte(i))}, Princ: []*w3Princ{p}}
	})
	add("netmap", "addPeer", 1, "", func(w *w3World, i int) *w3Call {
		p := w.princ("N2")
		return &w3Call{Args: []any{w3NodeBlob(p.Pub, byte(i))}, Princ: []*w3Princ{p}}
	})
	add("netmap", "addNode", 1, "", func(w *w3World, i int) *w3Call {
		p := w.princ("N2")
		node := []any{[]any{fmt.Sprintf("grpcs://192.0.2.%d:8090", i%250)},
			stackitem.NewMapWithValue([]stackitem.MapElement{{Key: stackitem.Make("Capacity"), Value: stackitem.Make(fmt.Sprint(i))}}),
			p.Pub, int64(1)}
		return &w3Call{Args: []any{node}, Princ: []*w3Princ{p}}
	})
	add("netmap", "deleteNode", 1, "", simple(func(w *w3World, i int) []any { return []any{w.princ("N3").Pub} }))
	add("netmap", "updateState", 2, "maintenance/online", func(w *w3World, i int) *w3Call {
		p := w.princ("N1")
		return &w3Call{Args: []any{int64(1 + 2*(i%2)), p.Pub}, Princ: []*w3Princ{nil, p}}
	})
	add("netmap", "updateStateIR", 2, "maintenance/online", func(w *w3World, i int) *w3Call {
		p := w.princ("N1")
		return &w3Call{Args: []any{int64(1 + 2*(i%2)), p.Pub}, Princ: []*w3Princ{nil, p}}
	})
	add("netmap", "newEpoch", 1, "next epoch", simple(func(w *w3World, i int) []any { return []any{w.epoch() + 1} }))
	add("netmap", "setConfig", 3, "", simple(func(w *w3World, i int) []any {
		return []any{w3ID("nmcfg", i), []byte("C03Key"), []byte(fmt.Sprintf("v%d", i))}
	}))
	add("netmap", "subscribeForNewEpoch", 1, "already subscribed contract", simple(func(w *w3World, i int) []any { return []any{w.H["balance"]} }))
	add("netmap", "updateSnapshotCount", 1, "", simple(func(w *w3World, i int) []any { return []any{int64(11 + i%40)} }))
	add("netmap", "lastEpochBlock", 0, "", simple(func(w *w3World, i int) []any { return nil }))

	// -- nns
	soa := []any{"ops@nspcc.ru", int64(3600), int64(600), int64(365 * 24 * 3600), int64(3600)}
	withSOA := func(first ...any) []any { return append(first, soa...) }
	nameCall := func(name string, args func(w *w3World, i int) []any) func(w *w3World, i int) *w3Call {
		return func(w *w3World, i int) *w3Call {
			a := args(w, i)
			o, ad := w.nnsState(name)
			return &w3Call{Args: a, Princ: w3np(len(a)), Owner: o, Admin: ad}
		}
	}
	add("nns", "addRecord", 3, "", nameCall("c03.neofs", func(w *w3World, i int) []any { return []any{"c03.neofs", int64(16), fmt.Sprintf("txt%d", i)} }))
	add("nns", "setRecord", 4, "", nameCall("c03.neofs", func(w *w3World, i int) []any { return []any{"c03.neofs", int64(16), int64(0), fmt.Sprintf("set%d", i)} }))
	add("nns", "deleteRecords", 2, "", nameCall("c03.neofs", func(w *w3World, i int) []any { return []any{"c03.neofs", int64(1)} }))
	add("nns", "updateSOA", 6, "", nameCall("c03.neofs", func(w *w3World, i int) []any {
		return []any{"c03.neofs", fmt.Sprintf("ops%d@nspcc.ru", i), int64(3600), int64(600), int64(365 * 24 * 3600), int64(3600)}
	}))
	add("nns", "renew", 2, "second-level domain", nameCall("c03.neofs", func(w *w3World, i int) []any { return []any{"c03.neofs", int64(1)} }))
	add("nns", "renew", 1, "second-level domain", nameCall("c03.neofs", func(w *w3World, i int) []any { return []any{"c03.neofs"} }))
	add("nns", "renew", 2, "committee-owned TLD", func(w *w3World, i int) *w3Call {
		return &w3Call{Args: []any{"neofs", int64(1)}, Princ: w3np(2)}
	})
	add("nns", "register", 7, "second level", func(w *w3World, i int) *w3Call {
		P := w.princ("P")
		a := withSOA(fmt.Sprintf("r%d.neofs", i), P.Hash)
		pr := w3np(len(a))
		pr[1] = P
		return &w3Call{Args: a, Princ: pr, Shallow: true}
	})
	add("nns", "register", 7, "third level under c03.neofs", func(w *w3World, i int) *w3Call {
		P := w.princ("P")
		a := withSOA(fmt.Sprintf("s%d.c03.neofs", i), P.Hash)
		pr := w3np(len(a))
		pr[1] = P
		o, ad := w.nnsState("c03.neofs")
		return &w3Call{Args: a, Princ: pr, Owner: o, Admin: ad}
	})
	add("nns", "register", 7, "fourth level under sub.c03.neofs (zone owners differ)", func(w *w3World, i int) *w3Call {
		U := w.princ("U")
		a := withSOA(fmt.Sprintf("a%d.sub.c03.neofs", i), U.Hash)
		pr := w3np(len(a))
		pr[1] = U
		return &w3Call{Args: a, Princ: pr, Related: []*w3Princ{w.princ("O"), w.princ("A")}}
	})
	add("nns", "registerTLD", 6, "", simple(func(w *w3World, i int) []any { return withSOA(fmt.Sprintf("tld%d", i)) }))
	add("nns", "setPrice", 1, "", simple(func(w *w3World, i int) []any { return []any{int64(10_0000_0000 + i)} }))
	add("nns", "setAdmin", 2, "new admin A", func(w *w3World, i int) *w3Call {
		A := w.princ("A")
		o, ad := w.nnsState("c03.neofs")
		return &w3Call{Args: []any{"c03.neofs", A.Hash}, Princ: []*w3Princ{nil, A}, Owner: o, Admin: ad}
	})
	add("nns", "transfer", 3, "to the owner itself", func(w *w3World, i int) *w3Call {
		o, ad := w.nnsState("xfer.neofs")
		return &w3Call{Args: []any{o.Hash, []byte("xfer.neofs"), nil}, Princ: []*w3Princ{o, nil, nil}, Owner: o, Admin: ad}
	})
	add("nns", "setAdmin", 2, "clear the admin", func(w *w3World, i int) *w3Call {
		o, ad := w.nnsState("xfer.neofs")
		return &w3Call{Args: []any{"xfer.neofs", nil}, Princ: w3np(2), Nulls: []int{1}, Owner: o, Admin: ad}
	})

	// -- the target of the call already exists / the call is a repeat
	// (besides these, the sweep re-sends the arguments of every call that
	// succeeded, to the same method and to its sibling entry points)
	sig, pub, tok := w3Fill(64, 1), w3Fill(33, 2), w3Fill(10, 3)
	add("container", "put", 4, "container already stored", simple(func(w *w3World, i int) []any { return []any{w.valY, sig, pub, tok} }))
	add("container", "put", 5, "container already stored without the meta flag, metaOnChain=true", simple(func(w *w3World, i int) []any {
		return []any{w.valY, sig, pub, tok, true}
	}))
	add("container", "put", 5, "container already stored with the meta flag, metaOnChain=false", simple(func(w *w3World, i int) []any {
		return []any{w.valX, sig, pub, tok, false}
	}))
	add("container", "putNamed", 6, "container already stored, new alias", simple(func(w *w3World, i int) []any {
		return []any{w.valY, sig, pub, tok, fmt.Sprintf("c03again%d", i), ""}
	}))
	add("container", "delete", 3, "container already deleted", simple(func(w *w3World, i int) []any { return []any{w.cidGone, sig, tok} }))
	add("container", "delete", 3, "container never stored", simple(func(w *w3World, i int) []any { return []any{w3ID("never", 0), sig, tok} }))
	add("container", "commitContainerListUpdate", 2, "nothing pending", simple(func(w *w3World, i int) []any { return []any{w3ID("nothing", 0), []byte{1}} }))
	add("netmap", "addPeer", 1, "node already among the candidates", func(w *w3World, i int) *w3Call {
		p := w.princ("N1")
		return &w3Call{Args: []any{w3NodeBlob(p.Pub, 2)}, Princ: []*w3Princ{p}}
	})
	add("netmap", "addNode", 1, "key already among the candidates", func(w *w3World, i int) *w3Call {
		p := w.princ("N1")
		node := []any{[]any{"grpcs://192.0.2.1:8090"}, stackitem.NewMapWithValue([]stackitem.MapElement{{Key: stackitem.Make("Capacity"), Value: stackitem.Make("1")}}), p.Pub, int64(1)}
		return &w3Call{Args: []any{node}, Princ: []*w3Princ{p}}
	})
	add("neofsid", "addKey", 2, "key already bound", simple(func(w *w3World, i int) []any {
		return []any{w3OwnerID(w.princ("U").Hash), []any{w3Fill(33, 5)}}
	}))
	add("balance", "lock", 5, "onto an existing lock account", func(w *w3World, i int) *w3Call {
		U := w.princ("U")
		return &w3Call{Args: []any{[]byte("again"), U.Hash, w.lockAddr, int64(1), int64(1000)}, Princ: []*w3Princ{nil, U, nil, nil, nil}}
	})
	add("nns", "register", 7, "live second-level name", func(w *w3World, i int) *w3Call {
		P := w.princ("P")
		a := withSOA("c03.neofs", P.Hash)
		pr := w3np(len(a))
		pr[1] = P
		return &w3Call{Args: a, Princ: pr}
	})
	add("nns", "addRecord", 3, "record already present", simple(func(w *w3World, i int) []any { return []any{"xfer.neofs", int64(16), "keep"} }))
	for _, c := range []string{"neofs", "neofs_nd"} {
		c := c
		add(c, "innerRingCandidateAdd", 1, "candidate already listed", func(w *w3World, i int) *w3Call {
			p := w.princ("cand")
			return &w3Call{Args: []any{p.Pub}, Princ: []*w3Princ{p}}
		})
		add(c, "onNEP17Payment", 3, "direct invocation with the ignore-deposit marker", func(w *w3World, i int) *w3Call {
			U := w.princ("U")
			return &w3Call{Args: []any{U.Hash, int64(1), []byte{0x57, 0x0b}}, Princ: []*w3Princ{U, nil, nil}}
		})
	}

	// -- payment callbacks with a crafted [from], invoked directly and through
	// a foreign contract (the forwarding helper is then the calling script hash)
	for _, c := range []string{"alphabet", "neofs", "neofs_nd", "processing", "proxy"} {
		c := c
		for _, fr := range []string{"the receiving contract itself", "native GAS", "native NEO", "the committee account", "a user"} {
			fr := fr
			for _, via := range []string{"", "contract"} {
				via := via
				how := "direct invocation"
				if via != "" {
					how = "through a foreign contract"
				}
				vs = append(vs, &w3Variant{C: c, M: "onNEP17Payment", Arity: 3, Boundary: true,
					Label: how + ", from = " + fr,
					Build: func(w *w3World, i int) *w3Call {
						var from util.Uint160
						switch fr {
						case "the receiving contract itself":
							from = w.H[c]
						case "native GAS":
							from = w.gas
						case "native NEO":
							from = w.neo
						case "the committee account":
							from = w.princ("committee").Hash
						default:
							from = w.princ("U").Hash
						}
						return &w3Call{Args: []any{from, int64(1 + i%3), nil}, Princ: w3np(3), Via: via}
					}})
			}
		}
	}

	// -- reputation
	add("reputation", "put", 3, "", simple(func(w *w3World, i int) []any {
		return []any{w.epoch(), w3Fill(33, 4), w3ID("trust", i)}
	}))
	add("reputation", "version", 0, "", simple(func(w *w3World, i int) []any { return nil }))
	return vs
}
