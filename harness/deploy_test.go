package harness

import (
	"crypto/sha256"
	"encoding/base64"
	"fmt"
	"math"
	"math/big"
	"math/rand"
	"os"
	"path/filepath"
	"strings"
	"sync"
	"testing"

	"github.com/nspcc-dev/neo-go/pkg/core/transaction"
	"github.com/nspcc-dev/neo-go/pkg/util"
	"github.com/nspcc-dev/neofs-contract/deploy"
	"github.com/stretchr/testify/require"
)

// ---------------------------------------------------------------------------
// C13: deploy/ —
// (a) pure helpers run through the hook deploy/verif_export.go (this file);
// (b) Notary bootstrap: the real enableNotary loops and the real tick closures
//     on an in-process chain (deploy_notary_test.go, deploy_seq_test.go);
// (c) the public deploy.Deploy run by all members concurrently (deploy_e2e_test.go).
// All three write Coq cases compared with Model/DeployHelpers.v and
// Model/DeployProto.v (cases_C13.v, cases_C13_<k>.v).

// c13Abort is what a failed assertion inside a scenario panics with.
type c13Abort struct{ msg string }

// c13TB is the testing.TB handed to everything a scenario calls (neotest
// helpers and require included): a failed assertion does not end the Go test,
// it aborts the scenario (panic, recovered by c13Guard), which is then recorded
// as a violation with its schedule; the remaining scenarios still run.
type c13TB struct {
	testing.TB
	mu   sync.Mutex
	msgs []string
}

func (t *c13TB) Errorf(format string, args ...any) {
	t.mu.Lock()
	t.msgs = append(t.msgs, strings.Join(strings.Fields(fmt.Sprintf(format, args...)), " "))
	t.mu.Unlock()
}
func (t *c13TB) Error(args ...any)                 { t.Errorf("%s", fmt.Sprint(args...)) }
func (t *c13TB) Fatalf(format string, args ...any) { t.Errorf(format, args...); t.FailNow() }
func (t *c13TB) Fatal(args ...any)                 { t.Error(args...); t.FailNow() }
func (t *c13TB) Fail()                             {}
func (t *c13TB) Failed() bool                      { return false }
func (t *c13TB) Helper()                           {}
func (t *c13TB) FailNow() {
	t.mu.Lock()
	m := strings.Join(t.msgs, "; ")
	t.msgs = nil
	t.mu.Unlock()
	if len(m) > 600 {
		m = m[:600]
	}
	panic(c13Abort{m})
}

// c13Guard runs one scenario; whatever goes wrong inside becomes a violation.
func c13Guard(c *c13, name string, replay func() any, f func()) {
	defer func() {
		if r := recover(); r != nil {
			msg := fmt.Sprint(r)
			if a, ok := r.(c13Abort); ok {
				msg = a.msg
			}
			c.st.OutcomeHistogram["scenario-aborted"]++
			c.violation("scenario could not be completed ("+name+"): "+msg, replay())
		}
	}()
	f()
}

// c13Finding is a monitor finding of a scenario whose outcome depends on how
// member goroutines and the harness' block producer interleave in real time.
type c13Finding struct {
	what   string
	replay any
}

// violation records a monitor finding: directly, or (inside c13Confirm) for confirmation.
func (c *c13) violation(what string, replay any) {
	if c.collect != nil {
		*c.collect = append(*c.collect, c13Finding{what, replay})
		return
	}
	c.st.AddViolation(what, replay)
}

// c13Confirm runs a scenario in which members run concurrently with the block
// producer. Its findings (liveness within a block budget, idle re-runs, deposit
// levels) are reported only if the SAME scenario, run once more on a fresh
// chain with relaxed timing (slow = 4: block interval and waits x4, block
// budgets x2), has findings again: a genuine defect fails at any speed, a
// scheduling artefact of a loaded machine does not. Unconfirmed first-run
// findings are counted in Stats.Extra["unconfirmed_timing_artifacts"].
func c13Confirm(c *c13, name string, run func(slow int)) {
	var first, second []c13Finding
	c.collect = &first
	run(1)
	c.collect = nil
	if len(first) == 0 {
		return
	}
	c.collect = &second
	run(4)
	c.collect = nil
	if len(second) == 0 {
		n, _ := c.st.Extra["unconfirmed_timing_artifacts"].(int)
		c.st.Extra["unconfirmed_timing_artifacts"] = n + 1
		l, _ := c.st.Extra["unconfirmed_timing_artifacts_detail"].([]string)
		c.st.Extra["unconfirmed_timing_artifacts_detail"] = append(l, name+": "+first[0].what)
		return
	}
	for _, f := range second {
		c.st.AddViolation(f.what, f.replay)
	}
}

type c13 struct {
	collect *[]c13Finding
	t       testing.TB
	st      *Stats
	cases   []string
	seen    map[string]bool // distinct case texts
	nontr   int
}

func (c *c13) add(kind string, nontrivial bool, text string) {
	c.st.Evaluations++
	c.st.OpHistogram[kind]++
	if c.seen[text] {
		return
	}
	c.seen[text] = true
	if nontrivial {
		c.nontr++
	}
	c.cases = append(c.cases, text)
}

func u64Lit(v uint64) string { return new(big.Int).SetUint64(v).String() }

func pairsLit(idx []int, am []uint64) string {
	xs := make([]string, len(idx))
	for i := range idx {
		xs[i] = fmt.Sprintf("(%d, %s)", idx[i], u64Lit(am[i]))
	}
	return ListLit(xs)
}

func sharedLit(x deploy.VerifSharedTxData) string {
	return fmt.Sprintf("(mkShared %s %d %d)", BytesLit(x.Sender.BytesBE()), x.ValidUntilBlock, x.Nonce)
}

// divide runs the real divideFundsEvenly; monitors sum/balance/order.
func (c *c13) divide(amount uint64, n int) {
	var idx []int
	var am []uint64
	panicked := false
	func() {
		defer func() {
			if r := recover(); r != nil {
				panicked = true
			}
		}()
		deploy.VerifDivideFundsEvenly(amount, n, func(i int, a uint64) {
			idx = append(idx, i)
			am = append(am, a)
		})
	}()
	if panicked {
		c.st.OutcomeHistogram["divide:panic"]++
		c.add("divide", true, fmt.Sprintf("HDividePanic %s (%d)", u64Lit(amount), n))
		if n != 0 {
			c.st.AddViolation("divideFundsEvenly panicked for n != 0", map[string]any{"amount": amount, "n": n})
		}
		return
	}
	// monitor of the property on the observed callbacks
	if n >= 1 {
		sum := new(big.Int)
		for _, a := range am {
			sum.Add(sum, new(big.Int).SetUint64(a))
		}
		bad := ""
		if sum.Cmp(new(big.Int).SetUint64(amount)) != 0 {
			bad = "shares do not sum to the amount"
		}
		var mn, mx uint64 = math.MaxUint64, 0
		for i := 0; i < n && i < len(am)+1; i++ { // one omitted receiver suffices to see a 0 share
			var s uint64
			if i < len(am) {
				s = am[i]
			}
			mn, mx = min(mn, s), max(mx, s)
		}
		if mx-mn > 1 {
			bad = "shares differ by more than one"
		}
		for i := range idx {
			if idx[i] != i {
				bad = "callback indices are not 0..k-1 in order"
			}
			if am[i] == 0 {
				bad = "zero amount handed out"
			}
		}
		if len(am) > n {
			bad = "more callbacks than receivers"
		}
		if bad != "" {
			c.st.AddViolation("divideFundsEvenly: "+bad, map[string]any{"amount": amount, "n": n, "indices": idx, "amounts": am})
		}
	}
	switch {
	case len(am) == 0:
		c.st.OutcomeHistogram["divide:none"]++
	case len(am) < n:
		c.st.OutcomeHistogram["divide:early-return"]++
	case amount%uint64(n) == 0:
		c.st.OutcomeHistogram["divide:even"]++
	default:
		c.st.OutcomeHistogram["divide:remainder"]++
	}
	ctor := "HDivide"
	if n > 20000 {
		ctor = "HDivideClosed" // the model's loop has n iterations of fuel; compare with its proved closed form
	}
	c.add("divide", len(am) > 0, fmt.Sprintf("%s %s (%d) %s", ctor, u64Lit(amount), n, pairsLit(idx, am)))
}

func (c *c13) window(h uint32, halt bool) {
	state := "HALT"
	if !halt {
		state = []string{"FAULT", "BREAK", "NONE", ""}[int(h)%4]
	}
	nonce, vub, err := deploy.VerifRuntimeTransactionModifier(h, state)
	got := "None"
	if err == nil {
		got = fmt.Sprintf("(Some (%d, %d))", nonce, vub)
		bad := ""
		if nonce != h/100*100 || nonce > h || h > vub || (h < math.MaxUint32 && h >= vub) {
			bad = "nonce <= h < vub violated"
		}
		if bad != "" {
			c.st.AddViolation("neoFSRuntimeTransactionModifier: "+bad, map[string]any{"h": h, "nonce": nonce, "vub": vub})
		}
		if vub == math.MaxUint32 {
			c.st.OutcomeHistogram["window:overflow-guard"]++
		} else {
			c.st.OutcomeHistogram["window:ok"]++
		}
	} else {
		c.st.OutcomeHistogram["window:refused"]++
	}
	if halt != (err == nil) {
		c.st.AddViolation("neoFSRuntimeTransactionModifier: error iff non-HALT violated", map[string]any{"h": h, "state": state})
	}
	c.add("window", err == nil, fmt.Sprintf("HWindow %s %d %s", BoolLit(halt), h, got))
}

func randShared(r *rand.Rand) deploy.VerifSharedTxData {
	var x deploy.VerifSharedTxData
	switch r.Intn(4) {
	case 0: // extreme fields
		for i := range x.Sender {
			x.Sender[i] = byte(r.Intn(2) * 255)
		}
		x.ValidUntilBlock = []uint32{0, 1, math.MaxUint32, math.MaxUint32 - 1, 1 << 31}[r.Intn(5)]
		x.Nonce = []uint32{0, 1, math.MaxUint32, 255, 256, 65535, 65536, 1 << 24}[r.Intn(8)]
	default:
		r.Read(x.Sender[:])
		x.ValidUntilBlock = r.Uint32()
		x.Nonce = r.Uint32()
	}
	return x
}

func (c *c13) codec(r *rand.Rand, x deploy.VerifSharedTxData) {
	// bytes / encodeToString
	b := x.Bytes()
	c.add("bytes", true, fmt.Sprintf("HBytes %s %s", sharedLit(x), BytesLit(b)))
	s := x.EncodeToString()
	if s != base64.StdEncoding.EncodeToString(b) {
		c.st.AddViolation("encodeToString is not StdEncoding of bytes()", map[string]any{"x": fmt.Sprint(x)})
	}
	// decode of its own encoding: roundtrip monitor
	d, err := deploy.VerifDecodeSharedTxData(s)
	if err != nil || d != x {
		c.st.AddViolation("decodeString(encodeToString(x)) != x", map[string]any{"x": fmt.Sprint(x), "got": fmt.Sprint(d), "err": fmt.Sprint(err)})
	}
	c.st.OutcomeHistogram["codec:roundtrip"]++
	c.decode(b)
	// checksum helpers
	var payload []byte
	switch r.Intn(4) {
	case 0:
		payload = nil
	case 1:
		payload = make([]byte, 64) // a signature
		r.Read(payload)
	default:
		payload = make([]byte, r.Intn(70))
		r.Read(payload)
	}
	u := x.UnshiftChecksum(payload)
	c.add("unshift", true, fmt.Sprintf("HUnshift %s %s %s", sharedLit(x), BytesLit(payload), BytesLit(u)))
	ok, p := x.ShiftChecksum(u)
	if !ok || string(p) != string(payload) {
		c.st.AddViolation("shiftChecksum(unshiftChecksum(d)) != (true,d)", map[string]any{"x": fmt.Sprint(x), "d": Hex(payload)})
	}
	c.shift(x, u)
	// other data: short, mismatching, another value's checksum
	switch r.Intn(4) {
	case 0:
		c.shift(x, u[:r.Intn(4)])
	case 1:
		v := append([]byte{}, u...)
		v[r.Intn(4)] ^= byte(1 + r.Intn(255))
		c.shift(x, v)
	case 2:
		y := x
		y.Nonce++
		c.shift(y, u)
	default:
		v := make([]byte, r.Intn(12))
		r.Read(v)
		c.shift(x, v)
	}
	// the digest the helper takes its 4 bytes from (crypto/sha256), in full
	h := sha256.Sum256(b)
	c.add("sha256", true, fmt.Sprintf("HSha %s %s", BytesLit(b), BytesLit(h[:])))
}

func (c *c13) shift(x deploy.VerifSharedTxData, data []byte) {
	ok, p := x.ShiftChecksum(data)
	switch {
	case ok:
		c.st.OutcomeHistogram["shift:accepted"]++
	case len(data) < 4:
		c.st.OutcomeHistogram["shift:short"]++
	default:
		c.st.OutcomeHistogram["shift:mismatch"]++
	}
	c.add("shift", true, fmt.Sprintf("HShift %s %s %s %s", sharedLit(x), BytesLit(data), BoolLit(ok), BytesLit(p)))
}

func (c *c13) decode(b []byte) {
	d, err := deploy.VerifDecodeSharedTxData(base64.StdEncoding.EncodeToString(b))
	got := "None"
	if err == nil {
		got = "(Some " + sharedLit(d) + ")"
		c.st.OutcomeHistogram["decode:ok"]++
		if len(b) != 28 {
			c.st.AddViolation("decodeString accepted a length other than 28", map[string]any{"b": Hex(b)})
		} else if string(d.Bytes()) != string(b) {
			c.st.AddViolation("bytes(decode(b)) != b", map[string]any{"b": Hex(b)})
		}
	} else {
		c.st.OutcomeHistogram["decode:refused"]++
		if len(b) == 28 {
			c.st.AddViolation("decodeString refused 28 bytes", map[string]any{"b": Hex(b)})
		}
	}
	c.add("decode", true, fmt.Sprintf("HDecode %s %s", BytesLit(b), got))
}

func (c *c13) matches(r *rand.Rand, x deploy.VerifSharedTxData) {
	tx := &transaction.Transaction{Nonce: x.Nonce, ValidUntilBlock: x.ValidUntilBlock}
	ns := r.Intn(3)
	for i := 0; i < ns; i++ {
		var a util.Uint160
		r.Read(a[:])
		if i == 0 && r.Intn(3) > 0 {
			a = x.Sender
		}
		tx.Signers = append(tx.Signers, transaction.Signer{Account: a})
	}
	switch r.Intn(4) {
	case 0:
		tx.Nonce++
	case 1:
		tx.ValidUntilBlock--
	}
	got := deploy.VerifSharedTxDataMatches(tx, x)
	var ss []string
	for _, s := range tx.Signers {
		ss = append(ss, BytesLit(s.Account.BytesBE()))
	}
	c.st.OutcomeHistogram["matches:"+BoolLit(got)]++
	c.add("matches", true, fmt.Sprintf("HMatches %d %d %s %s %s", tx.Nonce, tx.ValidUntilBlock, ListLit(ss), sharedLit(x), BoolLit(got)))
}

func c13Helpers(c *c13) {
	r := Rng(1301)
	thorough := Tier() == "thorough"
	// --- divideFundsEvenly: boundary corpus first
	for _, tc := range []struct {
		a uint64
		n int
	}{{0, 5}, {4, 5}, {15, 3}, {16, 3}, {705, 7}, {100_000_000, 100}, // upstream tests
		{0, 1}, {1, 1}, {math.MaxUint64, 1}, {math.MaxUint64, 2}, {math.MaxUint64, 3}, {math.MaxUint64, 7},
		{math.MaxUint64 - 1, 2}, {math.MaxUint64, 64}, {1 << 63, 3}, {3, 300}, {299, 300}, {300, 300}, {301, 300}, {3, 1 << 40}, {0, math.MaxInt64},
		{7, 0}, {0, 0}, {9, -1}, {math.MaxUint64, -3}} {
		c.divide(tc.a, tc.n)
	}
	for n := 1; n <= 8; n++ {
		for _, a := range []uint64{0, 1, uint64(n) - 1, uint64(n), uint64(n) + 1, 2*uint64(n) - 1, 2 * uint64(n), 1000003, math.MaxUint64 - uint64(n), math.MaxUint64} {
			c.divide(a, n)
		}
	}
	nd := 220
	if thorough {
		nd = 1500
	}
	for i := 0; i < nd; i++ {
		n := 1 + r.Intn(7)
		switch r.Intn(10) {
		case 0:
			n = 1 + r.Intn(40)
		case 1:
			if r.Intn(3) == 0 {
				n = 1 + r.Intn(150)
			}
		}
		var a uint64
		switch r.Intn(5) {
		case 0:
			a = uint64(r.Intn(2 * n))
		case 1:
			a = r.Uint64()
		case 2:
			a = math.MaxUint64 - uint64(r.Intn(1000))
		case 3:
			a = uint64(n)*uint64(r.Intn(1_000_000)) + uint64(r.Intn(n))
		default:
			a = uint64(r.Int63n(1_0000_0000 * 100_000_000)) // GAS/NEO-like amounts
		}
		c.divide(a, n)
	}
	// --- window
	for _, h := range []uint32{0, 1, 99, 100, 101, 199, 200, 1 << 16, 1<<31 - 1, 1 << 31,
		math.MaxUint32, math.MaxUint32 - 1, math.MaxUint32 - 50, math.MaxUint32 - 95, math.MaxUint32 - 96,
		math.MaxUint32 - 100, math.MaxUint32 - 101, math.MaxUint32 - 195, math.MaxUint32 - 196, math.MaxUint32 - 200,
		4294967199, 4294967200, 4294967100, 4294967099} {
		c.window(h, true)
		c.window(h, false)
	}
	nw := 300
	if thorough {
		nw = 3000
	}
	for i := 0; i < nw; i++ {
		h := r.Uint32()
		switch r.Intn(4) {
		case 0:
			h = uint32(r.Intn(1000))
		case 1:
			h = math.MaxUint32 - uint32(r.Intn(400))
		}
		c.window(h, r.Intn(8) > 0)
		// determinism inside the window (monitor)
		h2 := h/100*100 + uint32(r.Intn(100))
		if h2 >= h/100*100 { // no wrap
			n1, v1, _ := deploy.VerifRuntimeTransactionModifier(h, "HALT")
			n2, v2, _ := deploy.VerifRuntimeTransactionModifier(h2, "HALT")
			if n1 != n2 || v1 != v2 {
				c.st.AddViolation("window not deterministic within one span", map[string]any{"h1": h, "h2": h2})
			}
		}
	}
	// --- codec
	nc := 45
	if thorough {
		nc = 300
	}
	c.codec(r, deploy.VerifSharedTxData{})
	c.codec(r, deploy.VerifSharedTxData{ValidUntilBlock: math.MaxUint32, Nonce: math.MaxUint32})
	for i := 0; i < nc; i++ {
		x := randShared(r)
		c.codec(r, x)
		c.matches(r, x)
	}
	for _, l := range []int{0, 1, 4, 8, 20, 24, 27, 28, 29, 32, 56} {
		b := make([]byte, l)
		r.Read(b)
		c.decode(b)
	}
	for i := 0; i < nc/2; i++ {
		b := make([]byte, []int{28, 28, 27, 29, r.Intn(64)}[r.Intn(5)])
		r.Read(b)
		c.decode(b)
	}
	for _, l := range []int{0, 1, 55, 56, 57, 63, 64, 65, 119, 120, 128, 200} {
		b := make([]byte, l)
		r.Read(b)
		h := sha256.Sum256(b)
		c.add("sha256", true, fmt.Sprintf("HSha %s %s", BytesLit(b), BytesLit(h[:])))
	}
	// not base64 at all: refused before the length check (Go-side monitor only; base64 is outside the model)
	for _, s := range []string{"*", "AAA", "AAAA=AAA", strings.Repeat("A", 37) + "!"} {
		if _, err := deploy.VerifDecodeSharedTxData(s); err == nil {
			c.st.AddViolation("decodeString accepted a non-base64 string", map[string]any{"s": s})
		}
		c.st.Evaluations++
	}
}

func TestC13(t *testing.T) {
	st := NewStats("C13")
	c := &c13{t: &c13TB{TB: t}, st: st, seen: map[string]bool{}}
	c13Guard(c, "pure helpers", func() any { return nil }, func() { c13Helpers(c) })
	extraDefs, extraM := c13Bootstrap(c)
	if os.Getenv("VERIF_C13_NO_E2E") == "" {
		d2, m2 := c13EndToEnd(c)
		extraDefs, extraM = extraDefs+d2, extraM+m2
	}

	// cases_C13.v, cases_C13_1.v, ...: helper cases in chunks; the last file holds the protocol and end-to-end cases
	header := "From Verif Require Import Base.Prelude Model.DeployHelpers Model.DeployProto.\nLocal Open Scope Z_scope.\n"
	const chunk = 380_000
	var files [][]string
	size := 0
	for _, cs := range c.cases {
		if len(files) == 0 || size+len(cs) > chunk {
			files = append(files, nil)
			size = 0
		}
		files[len(files)-1] = append(files[len(files)-1], cs)
		size += len(cs)
	}
	name := func(i int) string {
		if i == 0 {
			return "cases_C13.v"
		}
		return fmt.Sprintf("cases_C13_%d.v", i)
	}
	for i, f := range files {
		cf := &CasesFile{Pool: NewPool("b"), Header: header, Cases: f,
			Footer: "Definition M := Eval vm_compute in failures_from 0 (map check_hcase cases).\nPrint M.\n"}
		require.NoError(t, cf.Write(filepath.Join(OutDir(), name(i))))
	}
	require.NoError(t, os.WriteFile(filepath.Join(OutDir(), name(len(files))), []byte(header+extraDefs+
		"Definition M := Eval vm_compute in failures_from 0 ([]"+extraM+").\nPrint M.\n"), 0o644))

	st.Samples = append([]any{
		map[string]any{"helper": "divideFundsEvenly", "input": "amount=16 n=3", "callbacks": "[(0,6) (1,5) (2,5)]"},
		map[string]any{"helper": "neoFSRuntimeTransactionModifier", "input": "height=4294967245 state=HALT", "nonce": 4294967200, "validUntilBlock": 4294967295},
	}, st.Samples...)
	st.Histories += len(c.cases)
	st.DistinctNontrivial = c.nontr
	st.Rule = "distinct (helper, input, observed output) cases written to cases_C13.v, not counting divide cases with no callback and refused window cases; plus distinct notary-bootstrap runs (committee size, live set, schedule) that sent at least one transaction, plus end-to-end deploy.Deploy runs in which every member returned nil"
	st.Write()
	// violations are judged by ./check from the stats file; the Go test itself only reports them
	if len(st.Violations) > 0 {
		t.Logf("monitor violations: %d (first: %s)", len(st.Violations), st.Violations[0].What)
	}
}
