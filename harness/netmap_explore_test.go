//go:build verif_netmap_explore

package harness

import (
	"fmt"
	"testing"
	"time"

	"github.com/nspcc-dev/neo-go/pkg/core/state"
	"github.com/nspcc-dev/neo-go/pkg/neotest"
	"github.com/nspcc-dev/neo-go/pkg/util"
	"github.com/nspcc-dev/neo-go/pkg/vm/stackitem"
)

func cloneContract(c *neotest.Contract, sender util.Uint160, name string) *neotest.Contract {
	c2 := *c
	m := *c.Manifest
	m.Name = name
	c2.Manifest = &m
	c2.Hash = state.CreateContractHash(sender, c.NEF.Checksum, name)
	return &c2
}

func TestExploreNetmap(t *testing.T) {
	t0 := time.Now()
	v := NewEnv(t)
	e := v.E
	nm := v.Compile("netmap")
	e.DeployContract(t, nm, []any{false, util.Uint160{}, util.Uint160{}, []any{}, []any{}})
	fmt.Println("deploy netmap", time.Since(t0))
	pr := v.CompileHelper("nmprobe")
	p0 := cloneContract(pr, e.CommitteeHash, "probe0")
	p1 := cloneContract(pr, e.CommitteeHash, "probe1")
	e.DeployContract(t, p0, nil)
	e.DeployContract(t, p1, nil)
	fmt.Println("deploy probes", time.Since(t0), p0.Hash.StringLE(), p1.Hash.StringLE())
	al := []neotest.Signer{e.Committee}
	r := v.Invoke(al, nm.Hash, "subscribeForNewEpoch", p1.Hash)
	fmt.Println("sub p1", r.Halt, r.Fault, len(r.Events))
	r = v.Invoke(al, nm.Hash, "subscribeForNewEpoch", p0.Hash)
	fmt.Println("sub p0", r.Halt, r.Fault)
	r = v.Invoke(al, nm.Hash, "subscribeForNewEpoch", p0.Hash)
	fmt.Println("sub p0 again", r.Halt, r.Fault, len(r.Events))
	r = v.Invoke(al, nm.Hash, "subscribeForNewEpoch", []byte{1, 2, 3})
	fmt.Println("sub short", r.Halt, r.Fault, len(r.Events))
	r = v.Invoke(al, nm.Hash, "subscribeForNewEpoch", util.Uint160{9})
	fmt.Println("sub nonexistent", r.Halt, r.Fault, len(r.Events))
	for _, k := range v.StorageKeys(nm.Hash, []byte("e")) {
		fmt.Printf("  key %x\n", k)
	}
	// node
	acc := e.NewAccount(t).(neotest.SingleSigner)
	pub := acc.Account().PrivateKey().PublicKey().Bytes()
	nodeStruct := stackitem.NewStruct([]stackitem.Item{
		stackitem.NewArray([]stackitem.Item{stackitem.Make("a1")}),
		stackitem.NewMapWithValue([]stackitem.MapElement{{Key: stackitem.Make("k"), Value: stackitem.Make("v")}}),
		stackitem.NewByteArray(pub),
		stackitem.Make(1),
	})
	r = v.Invoke([]neotest.Signer{e.Committee, acc}, nm.Hash, "addNode", nodeStruct)
	fmt.Println("addNode", r.Halt, r.Fault, len(r.Events))
	r = v.Invoke(al, nm.Hash, "newEpoch", 255)
	fmt.Println("newEpoch 255", r.Halt, r.Fault)
	for _, ev := range r.Events {
		fmt.Println("  ev", ev.ScriptHash.StringLE(), ev.Name, ev.Item)
	}
	for _, ep := range []int64{-1, 255, 254, 256, 1 << 32, 1<<32 + 255, -129} {
		it, err := v.Read(nm.Hash, "listNodes", ep)
		fmt.Println("listNodes", ep, err, len(it.Value().([]stackitem.Item)))
	}
	// updateStateIR offline with short key
	r = v.Invoke(al, nm.Hash, "updateStateIR", 2, []byte{1, 2, 3})
	fmt.Println("updateStateIR offline short", r.Halt, r.Fault)
	r = v.Invoke(al, nm.Hash, "updateStateIR", 2, make([]byte, 33))
	fmt.Println("updateStateIR offline zero33", r.Halt, r.Fault)
	r = v.Invoke(al, nm.Hash, "updateStateIR", 2, make([]byte, 100))
	fmt.Println("updateStateIR offline 100", r.Halt, r.Fault)
	r = v.Invoke(al, nm.Hash, "deleteNode", make([]byte, 33))
	fmt.Println("deleteNode zero33", r.Halt, r.Fault)
	r = v.Invoke(al, nm.Hash, "updateStateIR", 0, pub)
	fmt.Println("updateStateIR 0", r.Halt, r.Fault)
	r = v.Invoke(al, nm.Hash, "updateStateIR", 4, pub)
	fmt.Println("updateStateIR 4", r.Halt, r.Fault)
	r = v.Invoke(al, nm.Hash, "updateStateIR", 3, pub)
	fmt.Println("updateStateIR 3", r.Halt, r.Fault)
	// snapshot count 300 when id = ?
	fmt.Println("cur id", v.StorageDump(nm.Hash)["snapshotCurrent"] == "\x01")
	for i := 0; i < 8; i++ {
		r = v.Invoke(al, nm.Hash, "newEpoch", 256+i)
	}
	d := v.StorageDump(nm.Hash)
	fmt.Printf("cur id %x count %x\n", d["snapshotCurrent"], d["snapshotCount"])
	r = v.Invoke(al, nm.Hash, "updateSnapshotCount", 300)
	fmt.Println("updateSnapshotCount 300", r.Halt, r.Fault)
	t1 := time.Now()
	ep := 264
	for i := 0; i < 260; i++ {
		r = v.Invoke(al, nm.Hash, "newEpoch", ep)
		if !r.Halt {
			d := v.StorageDump(nm.Hash)
			fmt.Printf("tick %d faulted: %s; cur id %x\n", ep, r.Fault, d["snapshotCurrent"])
			break
		}
		ep++
	}
	fmt.Println("ticks took", time.Since(t1))
	r = v.Invoke(al, nm.Hash, "updateSnapshotCount", 5)
	fmt.Println("updateSnapshotCount 5", r.Halt, r.Fault)
	r = v.Invoke(al, nm.Hash, "newEpoch", ep)
	fmt.Println("tick after", r.Halt, r.Fault)
	// reads timing
	t1 = time.Now()
	for i := 0; i < 100; i++ {
		v.Read(nm.Hash, "snapshot", 0)
	}
	fmt.Println("100 reads", time.Since(t1))
	for _, n := range []int{54, 55, 56, 57} {
		r = v.Invoke(al, nm.Hash, "updateStateIR", 2, make([]byte, n))
		fmt.Println("updateStateIR offline len", n, r.Halt, r.Fault)
	}
	for _, n := range []int{57, 58, 59, 60} {
		_, err := v.Read(nm.Hash, "config", make([]byte, n))
		fmt.Println("config keylen", n, err)
	}
	// config
	r = v.Invoke(al, nm.Hash, "setConfig", []byte{}, make([]byte, 58), []byte{})
	fmt.Println("setConfig key58 empty val", r.Halt, r.Fault)
	r = v.Invoke(al, nm.Hash, "setConfig", []byte{}, make([]byte, 59), []byte{1})
	fmt.Println("setConfig key59", r.Halt, r.Fault)
	it, err := v.Read(nm.Hash, "config", make([]byte, 100))
	fmt.Println("config key100", it, err)
	it, err = v.Read(nm.Hash, "listConfig")
	fmt.Println("listConfig", it, err)
	// several txs in one block
	tx1 := v.PrepareTx(al, nm.Hash, "newEpoch", ep+1)
	tx2 := v.PrepareTx(al, nm.Hash, "newEpoch", ep+1)
	tx3 := v.PrepareTx(al, nm.Hash, "newEpoch", ep+2)
	b := e.AddNewBlock(t, tx1, tx2, tx3)
	fmt.Println("3 tx block", v.ResultOf(tx1, b).Halt, v.ResultOf(tx2, b).Halt, v.ResultOf(tx3, b).Halt, b.Index, v.ReadInt(nm.Hash, "lastEpochBlock"))
}
