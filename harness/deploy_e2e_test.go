package harness

import (
	"bytes"
	"context"
	"errors"
	"fmt"
	"math/big"
	"os"
	"path/filepath"
	"regexp"
	"strings"
	"sync"
	"testing"
	"time"

	"github.com/nspcc-dev/neo-go/pkg/config"
	"github.com/nspcc-dev/neo-go/pkg/core"
	"github.com/nspcc-dev/neo-go/pkg/core/native/nativehashes"
	"github.com/nspcc-dev/neo-go/pkg/core/native/noderoles"
	"github.com/nspcc-dev/neo-go/pkg/core/state"
	"github.com/nspcc-dev/neo-go/pkg/core/transaction"
	"github.com/nspcc-dev/neo-go/pkg/crypto/keys"
	"github.com/nspcc-dev/neo-go/pkg/encoding/address"
	"github.com/nspcc-dev/neo-go/pkg/encoding/fixedn"
	"github.com/nspcc-dev/neo-go/pkg/neotest"
	"github.com/nspcc-dev/neo-go/pkg/services/notary"
	"github.com/nspcc-dev/neo-go/pkg/smartcontract"
	"github.com/nspcc-dev/neo-go/pkg/util"
	"github.com/nspcc-dev/neo-go/pkg/vm/stackitem"
	"github.com/nspcc-dev/neo-go/pkg/wallet"
	"github.com/nspcc-dev/neofs-contract/contracts"
	"github.com/nspcc-dev/neofs-contract/deploy"
	"github.com/stretchr/testify/require"
	"go.uber.org/zap"
)

// ---------------------------------------------------------------------------
// (c) End to end: the public deploy.Deploy, one goroutine per committee
// member, on the in-process chain with one Notary service.

type c13Glagolitsa struct{}

func (c13Glagolitsa) Size() int                  { return 41 }
func (c13Glagolitsa) LetterByIndex(i int) string { return fmt.Sprintf("letter%d", i) }

// withNotary attaches a P2P Notary service (holding every member's key, so
// whichever of them is designated can complete requests) to the node.
func (x *c13Net) withNotary() {
	dir := x.t.TempDir()
	p := filepath.Join(dir, "notary.json")
	w, err := wallet.NewWallet(p)
	require.NoError(x.t, err)
	w.Scrypt = keys.ScryptParams{N: 2, R: 1, P: 1}
	for _, a := range x.accs {
		acc := wallet.NewAccountFromPrivateKey(a.PrivateKey())
		require.NoError(x.t, acc.Encrypt("pass", w.Scrypt))
		w.AddAccount(acc)
	}
	require.NoError(x.t, w.Save())
	cfg := notary.Config{MainCfg: config.P2PNotary{Enabled: true, UnlockWallet: config.Wallet{Path: p, Password: "pass"}}, Chain: x.bc, Log: zap.NewNop()}
	n, err := notary.NewNotary(cfg, x.bc.GetConfig().Magic, x.netSrv.GetNotaryPool(), func(tx *transaction.Transaction) error {
		err := x.netSrv.RelayTxn(tx)
		if err != nil && !isKnownTx(err) {
			return err
		}
		return nil
	})
	require.NoError(x.t, err)
	x.netSrv.AddService(n)
	x.bc.SetNotary(n)
	n.Start()
	x.t.Cleanup(n.Shutdown)
}

func isKnownTx(err error) bool {
	return errors.Is(err, core.ErrAlreadyExists) || errors.Is(err, core.ErrAlreadyInPool)
}

type c13E2EOpt struct {
	N            int    `json:"n"`
	Budget       int    `json:"block_budget"`
	StartDelay   []int  `json:"start_delay_blocks"`          // per member
	Stage        string `json:"prepared_state,omitempty"`    // see c13Prepare; "": fresh chain
	BlockMs      int    `json:"block_interval_ms,omitempty"` // 0: the default
	Slow         int    `json:"relaxed_timing_factor,omitempty"`
	Sweep        bool   `json:"threshold_sweep,omitempty"` // after the run: re-runs with balances put on the thresholds of the funds stage
	CancelMember int    `json:"cancelled_member"`          // -1: nobody
	CancelAt     int    `json:"cancelled_at_block"`        // blocks after the start
	RestartAfter int    `json:"restarted_after_blocks"`
}

type c13E2E struct {
	Opt            c13E2EOpt      `json:"run"`
	Blocks         int            `json:"blocks_used"`
	Returned       map[int]string `json:"deploy_returned"` // member -> "" (nil) or error
	Cancelled      string         `json:"cancelled_run_returned,omitempty"`
	Prepared       map[string]any `json:"prepared_state_observed,omitempty"`
	Notary         bool           `json:"notary_role_is_committee"`
	Alphabet       bool           `json:"alphabet_role_is_committee"`
	NNSID1         bool           `json:"nns_has_id_1"`
	Contracts      int            `json:"deployed_contracts"`
	Names          map[string]int `json:"neofs_zone_resolves_to_supplied_executable"`
	Distinct       bool           `json:"names_resolve_to_distinct_contracts"`
	Sent           int            `json:"transactions_and_notary_requests_sent"`
	RerunNil       int            `json:"rerun_returned_nil"`
	RerunSent      int            `json:"rerun_transactions_and_notary_requests_sent"`
	RerunBlocks    int            `json:"rerun_blocks"`
	RerunValidator string         `json:"rerun_validator_account_gas_before"`
	RerunLeader    string         `json:"rerun_leader_gas_before"`
	Sweeps         []c13SweepRes  `json:"threshold_reruns,omitempty"`
	// Notary deposits of the members whose Deploy is running, sampled at every block (first run)
	MinDeposit map[int]string `json:"lowest_notary_deposit_seen_after_first_deposit,omitempty"`
	LowStreak  map[int]int    `json:"longest_run_of_blocks_with_deposit_below_a_request,omitempty"`
}

// A Notary request costs its sender the fallback transaction's fee when it expires (about 0.12 GAS);
// a member with less than this on deposit can neither send nor co-sign requests.
const c13RequestCost = 12_000_000

// c13LowDepositBlocks: how long a running member may stay below that (the refill is one transaction).
const c13LowDepositBlocks = 25

// c13SweepRes is one re-run of Deploy by every member on the finished chain
// after the harness put balances on (or next to) the thresholds of
// makeInitialTransferToCommittee (deploy/funds.go): the validators' account
// against its 10 GAS reserve, the leader against the 150 GAS refill mark.
type c13SweepRes struct {
	Name            string `json:"balances"`
	ValidatorBefore string `json:"validator_account_gas_before"`
	LeaderBefore    string `json:"member_gas_before"`
	ExpectIdle      bool   `json:"must_send_nothing"`
	ReturnedNil     int    `json:"returned_nil"`
	Sent            int    `json:"transactions_and_notary_requests_sent"`
	Blocks          int    `json:"blocks"`
	ValidatorAfter  string `json:"validator_account_gas_after"`
	LeaderAfter     string `json:"member_gas_after"`
	Contracts       int    `json:"deployed_contracts_after"`
	Bad             string `json:"violation,omitempty"`
}

const (
	c13GAS        = int64(1_0000_0000)
	c13Reserve    = 10 * c13GAS  // validatorLowerGASThreshold
	c13RefillMark = 150 * c13GAS // initialAlphabetGASAmount / 2
)

// setGAS makes the GAS balance of acc exactly target: the bank tops it up, or
// takes the excess with acc's witness (the bank pays the fee either way).
func (x *c13Net) setGAS(bank neotest.Signer, acc util.Uint160, witness neotest.Signer, target int64) {
	gasH := x.exec.NativeHash(x.t, "GasToken")
	// the block that carries the adjustment may itself credit acc (committee reward of 0.5 GAS to
	// committee[height mod n], network fees to the block's primary): adjust again, a few times at most
	for try := 0; try < 4; try++ {
		cur := x.bc.GetUtilityTokenBalance(acc).Int64()
		switch {
		case cur < target:
			x.exec.NewInvoker(gasH, bank).Invoke(x.t, true, "transfer", bank.ScriptHash(), acc, target-cur, nil)
		case cur > target:
			x.exec.NewInvoker(gasH, bank, witness).Invoke(x.t, true, "transfer", acc, bank.ScriptHash(), cur-target, nil)
		default:
			return
		}
	}
}

// refill brings every member that is below the refill mark to 200 GAS (used
// where the validators' account is the committee's and holds the remaining
// supply: there a poor member is legitimately topped up by a re-run).
func (x *c13Net) refill(bank neotest.Signer) {
	for _, a := range x.accs {
		if x.bc.GetUtilityTokenBalance(a.ScriptHash()).Int64() < c13RefillMark {
			x.setGAS(bank, a.ScriptHash(), neotest.NewSingleSigner(a), 200*c13GAS)
		}
	}
}

// sweep re-runs Deploy on the finished chain with balances on the thresholds.
func (x *c13Net) sweep(fs []contracts.Contract, bank neotest.Signer, res *c13E2E) {
	n := x.n
	vAcc := x.exec.Validator.ScriptHash()
	differs := !vAcc.Equals(x.exec.Committee.ScriptHash()) // otherwise the validators' account IS the committee's and holds the remaining supply
	// the member put on the refill mark: a non-leader where there is one (the leader is the primary of the
	// harness' blocks and collects their network fees, its balance cannot be set to the unit); the others are refilled
	pi := 0
	if n > 1 {
		pi = 1
	}
	leader := x.accs[pi].ScriptHash()
	leaderW := neotest.NewSingleSigner(x.accs[pi])
	gas := func(h util.Uint160) string { return fixedn.Fixed8(x.bc.GetUtilityTokenBalance(h).Int64()).String() }
	type cfg struct {
		name       string
		vDelta     int64 // validators' account = reserve + vDelta (only when it differs from the committee's)
		leader     int64 // leader's balance; 0: leave
		expectIdle bool
	}
	cfgs := []cfg{
		{"validators' account at its reserve, a member one below the refill mark", 0, c13RefillMark - 1, differs},
		{"validators' account at its reserve, a member exactly at the refill mark", 0, c13RefillMark, true},
		{"validators' account one below its reserve, a member one below the refill mark", -1, c13RefillMark - 1, differs},
		{"validators' account one above its reserve, a member exactly at the refill mark", 1, c13RefillMark, !differs},
		{"idle re-run afterwards", 0, 0, true},
		{"validators' account one above its reserve, a member one below the refill mark", 1, c13RefillMark - 1, false},
		{"idle re-run afterwards", 0, 0, true},
	}
	for _, cf := range cfgs {
		if cf.name != "idle re-run afterwards" {
			for i, a := range x.accs {
				if i != pi && x.bc.GetUtilityTokenBalance(a.ScriptHash()).Int64() < c13RefillMark {
					x.setGAS(bank, a.ScriptHash(), neotest.NewSingleSigner(a), 200*c13GAS)
				}
			}
			if differs {
				x.setGAS(bank, vAcc, x.exec.Validator, c13Reserve+cf.vDelta)
			}
			if cf.leader != 0 {
				x.setGAS(bank, leader, leaderW, cf.leader)
			}
		}
		x.mu.Lock()
		x.sent, x.notaryReqs = nil, 0
		x.mu.Unlock()
		sr := c13SweepRes{Name: cf.name, ValidatorBefore: gas(vAcc), LeaderBefore: gas(leader), ExpectIdle: cf.expectIdle}
		ret, _, used := x.runDeploy(fs, c13E2EOpt{N: n, Budget: 80 * min(x.slow, 2), CancelMember: -1})
		sr.Blocks = used
		for _, e := range ret {
			if e == "" {
				sr.ReturnedNil++
			}
		}
		x.mu.Lock()
		sr.Sent = x.sentBesidesDeposits() + x.notaryReqs
		x.mu.Unlock()
		sr.ValidatorAfter, sr.LeaderAfter, sr.Contracts = gas(vAcc), gas(leader), x.deployedContracts()
		switch {
		case sr.ReturnedNil != n:
			sr.Bad = fmt.Sprintf("only %d of %d members' Deploy returned nil within %d blocks", sr.ReturnedNil, n, used)
		case cf.expectIdle && sr.Sent != 0:
			sr.Bad = fmt.Sprintf("the re-run sent %d transactions / notary requests although nothing is left to do", sr.Sent)
		case sr.Contracts != 8+n || !x.roleIsCommittee(noderoles.P2PNotary) || !x.roleIsCommittee(noderoles.NeoFSAlphabet):
			sr.Bad = "the re-run changed the set of contracts or the role designations"
		case differs && x.bc.GetUtilityTokenBalance(vAcc).Int64() > c13Reserve:
			sr.Bad = "more than the reserve is left on the validators' account"
		}
		res.Sweeps = append(res.Sweeps, sr)
		if sr.Bad != "" {
			return // the chain is not in a finished state any more
		}
	}
}

var c13Names = []string{"proxy", "audit", "netmap", "balance", "reputation", "neofsid", "container"}

func (x *c13Net) deployPrm(member int, fs []contracts.Contract) deploy.Prm {
	vAcc := wallet.NewAccountFromPrivateKey(x.accs[member].PrivateKey())
	require.NoError(x.t, vAcc.ConvertMultisig(smartcontract.GetDefaultHonestNodeCount(x.n), x.committee.Copy()))
	var p deploy.Prm
	p.Logger = x.logger(member)
	p.Blockchain = x.client(member)
	p.LocalAccount = x.accs[member]
	p.ValidatorMultiSigAccount = vAcc
	cp := func(c contracts.Contract) deploy.CommonDeployPrm {
		return deploy.CommonDeployPrm{NEF: c.NEF, Manifest: c.Manifest}
	}
	// order of contracts.GetFS: nns, proxy, audit, netmap, balance, reputation, neofsid, container, alphabet
	p.NNS.Common = cp(fs[0])
	p.NNS.SystemEmail = "nonexistent@nspcc.io"
	p.ProxyContract.Common = cp(fs[1])
	p.AuditContract.Common = cp(fs[2])
	p.NetmapContract.Common = cp(fs[3])
	p.BalanceContract.Common = cp(fs[4])
	p.ReputationContract.Common = cp(fs[5])
	p.NeoFSIDContract.Common = cp(fs[6])
	p.ContainerContract.Common = cp(fs[7])
	p.AlphabetContract.Common = cp(fs[8])
	p.NetmapContract.Config = deploy.NetworkConfiguration{MaxObjectSize: 64 << 20, StoragePrice: 1000, AuditFee: 10, EpochDuration: 240,
		ContainerFee: 1000, ContainerAliasFee: 500, EigenTrustIterations: 4, EigenTrustAlpha: 0.1, IRCandidateFee: 100, WithdrawalFee: 100}
	p.Glagolitsa = c13Glagolitsa{}
	return p
}

func (x *c13Net) roleIsCommittee(r noderoles.Role) bool {
	ks, _, err := x.bc.GetDesignatedByRole(r)
	if err != nil || len(ks) != x.n {
		return false
	}
	for _, k := range x.committee {
		if !ks.Contains(k) {
			return false
		}
	}
	return true
}

func (x *c13Net) waitHeight(ctx context.Context, h uint32) {
	for x.bc.BlockHeight() < h && ctx.Err() == nil {
		time.Sleep(2 * time.Millisecond)
	}
}

// runDeploy runs Deploy for every member concurrently with harness-produced blocks.
func (x *c13Net) runDeploy(fs []contracts.Contract, opt c13E2EOpt) (map[int]string, string, int) {
	ctx, cancel := context.WithCancel(context.Background())
	defer cancel()
	x.minDeposit, x.lowStreak = map[int]int64{}, map[int]int{}
	running := map[int]bool{} // Deploy of member m is between its start and its return
	var runMu sync.Mutex
	curStreak := map[int]int{}
	sample := func() {
		runMu.Lock()
		defer runMu.Unlock()
		for m, on := range running {
			if !on {
				curStreak[m] = 0
				continue
			}
			d := x.bc.GetNotaryBalance(x.accs[m].ScriptHash()).Int64()
			if _, seen := x.minDeposit[m]; !seen {
				if d == 0 {
					continue // no deposit made yet
				}
				x.minDeposit[m] = d
			}
			x.minDeposit[m] = min(x.minDeposit[m], d)
			if d < c13RequestCost {
				curStreak[m]++
				x.lowStreak[m] = max(x.lowStreak[m], curStreak[m])
			} else {
				curStreak[m] = 0
			}
		}
	}
	setRunning := func(m int, on bool) { runMu.Lock(); running[m] = on; runMu.Unlock() }
	ret := map[int]string{}
	cancelled := ""
	var mu sync.Mutex
	var wg sync.WaitGroup
	start := x.bc.BlockHeight()
	put := func(m int, err error) {
		mu.Lock()
		if err == nil {
			ret[m] = ""
		} else {
			ret[m] = err.Error()
		}
		mu.Unlock()
	}
	safeDeploy := func(dctx context.Context, m int, prm *deploy.Prm) (err error) {
		setRunning(m, true)
		defer setRunning(m, false)
		defer func() {
			if r := recover(); r != nil {
				err = fmt.Errorf("harness: %v", r)
			}
		}()
		if prm == nil {
			p := x.deployPrm(m, fs)
			prm = &p
		}
		return deploy.Deploy(dctx, *prm)
	}
	for m := 0; m < x.n; m++ {
		wg.Add(1)
		prm0 := x.deployPrm(m, fs)
		go func(m int) {
			defer wg.Done()
			if m < len(opt.StartDelay) {
				x.waitHeight(ctx, start+uint32(opt.StartDelay[m]))
			}
			if m != opt.CancelMember {
				put(m, safeDeploy(ctx, m, &prm0))
				return
			}
			// this member's process is stopped at an arbitrary block and started again
			mctx, mcancel := context.WithCancel(ctx)
			done := make(chan error, 1)
			go func() { done <- safeDeploy(mctx, m, &prm0) }()
			go func() { x.waitHeight(ctx, start+uint32(opt.CancelAt)); mcancel() }()
			err := <-done
			mcancel()
			if err == nil {
				put(m, nil) // finished before the cancellation
				return
			}
			mu.Lock()
			cancelled = err.Error()
			mu.Unlock()
			x.waitHeight(ctx, x.bc.BlockHeight()+uint32(opt.RestartAfter))
			put(m, safeDeploy(ctx, m, nil))
		}(m)
	}
	back := make(chan struct{})
	go func() { wg.Wait(); close(back) }()
loop:
	for int(x.bc.BlockHeight()-start) < opt.Budget {
		select {
		case <-back:
			break loop
		default:
			x.pace()
			x.addBlock()
			sample()
		}
	}
	used := int(x.bc.BlockHeight() - start)
	cancel()
	select {
	case <-back:
	case <-time.After(3 * time.Second):
	}
	mu.Lock()
	defer mu.Unlock()
	out := map[int]string{}
	for k, v := range ret {
		out[k] = v
	}
	return out, cancelled, used
}

// resolveName reads <name>.neofs and returns the contract it points to (nil if none).
func (x *c13Net) resolveName(aux *c13Chain, nns util.Uint160, name string) *state.Contract {
	res, err := aux.InvokeFunction(nns, "resolve", []smartcontract.Parameter{
		{Type: smartcontract.StringType, Value: name + ".neofs"}, {Type: smartcontract.IntegerType, Value: big.NewInt(16)}}, nil)
	if err != nil || res.State != "HALT" || len(res.Stack) != 1 {
		return nil
	}
	arr, ok := res.Stack[0].Value().([]stackitem.Item)
	if !ok || len(arr) != 1 {
		return nil
	}
	b, err := arr[0].TryBytes()
	if err != nil {
		return nil
	}
	h, err := util.Uint160DecodeStringLE(string(b))
	if err != nil {
		h, err = address.StringToUint160(string(b))
		if err != nil {
			return nil
		}
	}
	return x.bc.GetContractState(h)
}

// c13StageOrder is the order in which Deploy synchronises the system contracts
// (after NNS), read from the generated Coq parameters when available.
func c13StageOrder() []string {
	def := []string{"proxy", "audit", "netmap", "balance", "reputation", "neofsid", "container", "alphabet"}
	b, err := os.ReadFile(filepath.Join(envOr("VERIF_COQ", "/verif/coq"), "Gen", "Params.v"))
	if err != nil {
		return def
	}
	m := regexp.MustCompile(`p_deploy_stage_order : list string := \[([^\]]*)\]`).FindSubmatch(b)
	if m == nil {
		return def
	}
	var out []string
	for _, q := range regexp.MustCompile(`"([a-z0-9]+)"`).FindAllSubmatch(m[1], -1) {
		out = append(out, string(q[1]))
	}
	if len(out) < 2 {
		return def
	}
	return out
}

func (x *c13Net) deployedContracts() int {
	k := 0
	for id := int32(1); id < 200; id++ {
		if _, err := x.bc.GetContractScriptHash(id); err != nil {
			break
		}
		k++
	}
	return k
}

// prepare brings a fresh chain into an intermediate state of the deployment
// (a stage boundary), using the real code only, and reports what it reached:
//
//	nns-only       NNS deployed (real initNNSContract of the leader), nothing else
//	notary-only    NNS + the real Notary bootstrap (enableNotary of every member): P2PNotary designated, NeoFSAlphabet not
//	alphabet-only  NeoFSAlphabet designated by the committee, P2PNotary not, nothing deployed
//	contracts:K    deploy.Deploy of every member, all stopped at the first block where both roles are
//	               designated and K contracts besides NNS exist
func (x *c13Net) prepare(fs []contracts.Contract, stage string) map[string]any {
	switch {
	case stage == "nns-only":
		x.deployNNS()
	case stage == "notary-only":
		x.deployNNS()
		ctx, cancel := context.WithCancel(context.Background())
		var wg sync.WaitGroup
		for m := 0; m < x.n; m++ {
			wg.Add(1)
			prm := x.prm(m)
			go func() { defer wg.Done(); _ = deploy.VerifEnableNotary(ctx, prm) }()
		}
		back := make(chan struct{})
		go func() { wg.Wait(); close(back) }()
		start := x.bc.BlockHeight()
	loop:
		for int(x.bc.BlockHeight()-start) < 200 {
			select {
			case <-back:
				break loop
			default:
				x.pace()
				x.addBlock()
			}
		}
		cancel()
		select {
		case <-back:
		case <-time.After(3 * time.Second):
		}
	case stage == "alphabet-only":
		var ks []any
		for _, k := range x.committee {
			ks = append(ks, k.Bytes())
		}
		// the committee's multi-signature account authorises and pays: give it GAS first
		x.exec.ValidatorInvoker(x.exec.NativeHash(x.t, "GasToken")).Invoke(x.t, true, "transfer",
			x.exec.Validator.ScriptHash(), x.exec.Committee.ScriptHash(), int64(10_0000_0000), nil)
		x.exec.CommitteeInvoker(x.exec.NativeHash(x.t, "RoleManagement")).Invoke(x.t, stackitem.Null{}, "designateAsRole", int64(noderoles.NeoFSAlphabet), ks)
		x.addBlock()
	case strings.HasPrefix(stage, "contracts:"):
		var k int
		fmt.Sscanf(stage, "contracts:%d", &k)
		x.runDeployUntil(fs, 600, func() bool {
			return x.roleIsCommittee(noderoles.P2PNotary) && x.roleIsCommittee(noderoles.NeoFSAlphabet) && x.deployedContracts() >= 1+k
		})
	default:
		x.t.Fatalf("unknown prepared state %q", stage)
	}
	return map[string]any{"state": stage, "height": x.bc.BlockHeight(), "notary_role_is_committee": x.roleIsCommittee(noderoles.P2PNotary),
		"alphabet_role_is_committee": x.roleIsCommittee(noderoles.NeoFSAlphabet), "deployed_contracts": x.deployedContracts()}
}

// runDeployUntil runs Deploy for every member and stops all of them (context
// cancellation, as a process stop does) at the first block where stop() holds.
func (x *c13Net) runDeployUntil(fs []contracts.Contract, budget int, stop func() bool) {
	ctx, cancel := context.WithCancel(context.Background())
	var wg sync.WaitGroup
	for m := 0; m < x.n; m++ {
		wg.Add(1)
		prm := x.deployPrm(m, fs)
		go func() { defer wg.Done(); _ = deploy.Deploy(ctx, prm) }()
	}
	back := make(chan struct{})
	go func() { wg.Wait(); close(back) }()
	start := x.bc.BlockHeight()
loop:
	for int(x.bc.BlockHeight()-start) < budget && !stop() {
		select {
		case <-back:
			break loop
		default:
			x.pace()
			x.addBlock()
		}
	}
	cancel()
	select {
	case <-back:
	case <-time.After(3 * time.Second):
	}
}

// sentBesidesDeposits counts the transactions members sent, not counting top-ups
// of their own Notary deposit (GAS transfer of the member to the Notary
// contract): how much of a deposit the first run consumed depends on how many
// of its requests expired, i.e. on timing; refilling it later deploys,
// updates, registers and designates nothing. Caller holds x.mu.
func (x *c13Net) sentBesidesDeposits() int {
	k := 0
	for _, s := range x.sent {
		sc := s.Tx.Script
		if bytes.Contains(sc, []byte("transfer")) && bytes.Contains(sc, nativehashes.Notary.BytesBE()) &&
			bytes.Contains(sc, nativehashes.GasToken.BytesBE()) && s.Member >= 0 &&
			bytes.Contains(sc, x.accs[s.Member].ScriptHash().BytesBE()) {
			continue
		}
		k++
	}
	return k
}

func c13RunE2E(t testing.TB, opt c13E2EOpt, salt int64) *c13E2E {
	n := opt.N
	ms := 5 // only the number of blocks matters to Deploy; the bootstrap-only runs keep c13BlockMs
	if opt.BlockMs > 0 {
		ms = opt.BlockMs
	}
	x := newC13NetMs(t, n, salt, ms)
	x.slow = max(opt.Slow, 1)
	x.withNotary()
	// every member starts with 20 GAS only: after the run the leader (who paid for NNS, the system contracts,
	// its Alphabet contract and the domains) is below the 150 GAS refill mark of the funds stage
	x.fund(20 * c13GAS)
	bankAcc := wallet.NewAccountFromPrivateKey(c13Key(salt, 2000))
	bank := neotest.NewSingleSigner(bankAcc)
	x.exec.ValidatorInvoker(x.exec.NativeHash(t, "GasToken")).Invoke(t, true, "transfer",
		x.exec.Validator.ScriptHash(), bankAcc.ScriptHash(), 100_000*c13GAS, nil)
	fs, err := contracts.GetFS()
	require.NoError(t, err)
	res := &c13E2E{Opt: opt, Names: map[string]int{}}
	if opt.Stage != "" {
		res.Prepared = x.prepare(fs, opt.Stage)
		x.mu.Lock()
		x.sent, x.notaryReqs = nil, 0
		x.mu.Unlock()
	}
	res.Returned, res.Cancelled, res.Blocks = x.runDeploy(fs, opt)
	res.MinDeposit, res.LowStreak = map[int]string{}, map[int]int{}
	for m, d := range x.minDeposit {
		res.MinDeposit[m] = fixedn.Fixed8(d).String()
	}
	for m, k := range x.lowStreak {
		res.LowStreak[m] = k
	}
	res.Notary = x.roleIsCommittee(noderoles.P2PNotary)
	res.Alphabet = x.roleIsCommittee(noderoles.NeoFSAlphabet)
	var nns util.Uint160
	if h, err := x.bc.GetContractScriptHash(1); err == nil {
		nns = h
		res.NNSID1 = x.bc.GetContractState(h).Manifest.Name == "NameService"
	}
	for id := int32(1); id < 200; id++ {
		if _, err := x.bc.GetContractScriptHash(id); err != nil {
			break
		}
		res.Contracts++
	}
	aux := x.client(-1)
	seen := map[util.Uint160]bool{}
	res.Distinct = true
	check := func(name string, want contracts.Contract) {
		res.Names[name] = 0
		cs := x.resolveName(aux, nns, name)
		if cs == nil {
			return
		}
		if seen[cs.Hash] {
			res.Distinct = false
		}
		seen[cs.Hash] = true
		if cs.NEF.Checksum == want.NEF.Checksum && cs.Manifest.Name == want.Manifest.Name {
			res.Names[name] = 1
		}
	}
	if res.NNSID1 {
		for i, nm := range c13Names {
			check(nm, fs[1+i])
		}
		for i := 0; i < n; i++ {
			check(fmt.Sprintf("alphabet%d", i), fs[8])
		}
	}
	x.mu.Lock()
	res.Sent = len(x.sent) + x.notaryReqs
	x.sent = nil
	x.notaryReqs = 0
	x.mu.Unlock()
	// idempotent re-run on the finished chain
	allNil := len(res.Returned) == n
	for _, e := range res.Returned {
		allNil = allNil && e == ""
	}
	if allNil {
		if x.exec.Validator.ScriptHash().Equals(x.exec.Committee.ScriptHash()) {
			// committee sizes 1, 2, 4: the validators' account is the committee's; a member below the refill mark is
			// legitimately topped up by any later run, so refill first: then nothing at all is left to do
			x.refill(bank)
			x.mu.Lock()
			x.sent, x.notaryReqs = nil, 0
			x.mu.Unlock()
		}
		res.RerunValidator = fixedn.Fixed8(x.bc.GetUtilityTokenBalance(x.exec.Validator.ScriptHash()).Int64()).String()
		res.RerunLeader = fixedn.Fixed8(x.bc.GetUtilityTokenBalance(x.accs[0].ScriptHash()).Int64()).String()
		ret, _, used := x.runDeploy(fs, c13E2EOpt{N: n, Budget: 60 * min(x.slow, 2), CancelMember: -1})
		res.RerunBlocks = used
		for _, e := range ret {
			if e == "" {
				res.RerunNil++
			}
		}
		x.mu.Lock()
		res.RerunSent = x.sentBesidesDeposits() + x.notaryReqs
		if os.Getenv("VERIF_C13_LOG") != "" {
			for _, s := range x.sent {
				fmt.Printf("RERUN-SENT m%d %+v err=%v\n", s.Member, c13Classify(s.Tx), s.Err)
			}
		}
		x.mu.Unlock()
		if opt.Sweep && res.RerunNil == n && res.RerunSent == 0 {
			x.sweep(fs, bank, res)
		}
	}
	x.close()
	return res
}

// coq prints the observation as a (n, final_obs) case.
func (r *c13E2E) coq() string {
	nilCount := 0
	for _, e := range r.Returned {
		if e == "" {
			nilCount++
		}
	}
	var names []string
	for i, nm := range c13Names {
		names = append(names, fmt.Sprintf("(%d%%nat, %d%%nat)", i, r.Names[nm]))
	}
	for i := 0; i < r.Opt.N; i++ {
		names = append(names, fmt.Sprintf("(%d%%nat, %d%%nat)", 100+i, r.Names[fmt.Sprintf("alphabet%d", i)]))
	}
	return fmt.Sprintf("(%d%%nat, mkFinal %d %s %s %s %d %s %s %d %d)", r.Opt.N, nilCount, BoolLit(r.Notary), BoolLit(r.Alphabet),
		BoolLit(r.NNSID1), r.Contracts, ListLit(names), BoolLit(r.Distinct), r.RerunNil, r.RerunSent)
}

// c13EndToEnd runs the end-to-end scenarios; returns Coq definitions and the extra term of M.
func c13EndToEnd(c *c13) (string, string) {
	r := Rng(1303)
	type sc struct {
		opt  c13E2EOpt
		note string
	}
	delays := func(n, max int) []int {
		d := make([]int, n)
		for i := range d {
			d[i] = r.Intn(max + 1)
		}
		return d
	}
	thorough := Tier() == "thorough"
	scs := []sc{
		{c13E2EOpt{N: 1, Budget: 300, CancelMember: -1, Sweep: thorough}, "single member"},
		{c13E2EOpt{N: 2, Budget: 300, CancelMember: -1, Sweep: thorough}, "two members"},
		{c13E2EOpt{N: 3, Budget: 400, CancelMember: -1, StartDelay: delays(3, 6), Sweep: true}, "arbitrary start order"},
		{c13E2EOpt{N: 7, Budget: 800, CancelMember: -1, Sweep: true}, "seven members"},
		{c13E2EOpt{N: 3, Budget: 500, CancelMember: 1 + r.Intn(2), CancelAt: 5 + r.Intn(40), RestartAfter: 1 + r.Intn(6)}, "a signer is stopped and restarted"},
		{c13E2EOpt{N: 4, Budget: 700, CancelMember: 0, CancelAt: 5 + r.Intn(40), RestartAfter: 1 + r.Intn(6), StartDelay: delays(4, 4)}, "the leader is stopped and restarted"},
	}
	scs[len(scs)-1].opt.Sweep = thorough
	// a member joins after a LONG delay: the others wait at a step that needs it, their Notary requests expire
	// (each expiry costs the deposit a fallback fee) and must keep being paid for; once the last member is up,
	// every Deploy must return nil within 300 blocks. Fast blocks: only their number matters.
	late := func(n, who, by int) sc {
		d := make([]int, n)
		d[who] = by
		return sc{c13E2EOpt{N: n, Budget: by + 300, CancelMember: -1, StartDelay: d, BlockMs: 5},
			fmt.Sprintf("member %d of %d joins %d blocks after the others", who, n, by)}
	}
	scs = append(scs, late(4, 3, 380))
	if thorough {
		for _, by := range []int{100, 250, 400} {
			for _, who := range []int{0, 1, 3} {
				scs = append(scs, late(4, who, by))
			}
		}
		for n := 5; n <= 7; n++ {
			scs = append(scs, late(n, n-1, 400), late(n, 0, 400), late(n, 1, 250))
		}
	}
	if thorough {
		for _, n := range []int{5, 6} {
			scs = append(scs, sc{c13E2EOpt{N: n, Budget: 800, CancelMember: -1, Sweep: true}, fmt.Sprintf("%d members", n)})
		}
	}
	// restart at every stage boundary: Deploy started on chains prepared in each intermediate state
	order := c13StageOrder()
	stages := func(n int) []string {
		last := len(order) - 1 + n - 1 // everything but the last Alphabet contract
		return []string{"nns-only", "notary-only", "alphabet-only", "contracts:1", fmt.Sprintf("contracts:%d", len(order)/2), fmt.Sprintf("contracts:%d", last)}
	}
	for _, st := range []string{"notary-only", "alphabet-only", fmt.Sprintf("contracts:%d", len(order)/2)} {
		if thorough || !strings.HasPrefix(st, "contracts:") {
			scs = append(scs, sc{c13E2EOpt{N: 1, Budget: 300, CancelMember: -1, Stage: st}, "started on a prepared chain: " + st})
		}
	}
	for _, st := range stages(3) {
		if thorough || st != "contracts:1" {
			scs = append(scs, sc{c13E2EOpt{N: 3, Budget: 400, CancelMember: -1, Stage: st}, "started on a prepared chain: " + st})
		}
	}
	if Tier() == "thorough" {
		for _, n := range []int{2, 4, 7} {
			for _, st := range stages(n) {
				scs = append(scs, sc{c13E2EOpt{N: n, Budget: 700, CancelMember: -1, Stage: st}, "started on a prepared chain: " + st})
			}
		}
		for k := 2; k < len(order)-1+3-1; k++ {
			scs = append(scs, sc{c13E2EOpt{N: 3, Budget: 500, CancelMember: -1, Stage: fmt.Sprintf("contracts:%d", k)}, "started on a prepared chain"})
		}
		for n := 3; n <= 7; n++ {
			scs = append(scs, sc{c13E2EOpt{N: n, Budget: 900, CancelMember: r.Intn(n), CancelAt: 3 + r.Intn(60), RestartAfter: 1 + r.Intn(8), StartDelay: delays(n, 8)}, "thorough"})
			late := delays(n, 3)
			late[n-1] = 40 // a minority of non-leading members absent during the Notary bootstrap
			scs = append(scs, sc{c13E2EOpt{N: n, Budget: 900, CancelMember: -1, StartDelay: late}, "last member absent during bootstrap"})
		}
		scs = append(scs, sc{c13E2EOpt{N: 2, Budget: 500, CancelMember: 1, CancelAt: 3 + r.Intn(30), RestartAfter: 1 + r.Intn(8)}, "two members, the signer restarted"})
	}
	var fcases []string
	for i, s := range scs {
		c13Confirm(c, "deploy.Deploy "+s.note, func(slow int) {
			c13Guard(c, "deploy.Deploy "+s.note, func() any { return s.opt }, func() {
				opt := s.opt
				if slow > 1 { // the confirming run: block interval x4, block budget x2, fresh chain
					if opt.BlockMs == 0 {
						opt.BlockMs = 5
					}
					opt.BlockMs *= slow
					opt.Budget *= 2
					opt.Slow = slow
				}
				res := c13RunE2E(c.t, opt, int64(7000+i))
				c.st.Evaluations += res.Sent
				c.st.OpHistogram["deploy-run"]++
				nilCount := 0
				for _, e := range res.Returned {
					if e == "" {
						nilCount++
					}
				}
				for m, k := range res.LowStreak {
					if k > c13LowDepositBlocks {
						c.violation(fmt.Sprintf("deploy.Deploy (n=%d, %s): the Notary deposit of member %d stayed below the cost of one request (0.12 GAS) for %d blocks while its Deploy was running (lowest seen %s GAS) — it can neither send nor co-sign Notary requests",
							s.opt.N, s.note, m, k, res.MinDeposit[m]), res)
					}
				}
				out := "converged"
				switch {
				case nilCount == s.opt.N:
					fcases = append(fcases, "(* "+s.note+" *) "+res.coq())
					c.nontr++
					ok := res.Notary && res.Alphabet && res.NNSID1 && res.Contracts == 8+s.opt.N && res.Distinct && res.RerunNil == s.opt.N && res.RerunSent == 0
					for _, v := range res.Names {
						ok = ok && v == 1
					}
					for _, sw := range res.Sweeps {
						c.st.OutcomeHistogram["deploy-rerun-on-thresholds"]++
						if sw.Bad != "" {
							out = "re-run-on-thresholds-failed"
							c.violation(fmt.Sprintf("deploy.Deploy re-run on the finished chain (n=%d; %s: validators' account %s GAS, member %s GAS): %s",
								s.opt.N, sw.Name, sw.ValidatorBefore, sw.LeaderBefore, sw.Bad), res)
						}
					}
					if res.RerunNil != s.opt.N || res.RerunSent != 0 {
						c.violation(fmt.Sprintf("deploy.Deploy re-run on the finished chain (n=%d, %s; validators' account %s GAS, leader %s GAS): %d of %d members returned nil within %d blocks, %d transactions / notary requests sent (must be all, 0)",
							s.opt.N, s.note, res.RerunValidator, res.RerunLeader, res.RerunNil, s.opt.N, res.RerunBlocks, res.RerunSent), res)
					}
					if !ok {
						out = "wrong-final-state"
						c.violation("deploy.Deploy returned nil for every member but the final state is not the expected one, or the re-run was not idle ("+s.note+")", res)
					}
				default:
					out = "not-converged"
					c.violation(fmt.Sprintf("deploy.Deploy did not return nil for every member within %d blocks (%s): notary role designated=%v", s.opt.Budget, s.note, res.Notary), res)
				}
				c.st.OutcomeHistogram["deploy:"+out]++
				c.st.Extra[fmt.Sprintf("deploy #%d (%s)", i, s.note)] = res
				if os.Getenv("VERIF_C13_LOG") != "" {
					fmt.Printf("E2E %s: %s %+v\n", s.note, out, *res)
				}
			})
		})
		c.st.Histories++
	}
	return "Definition fcases : list (nat * final_obs) := " + ListLit(fcases) + ".\n", " ++ map check_final fcases"
}
