//go:build verif_c13

package harness

import (
	"context"
	"errors"
	"fmt"
	"os"
	"path/filepath"
	"sort"
	"sync"
	"testing"
	"time"

	"github.com/nspcc-dev/neo-go/pkg/config"
	"github.com/nspcc-dev/neo-go/pkg/core"
	"github.com/nspcc-dev/neo-go/pkg/core/native/noderoles"
	"github.com/nspcc-dev/neo-go/pkg/core/transaction"
	"github.com/nspcc-dev/neo-go/pkg/crypto/keys"
	"github.com/nspcc-dev/neo-go/pkg/services/notary"
	"github.com/nspcc-dev/neo-go/pkg/smartcontract"
	"github.com/nspcc-dev/neo-go/pkg/wallet"
	"github.com/nspcc-dev/neofs-contract/contracts"
	"github.com/nspcc-dev/neofs-contract/deploy"
	"github.com/stretchr/testify/require"
	"go.uber.org/zap"
)

// ---------------------------------------------------------------------------
// (c) End to end: the public deploy.Deploy, one goroutine per committee
// member, on the in-process chain with one Notary service.

type c13Glagolitsa struct{}

func (c13Glagolitsa) Size() int                  { return 41 }
func (c13Glagolitsa) LetterByIndex(i int) string { return fmt.Sprintf("letter%d", i) }

// withNotary attaches a P2P Notary service (holding every member's key, so
// whichever of them is designated can complete requests) to the node.
func (x *c13Net) withNotary() {
	dir := x.t.TempDir()
	p := filepath.Join(dir, "notary.json")
	w, err := wallet.NewWallet(p)
	require.NoError(x.t, err)
	w.Scrypt = keys.ScryptParams{N: 2, R: 1, P: 1}
	for _, a := range x.accs {
		acc := wallet.NewAccountFromPrivateKey(a.PrivateKey())
		require.NoError(x.t, acc.Encrypt("pass", w.Scrypt))
		w.AddAccount(acc)
	}
	require.NoError(x.t, w.Save())
	cfg := notary.Config{MainCfg: config.P2PNotary{Enabled: true, UnlockWallet: config.Wallet{Path: p, Password: "pass"}}, Chain: x.bc, Log: zap.NewNop()}
	n, err := notary.NewNotary(cfg, x.bc.GetConfig().Magic, x.netSrv.GetNotaryPool(), func(tx *transaction.Transaction) error {
		err := x.netSrv.RelayTxn(tx)
		if err != nil && !isKnownTx(err) {
			return err
		}
		return nil
	})
	require.NoError(x.t, err)
	x.netSrv.AddService(n)
	x.bc.SetNotary(n)
	n.Start()
	x.t.Cleanup(n.Shutdown)
}

func isKnownTx(err error) bool {
	return errors.Is(err, core.ErrAlreadyExists) || errors.Is(err, core.ErrAlreadyInPool)
}

type c13E2E struct {
	N           int               `json:"n"`
	Blocks      int               `json:"blocks_used"`
	Budget      int               `json:"block_budget"`
	Returned    map[int]string    `json:"deploy_returned"` // member -> "" (nil) or error
	Notary      bool              `json:"notary_role_is_committee"`
	Alphabet    bool              `json:"alphabet_role_is_committee"`
	NNSID1      bool              `json:"nns_has_id_1"`
	Contracts   int               `json:"deployed_contracts"`
	Names       map[string]string `json:"neofs_zone"`
	Sent        int               `json:"transactions_sent"`
	RerunSent   int               `json:"rerun_transactions_sent"`
	RerunOK     bool              `json:"rerun_all_returned_nil"`
	RerunBlocks int               `json:"rerun_blocks"`
}

func (x *c13Net) deployPrm(member int, fs []contracts.Contract) deploy.Prm {
	vAcc := wallet.NewAccountFromPrivateKey(x.accs[member].PrivateKey())
	require.NoError(x.t, vAcc.ConvertMultisig(smartcontract.GetDefaultHonestNodeCount(x.n), x.committee.Copy()))
	var p deploy.Prm
	p.Logger = x.logger(member)
	p.Blockchain = x.client(member)
	p.LocalAccount = x.accs[member]
	p.ValidatorMultiSigAccount = vAcc
	cp := func(c contracts.Contract) deploy.CommonDeployPrm {
		return deploy.CommonDeployPrm{NEF: c.NEF, Manifest: c.Manifest}
	}
	// order of contracts.GetFS: nns, proxy, audit, netmap, balance, reputation, neofsid, container, alphabet
	p.NNS.Common = cp(fs[0])
	p.NNS.SystemEmail = "nonexistent@nspcc.io"
	p.ProxyContract.Common = cp(fs[1])
	p.AuditContract.Common = cp(fs[2])
	p.NetmapContract.Common = cp(fs[3])
	p.BalanceContract.Common = cp(fs[4])
	p.ReputationContract.Common = cp(fs[5])
	p.NeoFSIDContract.Common = cp(fs[6])
	p.ContainerContract.Common = cp(fs[7])
	p.AlphabetContract.Common = cp(fs[8])
	p.NetmapContract.Config = deploy.NetworkConfiguration{MaxObjectSize: 64 << 20, StoragePrice: 1000, AuditFee: 10, EpochDuration: 240,
		ContainerFee: 1000, ContainerAliasFee: 500, EigenTrustIterations: 4, EigenTrustAlpha: 0.1, IRCandidateFee: 100, WithdrawalFee: 100}
	p.Glagolitsa = c13Glagolitsa{}
	return p
}

func (x *c13Net) roleIsCommittee(r noderoles.Role) bool {
	ks, _, err := x.bc.GetDesignatedByRole(r)
	if err != nil || len(ks) != x.n {
		return false
	}
	for _, k := range x.committee {
		if !ks.Contains(k) {
			return false
		}
	}
	return true
}

// runDeploy runs Deploy for every member concurrently with harness-produced blocks.
func (x *c13Net) runDeploy(fs []contracts.Contract, budget int, blockMs int) (map[int]string, int) {
	ctx, cancel := context.WithCancel(context.Background())
	defer cancel()
	ret := map[int]string{}
	var mu sync.Mutex
	var wg sync.WaitGroup
	for m := 0; m < x.n; m++ {
		wg.Add(1)
		go func(m int) {
			defer wg.Done()
			err := deploy.Deploy(ctx, x.deployPrm(m, fs))
			mu.Lock()
			if err == nil {
				ret[m] = ""
			} else {
				ret[m] = err.Error()
			}
			mu.Unlock()
		}(m)
	}
	back := make(chan struct{})
	go func() { wg.Wait(); close(back) }()
	start := x.bc.BlockHeight()
loop:
	for int(x.bc.BlockHeight()-start) < budget {
		select {
		case <-back:
			break loop
		case <-time.After(time.Duration(blockMs) * time.Millisecond):
			x.addBlock()
		}
	}
	used := int(x.bc.BlockHeight() - start)
	cancel()
	select {
	case <-back:
	case <-time.After(3 * time.Second):
	}
	mu.Lock()
	defer mu.Unlock()
	out := map[int]string{}
	for k, v := range ret {
		out[k] = v
	}
	return out, used
}

func c13RunE2E(t testing.TB, n int, budget int, salt int64) *c13E2E {
	x := newC13Net(t, n, salt)
	x.withNotary()
	x.fund(2000_0000_0000)
	fs, err := contracts.GetFS()
	require.NoError(t, err)
	res := &c13E2E{N: n, Budget: budget, Names: map[string]string{}}
	res.Returned, res.Blocks = x.runDeploy(fs, budget, c13BlockMs)
	res.Notary = x.roleIsCommittee(noderoles.P2PNotary)
	res.Alphabet = x.roleIsCommittee(noderoles.NeoFSAlphabet)
	if h, err := x.bc.GetContractScriptHash(1); err == nil {
		res.NNSID1 = x.bc.GetContractState(h).Manifest.Name == "NameService"
	}
	for id := int32(1); id < 64; id++ {
		h, err := x.bc.GetContractScriptHash(id)
		if err != nil {
			break
		}
		res.Contracts++
		res.Names[fmt.Sprint(id)] = x.bc.GetContractState(h).Manifest.Name
	}
	x.mu.Lock()
	res.Sent = len(x.sent)
	x.sent = nil
	x.mu.Unlock()
	// idempotent re-run on the finished chain
	if len(res.Returned) == n {
		ok := true
		for _, e := range res.Returned {
			ok = ok && e == ""
		}
		if ok {
			ret, used := x.runDeploy(fs, 60, c13BlockMs)
			res.RerunBlocks = used
			res.RerunOK = len(ret) == n
			for _, e := range ret {
				res.RerunOK = res.RerunOK && e == ""
			}
			x.mu.Lock()
			res.RerunSent = len(x.sent)
			if os.Getenv("VERIF_C13_LOG") != "" {
				for _, s := range x.sent {
					fmt.Printf("RERUN-SENT m%d %+v err=%v\n", s.Member, c13Classify(s.Tx), s.Err)
				}
			}
			x.mu.Unlock()
		}
	}
	x.close()
	return res
}

func TestC13E2E(t *testing.T) {
	for _, n := range []int{1, 3} {
		r := c13RunE2E(t, n, 400, int64(7000+n))
		ks := make([]string, 0)
		for k, v := range r.Names {
			ks = append(ks, k+"="+v)
		}
		sort.Strings(ks)
		fmt.Printf("E2E %+v\n  %v\n", *r, ks)
	}
}
