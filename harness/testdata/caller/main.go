// Package caller is a helper contract of the verification harness: it forwards
// a call to another contract, so that "the calling contract is X" paths can
// be exercised.
package caller

import (
	"github.com/nspcc-dev/neo-go/pkg/interop"
	"github.com/nspcc-dev/neo-go/pkg/interop/contract"
)

// Call forwards the call.
func Call(h interop.Hash160, method string, args []any) any {
	return contract.Call(h, method, contract.All, args...)
}

// OnNEP17Payment accepts everything.
func OnNEP17Payment(from interop.Hash160, amount int, data any) {
}
