// Package votepayee is a helper contract of the verification harness (C17): a
// contract-owned wallet that can be named as the payee of a NeoFS cheque.
// When it is paid while armed, its onNEP17Payment disarms itself and then
// calls back into the paying contract as the armed program says: a list of
// [method, args] invocations of the payer (e.g. the same `cheque` with the same
// decision id again — the witness of the Alphabet key that signed the carrier
// transaction still holds with Global scope), optionally followed by a panic.
// Unarmed it accepts every payment silently.
package votepayee

import (
	"github.com/nspcc-dev/neo-go/pkg/interop"
	"github.com/nspcc-dev/neo-go/pkg/interop/contract"
	"github.com/nspcc-dev/neo-go/pkg/interop/native/std"
	"github.com/nspcc-dev/neo-go/pkg/interop/storage"
)

const (
	callsKey = "calls"
	faultKey = "fault"
	countKey = "count"
)

// Arm stores the program of the next payment: calls = [[method, [args...]], ...].
func Arm(calls []any, fault bool) {
	ctx := storage.GetContext()
	storage.Put(ctx, callsKey, std.Serialize(calls))
	storage.Put(ctx, faultKey, fault)
}

// Disarm forgets the program.
func Disarm() {
	ctx := storage.GetContext()
	storage.Delete(ctx, callsKey)
	storage.Delete(ctx, faultKey)
}

// Payments returns the number of payments received (callbacks completed).
func Payments() int {
	v := storage.Get(storage.GetReadOnlyContext(), countKey)
	if v == nil {
		return 0
	}
	return v.(int)
}

// OnNEP17Payment runs the armed program once.
func OnNEP17Payment(from interop.Hash160, amount int, data any) {
	ctx := storage.GetContext()
	n := 0
	if v := storage.Get(ctx, countKey); v != nil {
		n = v.(int)
	}
	storage.Put(ctx, countKey, n+1)
	raw := storage.Get(ctx, callsKey)
	if raw == nil {
		return
	}
	fault := storage.Get(ctx, faultKey).(bool)
	storage.Delete(ctx, callsKey)
	storage.Delete(ctx, faultKey)
	calls := std.Deserialize(raw.([]byte)).([]any)
	for i := range calls {
		c := calls[i].([]any)
		contract.Call(from, c[0].(string), contract.All, c[1].([]any)...)
	}
	if fault {
		panic("rejected by the receiver")
	}
}
