// Command c15probe is compiled by harness/artifacts_test.go (TestC15) inside a
// scratch module whose `replace` points at the tree under test, so that the
// tree's OWN package contracts (with its go:embed files) is what runs.
//
// For every accessor listed in accessors_gen.go (generated: the exported
// functions of package contracts with signature func() ([]Contract, error))
// it checks that EVERY call — not only the first one of the process — returns
// exactly the committed artifacts, in the expected order, whatever earlier
// callers did to the values they were given:
//
//	call; compare with the files on disk; deep-copy the rendering;
//	mutate everything reachable from the result (order, slice header, NEF
//	script bytes / tokens / header fields, manifest name / ABI / events /
//	permissions / groups / standards / trusts / extra / features);
//	call again; compare with disk and with the first rendering; ...
//
// then the same from several goroutines at once.  Findings are printed as JSON.
package main

import (
	"bytes"
	"encoding/json"
	"flag"
	"fmt"
	"os"
	"path/filepath"
	"sort"
	"strings"
	"sync"

	"github.com/nspcc-dev/neo-go/pkg/crypto/keys"
	"github.com/nspcc-dev/neo-go/pkg/smartcontract"
	"github.com/nspcc-dev/neo-go/pkg/smartcontract/manifest"
	"github.com/nspcc-dev/neo-go/pkg/smartcontract/nef"
	"github.com/nspcc-dev/neo-go/pkg/util"
	"github.com/nspcc-dev/neofs-contract/contracts"
)

type problem struct {
	Accessor string `json:"accessor"`
	Call     string `json:"call"`  // which call of the sequence
	After    string `json:"after"` // what earlier callers had done
	What     string `json:"what"`
}

type report struct {
	Accessors   []string  `json:"accessors"`
	Calls       int       `json:"calls"`
	Comparisons int       `json:"comparisons"`
	Problems    []problem `json:"problems"`
}

// rendered is the byte-exact rendering of one returned contract.
type rendered struct {
	Nef      []byte
	Manifest []byte // canonical JSON of the manifest struct
	Name     string
}

var (
	rep   report
	mu    sync.Mutex
	disk  = map[string]rendered{} // manifest name -> committed artifacts
	dirOf = map[string]string{}   // manifest name -> directory
)

func add(acc, call, after, format string, a ...any) {
	mu.Lock()
	defer mu.Unlock()
	if len(rep.Problems) < 40 {
		rep.Problems = append(rep.Problems, problem{acc, call, after, fmt.Sprintf(format, a...)})
	}
}

func render(c *contracts.Contract) (r rendered, err error) {
	defer func() {
		if x := recover(); x != nil {
			err = fmt.Errorf("panic while serialising: %v", x)
		}
	}()
	r.Name = c.Manifest.Name
	if r.Nef, err = c.NEF.Bytes(); err != nil {
		return r, fmt.Errorf("NEF does not serialise: %w", err)
	}
	if r.Manifest, err = json.Marshal(&c.Manifest); err != nil {
		return r, fmt.Errorf("manifest does not serialise: %w", err)
	}
	return r, nil
}

func firstDiff(a, b []byte) int {
	n := min(len(a), len(b))
	for i := 0; i < n; i++ {
		if a[i] != b[i] {
			return i
		}
	}
	if len(a) != len(b) {
		return n
	}
	return -1
}

// check compares one result with the disk (and with the first rendering of the
// accessor, if any) and returns its rendering.
func check(acc, call, after string, res []contracts.Contract, err error, order []string, first []rendered) []rendered {
	mu.Lock()
	rep.Calls++
	mu.Unlock()
	if err != nil {
		add(acc, call, after, "returns error: %v", err)
		return nil
	}
	if len(order) > 0 && len(res) != len(order) {
		add(acc, call, after, "returns %d contracts, contracts.go lists %d", len(res), len(order))
	}
	var out []rendered
	var dirs []string
	for i := range res {
		r, err := render(&res[i])
		if err != nil {
			add(acc, call, after, "contract #%d: %v", i, err)
			out = append(out, rendered{})
			dirs = append(dirs, "?")
			continue
		}
		out = append(out, r)
		mu.Lock()
		rep.Comparisons += 2
		mu.Unlock()
		d, ok := disk[r.Name]
		if !ok {
			add(acc, call, after, "contract #%d has manifest name %q: no committed manifest.json has it", i, r.Name)
			dirs = append(dirs, "?")
			continue
		}
		dir := dirOf[r.Name]
		dirs = append(dirs, dir)
		if off := firstDiff(r.Nef, d.Nef); off >= 0 {
			add(acc, call, after, "contract #%d (%s): NEF differs from contracts/%s/contract.nef at byte %d (lengths %d/%d)", i, r.Name, dir, off, len(r.Nef), len(d.Nef))
		}
		if off := firstDiff(r.Manifest, d.Manifest); off >= 0 {
			add(acc, call, after, "contract #%d (%s): manifest differs from contracts/%s/manifest.json at byte %d of the canonical JSON: got ...%s, committed ...%s",
				i, r.Name, dir, off, clip(r.Manifest, off), clip(d.Manifest, off))
		}
	}
	if len(order) > 0 && strings.Join(dirs, ",") != strings.Join(order, ",") {
		add(acc, call, after, "order is %v, contracts.go says %v", dirs, order)
	}
	if first != nil {
		mu.Lock()
		rep.Comparisons++
		mu.Unlock()
		if len(first) != len(out) {
			add(acc, call, after, "returns %d contracts, the first call returned %d", len(out), len(first))
		} else {
			for i := range out {
				if !bytes.Equal(out[i].Nef, first[i].Nef) || !bytes.Equal(out[i].Manifest, first[i].Manifest) {
					add(acc, call, after, "contract #%d differs from what the first call of the process returned at #%d (%q vs %q)", i, i, out[i].Name, first[i].Name)
					break
				}
			}
		}
	}
	return out
}

func clip(b []byte, off int) string {
	lo, hi := max(0, off-20), min(len(b), off+40)
	return string(b[lo:hi])
}

// mutate changes, in place, everything reachable from res: what a careless (or
// merely ordinary: sorting, filtering, adding groups) caller may do to a value
// it was given as its own.
func mutate(res []contracts.Contract, variant int) {
	defer func() { _ = recover() }()
	k, _ := keys.NewPrivateKey()
	for i := range res {
		c := &res[i]
		// NEF
		for j := range c.NEF.Script {
			c.NEF.Script[j] ^= 0xA5 // in place: a shared backing array shows
		}
		c.NEF.Script = append(c.NEF.Script[:len(c.NEF.Script)/2], 0x40)
		c.NEF.Compiler = "mutated"
		c.NEF.Source = "mutated"
		c.NEF.Checksum++
		for j := range c.NEF.Tokens {
			c.NEF.Tokens[j].Method = "mutated"
			c.NEF.Tokens[j].ParamCount++
			c.NEF.Tokens[j].Hash[0] ^= 0xff
		}
		c.NEF.Tokens = append(c.NEF.Tokens, nef.MethodToken{Method: "extra"})
		// manifest
		m := &c.Manifest
		m.Name = m.Name + " (mutated)"
		for j := range m.ABI.Methods {
			md := &m.ABI.Methods[j]
			md.Name = "mutated" + md.Name
			md.Offset += 7
			md.Safe = !md.Safe
			md.ReturnType = smartcontract.AnyType
			for p := range md.Parameters {
				md.Parameters[p].Name = "mutated"
				md.Parameters[p].Type = smartcontract.AnyType
			}
			md.Parameters = append(md.Parameters, manifest.Parameter{Name: "extra", Type: smartcontract.AnyType})
		}
		if len(m.ABI.Methods) > 1 {
			m.ABI.Methods = m.ABI.Methods[:1]
		}
		for j := range m.ABI.Events {
			m.ABI.Events[j].Name = "Mutated"
			for p := range m.ABI.Events[j].Parameters {
				m.ABI.Events[j].Parameters[p].Type = smartcontract.AnyType
			}
		}
		m.ABI.Events = append(m.ABI.Events, manifest.Event{Name: "Extra"})
		for j := range m.Permissions {
			p := &m.Permissions[j]
			for x := range p.Methods.Value {
				p.Methods.Value[x] = "mutated"
			}
			p.Methods.Value = append(p.Methods.Value, "extra")
			p.Contract = manifest.PermissionDesc{Type: manifest.PermissionWildcard}
		}
		m.Permissions = append(m.Permissions, *manifest.NewPermission(manifest.PermissionWildcard))
		if k != nil {
			h := util.Uint160{byte(i), byte(variant)}
			m.Groups = append(m.Groups, manifest.Group{PublicKey: k.PublicKey(), Signature: k.Sign(h.BytesBE())})
		}
		for j := range m.SupportedStandards {
			m.SupportedStandards[j] = "NEP-0"
		}
		m.SupportedStandards = append(m.SupportedStandards, "NEP-999")
		m.Trusts.Value = append(m.Trusts.Value, manifest.PermissionDesc{Type: manifest.PermissionWildcard})
		for j := range m.Extra {
			m.Extra[j] = ' '
		}
		m.Extra = json.RawMessage(`{"mutated":true}`)
		for j := range m.Features {
			m.Features[j] = ' '
		}
		m.Features = json.RawMessage(`{"mutated":true}`)
	}
	// order and slice header
	switch variant % 3 {
	case 0:
		for i, j := 0, len(res)-1; i < j; i, j = i+1, j-1 {
			res[i], res[j] = res[j], res[i]
		}
	case 1:
		sort.Slice(res, func(i, j int) bool { return res[i].Manifest.Name > res[j].Manifest.Name })
	case 2:
		if len(res) > 1 {
			copy(res, res[1:]) // "filter out the first": shifts in place
		}
	}
	if len(res) > 0 {
		res = append(res[:len(res)-1], contracts.Contract{}) // truncate + append over the shared array
		res = append(res, contracts.Contract{})
		_ = res
	}
}

func main() {
	repo := flag.String("repo", "/repo", "tree under test (committed artifacts are read from it)")
	orders := flag.String("orders", "", "accessor=dir,dir,...;accessor=... expected order")
	flag.Parse()
	want := map[string][]string{}
	for _, part := range strings.Split(*orders, ";") {
		if kv := strings.SplitN(part, "=", 2); len(kv) == 2 && kv[1] != "" {
			want[kv[0]] = strings.Split(kv[1], ",")
		}
	}
	// the committed artifacts, rendered the same way
	ms, _ := filepath.Glob(filepath.Join(*repo, "contracts", "*", "manifest.json"))
	for _, mp := range ms {
		dir := filepath.Base(filepath.Dir(mp))
		mb, err := os.ReadFile(mp)
		if err != nil {
			continue
		}
		var c contracts.Contract
		if err := json.Unmarshal(mb, &c.Manifest); err != nil {
			continue // reported by the byte comparisons of TestC15
		}
		nb, _ := os.ReadFile(filepath.Join(filepath.Dir(mp), "contract.nef"))
		cm, _ := json.Marshal(&c.Manifest)
		disk[c.Manifest.Name] = rendered{Nef: nb, Manifest: cm, Name: c.Manifest.Name}
		dirOf[c.Manifest.Name] = dir
	}

	var names []string
	for n := range accessors {
		names = append(names, n)
	}
	sort.Strings(names)
	rep.Accessors = names
	for _, acc := range names {
		f := accessors[acc]
		res, err := f()
		first := check(acc, "call 1", "nothing", res, err, want[acc], nil)
		after := "nothing"
		for round := 0; round < 4; round++ {
			if round > 0 { // round 0: a second read-only call
				mutate(res, round-1)
				after = fmt.Sprintf("the caller of call %d mutated its result (variant %d: NEF bytes, manifest fields, order, slice)", round+1, round-1)
			}
			res, err = f()
			check(acc, fmt.Sprintf("call %d", round+2), after, res, err, want[acc], first)
		}
		// concurrently: each goroutine reads, checks, then spoils its own copy
		var wg sync.WaitGroup
		for g := 0; g < 8; g++ {
			wg.Add(1)
			go func(g int) {
				defer wg.Done()
				defer func() {
					if x := recover(); x != nil {
						add(acc, fmt.Sprintf("goroutine %d", g), "concurrent callers mutating their results", "panic: %v", x)
					}
				}()
				for it := 0; it < 3; it++ {
					r, e := f()
					check(acc, fmt.Sprintf("goroutine %d call %d", g, it+1), "concurrent callers mutating their results", r, e, want[acc], first)
					mutate(r, g+it)
				}
			}(g)
		}
		wg.Wait()
		res, err = f()
		check(acc, "last call", "8 goroutines called and mutated their results", res, err, want[acc], first)
	}
	b, _ := json.MarshalIndent(rep, "", " ")
	fmt.Println(string(b))
}
