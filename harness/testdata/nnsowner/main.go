// Package nnsowner is a helper contract of the verification harness: a
// contract that can own NNS names. It forwards calls (so that it is the
// calling script hash and CheckWitness(its hash) holds) and accepts NEP-11
// payments.
package nnsowner

import (
	"github.com/nspcc-dev/neo-go/pkg/interop"
	"github.com/nspcc-dev/neo-go/pkg/interop/contract"
)

// Call forwards the call.
func Call(h interop.Hash160, method string, args []any) any {
	return contract.Call(h, method, contract.All, args...)
}

// OnNEP11Payment accepts everything.
func OnNEP11Payment(from interop.Hash160, amount int, tokenID []byte, data any) {
}
