// Package c16netmap is a stand-in for the Netmap contract used by the C16
// harness when it exercises the Alphabet contract's 0.16 -> 0.17 notary
// switch (the GAS distribution): it answers `netmap` and `innerRingList`
// with whatever was stored by Set.
package c16netmap

import (
	"github.com/nspcc-dev/neo-go/pkg/interop/native/std"
	"github.com/nspcc-dev/neo-go/pkg/interop/storage"
)

// Set stores the serialized answer of a method.
func Set(method string, serialized []byte) {
	storage.Put(storage.GetContext(), method, serialized)
}

// Netmap returns the stored node list ([]struct{BLOB, State}).
func Netmap() any {
	return std.Deserialize(storage.Get(storage.GetReadOnlyContext(), "netmap").([]byte))
}

// InnerRingList returns the stored list of struct{PublicKey}.
func InnerRingList() any {
	return std.Deserialize(storage.Get(storage.GetReadOnlyContext(), "innerRingList").([]byte))
}
