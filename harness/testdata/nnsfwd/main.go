// Package nnsfwd is a helper contract of the verification harness: a receiver
// of NNS names whose onNEP11Payment calls back into the NNS contract, as the
// transfer's `data` = [mode, account] tells it:
//
//	1 forward the received name to account, 2 send it back to the sender,
//	3 read ownerOf / balanceOf / tokensOf during the callback and keep what it
//	saw (Last), 4 refuse (panic); no data: accept silently.
package nnsfwd

import (
	"github.com/nspcc-dev/neo-go/pkg/interop"
	"github.com/nspcc-dev/neo-go/pkg/interop/contract"
	"github.com/nspcc-dev/neo-go/pkg/interop/iterator"
	"github.com/nspcc-dev/neo-go/pkg/interop/runtime"
	"github.com/nspcc-dev/neo-go/pkg/interop/storage"
)

// Call forwards the call (so that the contract can own names and act for them).
func Call(h interop.Hash160, method string, args []any) any {
	return contract.Call(h, method, contract.All, args...)
}

// OnNEP11Payment reacts as `data` says.
func OnNEP11Payment(from interop.Hash160, amount int, tokenID []byte, data any) {
	if data == nil {
		return
	}
	args := data.([]any)
	mode := args[0].(int)
	nns := runtime.GetCallingScriptHash()
	self := runtime.GetExecutingScriptHash()
	switch mode {
	case 1:
		// args[1] is handed on as it came (a ByteString): a type assertion to Hash160 would
		// make it a Buffer, which NNS's util.Equals(from, to) never finds equal to the stored owner
		if !contract.Call(nns, "transfer", contract.All, args[1], tokenID, nil).(bool) {
			panic("forwarding refused")
		}
	case 2:
		if !contract.Call(nns, "transfer", contract.All, from, tokenID, nil).(bool) {
			panic("sending back refused")
		}
	case 3:
		owner := contract.Call(nns, "ownerOf", contract.ReadOnly, tokenID).(interop.Hash160)
		bal := contract.Call(nns, "balanceOf", contract.ReadOnly, self).(int)
		it := contract.Call(nns, "tokensOf", contract.ReadOnly, self).(iterator.Iterator)
		has := 0
		for iterator.Next(it) {
			if iterator.Value(it).(string) == string(tokenID) {
				has++
			}
		}
		ctx := storage.GetContext()
		storage.Put(ctx, "owner", owner)
		storage.Put(ctx, "bal", bal)
		storage.Put(ctx, "has", has)
	case 4:
		panic("rejected by the receiver")
	}
}

// Last returns what mode 3 saw: owner of the token, own balance, number of
// own token-index entries equal to the token.
func Last() []any {
	ctx := storage.GetReadOnlyContext()
	return []any{storage.Get(ctx, "owner"), storage.Get(ctx, "bal"), storage.Get(ctx, "has")}
}
