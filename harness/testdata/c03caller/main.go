// Package c03caller is a helper contract of the verification harness (C03):
// it forwards a call to another contract, so that "the calling contract is X"
// and "the argument is the calling contract's own hash" paths can be
// exercised by somebody who is nobody: anyone can deploy such a contract.
// It has a newEpoch(epoch) method (so that it qualifies as a NewEpoch
// subscriber) and accepts NEP-17 / NEP-11 payments.
package c03caller

import (
	"github.com/nspcc-dev/neo-go/pkg/interop"
	"github.com/nspcc-dev/neo-go/pkg/interop/contract"
)

// Call forwards the call.
func Call(h interop.Hash160, method string, args []any) any {
	return contract.Call(h, method, contract.All, args...)
}

// NewEpoch does nothing.
func NewEpoch(epoch int) {
}

// OnNEP17Payment accepts everything.
func OnNEP17Payment(from interop.Hash160, amount int, data any) {
}

// OnNEP11Payment accepts everything.
func OnNEP11Payment(from interop.Hash160, amount int, token []byte, data any) {
}
