// Package dummytoken is a helper contract of the verification harness (C19):
// a minimal NEP-17 token that is NOT native GAS or NEO. Its transfer calls the
// recipient contract's onNEP17Payment exactly as a NEP-17 token must, so that
// the "only GAS can be accepted" paths of the NeoFS governance contracts are
// exercised with a real token as the calling contract.
package dummytoken

import (
	"github.com/nspcc-dev/neo-go/pkg/interop"
	"github.com/nspcc-dev/neo-go/pkg/interop/contract"
	"github.com/nspcc-dev/neo-go/pkg/interop/native/management"
	"github.com/nspcc-dev/neo-go/pkg/interop/runtime"
	"github.com/nspcc-dev/neo-go/pkg/interop/storage"
)

const supplyKey = "s"

// Symbol returns the token symbol.
func Symbol() string { return "DUM" }

// Decimals returns the token precision.
func Decimals() int { return 8 }

// TotalSupply returns the amount of minted tokens.
func TotalSupply() int {
	v := storage.Get(storage.GetReadOnlyContext(), supplyKey)
	if v == nil {
		return 0
	}
	return v.(int)
}

// BalanceOf returns the token balance of the account.
func BalanceOf(acc interop.Hash160) int {
	v := storage.Get(storage.GetReadOnlyContext(), append([]byte("b"), acc...))
	if v == nil {
		return 0
	}
	return v.(int)
}

// Mint creates tokens out of thin air (test helper, no authorisation).
func Mint(to interop.Hash160, amount int) {
	ctx := storage.GetContext()
	storage.Put(ctx, append([]byte("b"), to...), BalanceOf(to)+amount)
	storage.Put(ctx, supplyKey, TotalSupply()+amount)
	var none interop.Hash160
	runtime.Notify("Transfer", none, to, amount)
}

// Transfer moves tokens and calls onNEP17Payment of a recipient contract.
func Transfer(from, to interop.Hash160, amount int, data any) bool {
	if len(from) != interop.Hash160Len || len(to) != interop.Hash160Len {
		panic("bad address")
	}
	if amount < 0 {
		panic("negative amount")
	}
	if !runtime.CheckWitness(from) {
		return false
	}
	fb := BalanceOf(from)
	if fb < amount {
		return false
	}
	ctx := storage.GetContext()
	if !from.Equals(to) && amount != 0 {
		storage.Put(ctx, append([]byte("b"), from...), fb-amount)
		storage.Put(ctx, append([]byte("b"), to...), BalanceOf(to)+amount)
	}
	runtime.Notify("Transfer", from, to, amount)
	if management.GetContract(to) != nil {
		contract.Call(to, "onNEP17Payment", contract.All, from, amount, data)
	}
	return true
}

// Pay calls onNEP17Payment of the target with arbitrary arguments, without
// moving anything: what a malicious "token" can do.
func Pay(to interop.Hash160, from interop.Hash160, amount int, data any) {
	contract.Call(to, "onNEP17Payment", contract.All, from, amount, data)
}
