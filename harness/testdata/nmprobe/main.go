// Package nmprobe is a helper contract of the verification harness: a
// subscriber of the Netmap contract's epoch tick. It counts the newEpoch
// calls it receives per epoch in its own storage, announces every call with a
// notification (so that the order of calls across several probes is visible
// in the application log of the tick) and can be told to reject one epoch.
package nmprobe

import (
	"github.com/nspcc-dev/neo-go/pkg/interop"
	"github.com/nspcc-dev/neo-go/pkg/interop/contract"
	"github.com/nspcc-dev/neo-go/pkg/interop/iterator"
	"github.com/nspcc-dev/neo-go/pkg/interop/native/std"
	"github.com/nspcc-dev/neo-go/pkg/interop/runtime"
	"github.com/nspcc-dev/neo-go/pkg/interop/storage"
)

const (
	faultKey   = "fault"
	totalKey   = "total"
	lastKey    = "last"
	callPrefix = "c"

	// talking back to Netmap during the callback
	modeKey   = "mode"   // 0 nothing, 1 read and record, 2 re-enter newEpoch(epoch+delta), 3 call addPeerIR(info)
	netmapKey = "netmap" // script hash of the Netmap contract
	argKey    = "arg"    // mode 2: delta, mode 3: node info
	insideKey = "inside" // re-entrancy guard of the probe itself
	seenPfx   = "s"      // mode 1: what Netmap answered during the callback
)

// NewEpoch is the callback invoked by Netmap.
func NewEpoch(epoch int) {
	ctx := storage.GetContext()
	f := storage.Get(ctx, faultKey)
	if f != nil && f.(int) == epoch {
		panic("probe: told to reject this epoch")
	}
	key := append([]byte(callPrefix), toKey(epoch)...)
	n := 0
	if v := storage.Get(ctx, key); v != nil {
		n = v.(int)
	}
	storage.Put(ctx, key, n+1)
	t := 0
	if v := storage.Get(ctx, totalKey); v != nil {
		t = v.(int)
	}
	storage.Put(ctx, totalKey, t+1)
	storage.Put(ctx, lastKey, epoch)
	runtime.Notify("ProbeEpoch", epoch)
	talkBack(ctx, epoch)
}

// talkBack: what the probe does to Netmap while it is being called by it.
func talkBack(ctx storage.Context, epoch int) {
	m := storage.Get(ctx, modeKey)
	if m == nil || m.(int) == 0 || storage.Get(ctx, insideKey) != nil {
		return
	}
	nm := storage.Get(ctx, netmapKey).(interop.Hash160)
	storage.Put(ctx, insideKey, 1)
	switch m.(int) {
	case 1:
		storage.Put(ctx, seenPfx+"epoch", contract.Call(nm, "epoch", contract.ReadOnly).(int))
		storage.Put(ctx, seenPfx+"block", contract.Call(nm, "lastEpochBlock", contract.ReadOnly).(int))
		storage.Put(ctx, seenPfx+"netmap", std.Serialize(contract.Call(nm, "netmap", contract.ReadOnly)))
		storage.Put(ctx, seenPfx+"snapshot0", std.Serialize(contract.Call(nm, "snapshot", contract.ReadOnly, 0)))
		it := contract.Call(nm, "listNodes", contract.ReadOnly, epoch).(iterator.Iterator)
		var nodes []any
		for iterator.Next(it) {
			nodes = append(nodes, iterator.Value(it))
		}
		storage.Put(ctx, seenPfx+"nodes", std.Serialize(nodes))
		storage.Put(ctx, seenPfx+"arg", epoch)
	case 2:
		contract.Call(nm, "newEpoch", contract.All, epoch+storage.Get(ctx, argKey).(int))
	case 3:
		contract.Call(nm, "addPeerIR", contract.All, storage.Get(ctx, argKey).([]byte))
	}
	storage.Delete(ctx, insideKey)
}

// Tick forwards a tick: the probe itself calls netmap.newEpoch(epoch) (the
// transaction must carry the Alphabet witness).
func Tick(netmap interop.Hash160, epoch int) {
	contract.Call(netmap, "newEpoch", contract.All, epoch)
}

// SetMode configures what the probe does to Netmap during its callback.
func SetMode(mode int, netmap interop.Hash160, arg any) {
	ctx := storage.GetContext()
	storage.Put(ctx, modeKey, mode)
	storage.Put(ctx, netmapKey, netmap)
	if arg != nil {
		storage.Put(ctx, argKey, arg)
	}
}

// SeenInt returns an integer recorded in mode 1 ("epoch", "block", "arg"; -1 if none).
func SeenInt(what string) int {
	v := storage.Get(storage.GetReadOnlyContext(), seenPfx+what)
	if v == nil {
		return -1
	}
	return v.(int)
}

// Seen returns a value recorded in mode 1 ("netmap", "snapshot0", "nodes").
func Seen(what string) any {
	v := storage.Get(storage.GetReadOnlyContext(), seenPfx+what)
	if v == nil {
		return nil
	}
	return std.Deserialize(v.([]byte))
}

func toKey(epoch int) []byte {
	var b any = epoch
	return b.([]byte)
}

// SetFault makes the probe reject newEpoch(epoch) from now on (one epoch at a
// time; use ClearFault to accept everything again).
func SetFault(epoch int) {
	storage.Put(storage.GetContext(), faultKey, epoch)
}

// ClearFault makes the probe accept every epoch.
func ClearFault() {
	storage.Delete(storage.GetContext(), faultKey)
}

// Calls returns how many times newEpoch(epoch) was accepted.
func Calls(epoch int) int {
	v := storage.Get(storage.GetReadOnlyContext(), append([]byte(callPrefix), toKey(epoch)...))
	if v == nil {
		return 0
	}
	return v.(int)
}

// Total returns the number of accepted newEpoch calls.
func Total() int {
	v := storage.Get(storage.GetReadOnlyContext(), totalKey)
	if v == nil {
		return 0
	}
	return v.(int)
}

// Last returns the argument of the last accepted call (0 if none).
func Last() int {
	v := storage.Get(storage.GetReadOnlyContext(), lastKey)
	if v == nil {
		return 0
	}
	return v.(int)
}
