// Package nmprobe is a helper contract of the verification harness: a
// subscriber of the Netmap contract's epoch tick. It counts the newEpoch
// calls it receives per epoch in its own storage, announces every call with a
// notification (so that the order of calls across several probes is visible
// in the application log of the tick) and can be told to reject one epoch.
package nmprobe

import (
	"github.com/nspcc-dev/neo-go/pkg/interop/runtime"
	"github.com/nspcc-dev/neo-go/pkg/interop/storage"
)

const (
	faultKey   = "fault"
	totalKey   = "total"
	lastKey    = "last"
	callPrefix = "c"
)

// NewEpoch is the callback invoked by Netmap.
func NewEpoch(epoch int) {
	ctx := storage.GetContext()
	f := storage.Get(ctx, faultKey)
	if f != nil && f.(int) == epoch {
		panic("probe: told to reject this epoch")
	}
	key := append([]byte(callPrefix), toKey(epoch)...)
	n := 0
	if v := storage.Get(ctx, key); v != nil {
		n = v.(int)
	}
	storage.Put(ctx, key, n+1)
	t := 0
	if v := storage.Get(ctx, totalKey); v != nil {
		t = v.(int)
	}
	storage.Put(ctx, totalKey, t+1)
	storage.Put(ctx, lastKey, epoch)
	runtime.Notify("ProbeEpoch", epoch)
}

func toKey(epoch int) []byte {
	var b any = epoch
	return b.([]byte)
}

// SetFault makes the probe reject newEpoch(epoch) from now on (one epoch at a
// time; use ClearFault to accept everything again).
func SetFault(epoch int) {
	storage.Put(storage.GetContext(), faultKey, epoch)
}

// ClearFault makes the probe accept every epoch.
func ClearFault() {
	storage.Delete(storage.GetContext(), faultKey)
}

// Calls returns how many times newEpoch(epoch) was accepted.
func Calls(epoch int) int {
	v := storage.Get(storage.GetReadOnlyContext(), append([]byte(callPrefix), toKey(epoch)...))
	if v == nil {
		return 0
	}
	return v.(int)
}

// Total returns the number of accepted newEpoch calls.
func Total() int {
	v := storage.Get(storage.GetReadOnlyContext(), totalKey)
	if v == nil {
		return 0
	}
	return v.(int)
}

// Last returns the argument of the last accepted call (0 if none).
func Last() int {
	v := storage.Get(storage.GetReadOnlyContext(), lastKey)
	if v == nil {
		return 0
	}
	return v.(int)
}
