// Package c16stub is the storage injector of the C16 harness.  It is deployed
// under the manifest NAME of the contract whose migration is exercised (the
// harness writes a config.yml with that name at run time), filled with a
// synthetic legacy storage through Put, and then replaced by the contract
// compiled from the tree through Update, which forwards to
// Management.update; `_deploy(data, true)` of the NEW code then runs on
// exactly the storage written here.  Unlike the real contracts' Update it
// does not append a version: data is passed as is, so the harness chooses
// the "deployed version" freely.
package c16stub

import (
	"github.com/nspcc-dev/neo-go/pkg/interop"
	"github.com/nspcc-dev/neo-go/pkg/interop/contract"
	"github.com/nspcc-dev/neo-go/pkg/interop/native/management"
	"github.com/nspcc-dev/neo-go/pkg/interop/storage"
)

// Put stores raw bytes under a raw key.
func Put(k []byte, v []byte) {
	storage.Put(storage.GetContext(), k, v)
}

// PutMany stores a batch of (key, value) pairs.
func PutMany(kvs [][]byte) {
	ctx := storage.GetContext()
	for i := 0; i < len(kvs); i += 2 {
		storage.Put(ctx, kvs[i], kvs[i+1])
	}
}

// Update forwards to Management.update without touching data.
func Update(nef []byte, manifest []byte, data any) {
	contract.Call(interop.Hash160(management.Hash), "update", contract.All, nef, manifest, data)
}

// OnNEP17Payment lets the stub hold GAS (alphabet migration distributes it).
func OnNEP17Payment(from interop.Hash160, amount int, data any) {
}
